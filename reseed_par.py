#!/usr/bin/env python3
"""Parallel variant of reseed.py: every recorded seed (seeded/<id>/patch.diff) is applied to one of N scratch
worktrees of /repo's HEAD (under /tmp, removed at the end) and all properties are evaluated on it in one process
(`lfscheck sweep -repo <worktree>`: the same obligations as the registered per-property commands, loaded once).
Rewrites 'obligations_fired_now' / 'applies_to_current_tree' in each meta.json and seeded/TABLE.md. /repo is not touched."""
import json,subprocess,os,re,sys,glob,threading,queue
os.chdir('/verif')
N=int(sys.argv[1]) if len(sys.argv)>1 else 8
seeds=[]
for d in sorted(glob.glob('seeded/*/'), key=lambda d:(d.split('/')[1].split('-')[0], int(d.split('/')[1].split('-')[1]))):
    if os.path.exists(d+'patch.diff'): seeds.append(d)
q=queue.Queue()
for d in seeds: q.put(d)
res={}
def worker(k):
    wt='/tmp/wt-rs-%d'%k
    subprocess.run(['git','-C','/repo','worktree','remove','--force',wt],capture_output=True)
    subprocess.run(['git','-C','/repo','worktree','add','-q','--detach',wt,'HEAD'],check=True)
    try:
        while True:
            try: d=q.get_nowait()
            except queue.Empty: return
            subprocess.run(['git','-C',wt,'checkout','-q','--','.'])
            r=subprocess.run(['git','-C',wt,'apply',os.path.abspath(d+'patch.diff')],capture_output=True,text=True)
            if r.returncode!=0:
                res[d]=None; continue
            out=subprocess.run(['bin/lfscheck','sweep','-repo',wt],capture_output=True,text=True).stdout
            subprocess.run(['git','-C',wt,'checkout','-q','--','.'])
            if not re.search(r'^C20 obligations=',out,re.M):
                res[d]=['SWEEP-INCOMPLETE']; continue
            res[d]=sorted(set(re.findall(r'^(?:VIOLATION|UNDECIDED) (C\d+\.\S+)',out,re.M)))
    finally:
        subprocess.run(['git','-C','/repo','worktree','remove','--force',wt],capture_output=True)
ts=[threading.Thread(target=worker,args=(k,)) for k in range(N)]
[t.start() for t in ts]; [t.join() for t in ts]
rows=[]
for d in seeds:
    sid=os.path.basename(d.rstrip('/'))
    meta=json.load(open(d+'meta.json')) if os.path.exists(d+'meta.json') else {"id":sid}
    fired=res.get(d)
    if fired is None:
        meta['applies_to_current_tree']=False
        rows.append((sid,meta.get('property','?'),'(patch no longer applies)',meta.get('obligations_fired',[])))
        json.dump(meta,open(d+'meta.json','w'),indent=1); continue
    meta['applies_to_current_tree']=True
    meta['obligations_fired_now']=fired
    benign=str(meta.get('note_current_tree','')).startswith('behaviour-preserving')
    meta['detected']=bool(fired) if not benign else 'n/a (behaviour-preserving on the current tree)'
    json.dump(meta,open(d+'meta.json','w'),indent=1)
    rows.append((sid,meta.get('property','?'),'detected' if fired else ('n/a: behaviour-preserving on the current tree (silent as required)' if benign else 'MISSED'),fired))
with open('seeded/TABLE.md','w') as f:
    f.write('| seed | property | result on current tree | obligations that fire |\n|---|---|---|---|\n')
    for sid,prop,r,fired in rows:
        f.write('| %s | %s | %s | %s |\n'%(sid,prop,r,', '.join(fired[:6])+(' ...' if len(fired)>6 else '')))
print(sum(1 for r in rows if r[2]=='detected'),'detected;',sum(1 for r in rows if r[2]=='MISSED'),'MISSED;',sum(1 for r in rows if r[2].startswith('n/a')),'n/a;',sum(1 for r in rows if r[2].startswith('(')),'no longer apply')
for r in rows:
    if r[2]=='MISSED' or r[2].startswith('(') or (r[2].startswith('n/a') and r[3]): print(r[0],r[2],r[3][:3])

#!/usr/bin/env python3
"""Re-run every recorded seed (seeded/<id>/patch.diff) against every registered check on the
current /repo tree and rewrite the 'obligations_fired_now' field of its meta.json plus
seeded/TABLE.md. A patch that no longer applies (the tree was repaired nearby) is reported
as such; it was verified on the tree it was written for (see meta.json)."""
import json,subprocess,os,re,sys,glob
os.chdir('/verif')
checks=[c['property_id'] for c in json.load(open('MANIFEST.json'))['checks']]
rows=[]
for d in sorted(glob.glob('seeded/*/')):
    sid=os.path.basename(d.rstrip('/'))
    pf=d+'patch.diff'
    if not os.path.exists(pf): continue
    meta=json.load(open(d+'meta.json')) if os.path.exists(d+'meta.json') else {"id":sid}
    subprocess.run(['git','-C','/repo','checkout','-q','--','.'])
    r=subprocess.run(['git','-C','/repo','apply',os.path.abspath(pf)],capture_output=True,text=True)
    if r.returncode!=0:
        meta['applies_to_current_tree']=False
        rows.append((sid,meta.get('property','?'),'(patch no longer applies)',meta.get('obligations_fired',[])))
        json.dump(meta,open(d+'meta.json','w'),indent=1); continue
    fired=[]
    try:
        procs=[(p,subprocess.Popen(['bin/lfscheck','check','-property',p,'-no-evidence'],stdout=subprocess.PIPE,stderr=subprocess.STDOUT,text=True)) for p in checks]
        for p,pr in procs:
            out=pr.communicate()[0]
            fired+=re.findall(r'^(?:VIOLATION|UNDECIDED) (C\d+\.\S+)',out,re.M)
    finally:
        subprocess.run(['git','-C','/repo','checkout','-q','--','.'])
    fired=sorted(set(fired))
    meta['applies_to_current_tree']=True
    meta['obligations_fired_now']=fired
    benign=str(meta.get('note_current_tree','')).startswith('behaviour-preserving')
    meta['detected']=bool(fired) if not benign else 'n/a (behaviour-preserving on the current tree)'
    json.dump(meta,open(d+'meta.json','w'),indent=1)
    rows.append((sid,meta.get('property','?'),'detected' if fired else ('n/a: behaviour-preserving on the current tree (silent as required)' if benign else 'MISSED'),fired))
with open('seeded/TABLE.md','w') as f:
    f.write('| seed | property | result on current tree | obligations that fire |\n|---|---|---|---|\n')
    for sid,prop,res,fired in rows:
        f.write('| %s | %s | %s | %s |\n'%(sid,prop,res,', '.join(fired[:6])+(' ...' if len(fired)>6 else '')))
print('\n'.join('%s %s %s'%(r[0],r[2],len(r[3])) for r in rows))

#!/bin/bash
# Re-runs every seed's demonstration on a scratch worktree of /repo's HEAD: it must pass on the clean tree and
# fail with the seed's patch. Writes seeded/DEMOS.md. Usage: redemo.sh [id ...]
export GOFLAGS=-mod=mod GOPROXY=off GOSUMDB=off GOTOOLCHAIN=local; unset GOWORK
WT=/tmp/wt-demo
git -C /repo worktree remove --force $WT 2>/dev/null; git -C /repo worktree add -q --detach $WT HEAD || exit 2
cd $WT
ids="$@"; [ -z "$ids" ] && ids=$(ls /verif/seeded | grep -E '^C[0-9]+-[0-9]+$' | sort -V)
out=/verif/seeded/DEMOS.md
[ $# -eq 0 ] && printf '| seed | demo on clean tree | demo with patch |\n|---|---|---|\n' > $out
for id in $ids; do
  d=/verif/seeded/$id; f=$d/demo_test.go.txt; [ -f $f ] || continue
  pkgline=$(grep -m1 '^package ' $f | awk '{print $2}')
  case "$pkgline" in
    http_test|http) pk=http;; chunk_test|chunk) pk=internal/chunk;; fuse_test|fuse) pk=fuse;; lfsc_test|lfsc) pk=lfsc;; consul_test|consul) pk=consul;; main|main_test) pk=cmd/litefs;; *) pk=.;;
  esac
  git checkout -q -- . ; git clean -fdq
  cp $f $pk/zz_seed_demo_test.go
  RX=$(grep -o '^func Test[A-Za-z0-9_]*' $f | sed 's/func //' | paste -sd'|')
  timeout 300 go test -vet=off -count=1 -timeout 240s -run "$RX" ./$pk > /tmp/redemo.out 2>&1; r0=$?
  if git apply $d/patch.diff 2>/dev/null; then
    timeout 300 go test -vet=off -count=1 -timeout 240s -run "$RX" ./$pk > /tmp/redemo.out 2>&1; r1=$?
    w=$([ $r1 -ne 0 ] && echo fails || echo PASSES)
  else w="(patch does not apply)"; fi
  c=$([ $r0 -eq 0 ] && echo passes || echo FAILS)
  echo "$id clean=$c patched=$w"
  [ $# -eq 0 ] && echo "| $id | $c | $w |" >> $out
done
cd /; git -C /repo worktree remove --force $WT

package main

// Rule kind K10: finite-domain abstract interpretation of the five lock
// functions of rwmutex.go (tryLock, tryRLock, unlock, CanLock, CanRLock).
//
// Abstract state of one guard g on its mutex rw:
//   g.state   in {U,S,X}                      (exact)
//   rw.sharedN in {0,1,2,>=3}                 (quotient; >=3 is one abstract value)
//   rw.excl   in {nil, self(=g), other}       (pointer identity classes)
// The interpreter executes the SSA of each function on every abstract
// pre-state that satisfies the invariant, forking on non-deterministic
// abstract results (>=3 - 1 = {2, >=3}); nothing from /repo is executed.

import (
	"fmt"
	"go/constant"
	"go/token"
	"go/types"
	"sort"
	"strings"

	"golang.org/x/tools/go/ssa"
)

const (
	absU = 0
	absS = 1
	absX = 2
)

type absState struct {
	st      int // guard state
	sharedN int // 0,1,2,3(=>=3)
	excl    int // 0 nil, 1 self, 2 other
}

func (s absState) String() string {
	n := fmt.Sprint(s.sharedN)
	if s.sharedN == 3 {
		n = ">=3"
	}
	return fmt.Sprintf("{guard=%s sharedN=%s excl=%s}", []string{"U", "S", "X"}[s.st], n, []string{"nil", "self", "other"}[s.excl])
}

func (s absState) inv() bool {
	if (s.excl == 1) != (s.st == absX) {
		return false
	}
	if s.excl != 0 && s.sharedN != 0 {
		return false
	}
	if s.st == absS && (s.sharedN < 1 || s.excl != 0) {
		return false
	}
	return true
}

func allInvStates() []absState {
	var out []absState
	for st := 0; st < 3; st++ {
		for n := 0; n < 4; n++ {
			for e := 0; e < 3; e++ {
				s := absState{st, n, e}
				if s.inv() {
					out = append(out, s)
				}
			}
		}
	}
	return out
}

// abstract values
type aval struct {
	kind string // int, sharedN, ptr, bool, state, other
	i    int64  // int / state / sharedN class / ptr class (0 nil,1 g,2 other guard,3 rw)
	b    bool
}

type absOutcome struct {
	post    absState
	results []aval
	panic   string // non-empty: assert failed / panic reached
	wrote   bool
}

type absMachine struct {
	p     *Prog
	depth int
	err   string
}

type frame struct {
	env    map[ssa.Value]aval
	locals map[*ssa.Alloc]aval
	st     absState
	wr     bool
}

func (m *absMachine) fail(format string, a ...any) {
	if m.err == "" {
		m.err = fmt.Sprintf(format, a...)
	}
}

// run executes fn (receiver = the guard g) from pre and returns all outcomes.
func (m *absMachine) run(fn *ssa.Function, pre absState, args map[*ssa.Parameter]aval) []absOutcome {
	if len(fn.Blocks) == 0 {
		m.fail("no body for %s", fn.Name())
		return nil
	}
	f := frame{env: map[ssa.Value]aval{}, st: pre}
	for k, v := range args {
		f.env[k] = v
	}
	return m.exec(fn, fn.Blocks[0], nil, f, 0, 0)
}

func cloneEnv(e map[ssa.Value]aval) map[ssa.Value]aval {
	n := make(map[ssa.Value]aval, len(e)+4)
	for k, v := range e {
		n[k] = v
	}
	return n
}

// field access paths relative to g / rw
func (m *absMachine) fieldOf(fa *ssa.FieldAddr, f *frame) (string, bool) {
	name := fieldName(fa.X.Type(), fa.Field)
	base, ok := f.env[fa.X]
	if !ok {
		base = m.eval(fa.X, f)
	}
	switch {
	case base.kind == "ptr" && base.i == 1: // g
		return "g." + name, true
	case base.kind == "ptr" && base.i == 3: // rw
		return "rw." + name, true
	}
	return "", false
}

func (m *absMachine) eval(v ssa.Value, f *frame) aval {
	if a, ok := f.env[v]; ok {
		return a
	}
	switch x := v.(type) {
	case *ssa.Const:
		if x.Value == nil {
			return aval{kind: "ptr", i: 0}
		}
		switch x.Value.Kind() {
		case constant.Bool:
			return aval{kind: "bool", b: constant.BoolVal(x.Value)}
		case constant.Int:
			n, _ := constant.Int64Val(x.Value)
			return aval{kind: "int", i: n}
		}
		return aval{kind: "other"}
	case *ssa.Function, *ssa.Global, *ssa.Builtin:
		return aval{kind: "other"}
	}
	m.fail("value %s (%T) not defined on this path", v.Name(), v)
	return aval{kind: "other"}
}

func sharedNCmp(op token.Token, class int64, k int64) (bool, bool) {
	// class 3 means >= 3; comparisons only decidable against small constants
	val := class
	if class == 3 {
		if k >= 3 {
			return false, false // undecidable in this quotient
		}
	}
	switch op {
	case token.EQL:
		return val == k && class != 3, true
	case token.NEQ:
		return !(val == k && class != 3), true
	case token.GTR:
		return val > k, true
	case token.GEQ:
		return val >= k, true
	case token.LSS:
		return val < k, true
	case token.LEQ:
		return val <= k, true
	}
	return false, false
}

func (m *absMachine) exec(fn *ssa.Function, b *ssa.BasicBlock, pred *ssa.BasicBlock, f frame, steps int, start int) []absOutcome {
	if steps > 400 || m.err != "" {
		m.fail("step bound exceeded in %s", fn.Name())
		return nil
	}
	f.env = cloneEnv(f.env)
	nl := make(map[*ssa.Alloc]aval, len(f.locals))
	for k, v := range f.locals {
		nl[k] = v
	}
	f.locals = nl
	for idx := start; idx < len(b.Instrs); idx++ {
		in := b.Instrs[idx]
		switch x := in.(type) {
		case *ssa.Phi:
			for i, pb := range b.Preds {
				if pb == pred {
					f.env[x] = m.eval(x.Edges[i], &f)
				}
			}
		case *ssa.Alloc:
			f.env[x] = aval{kind: "addr:local"}
			if _, ok := f.locals[x]; !ok {
				switch t := deref(x.Type()).Underlying().(type) {
				case *types.Basic:
					if t.Info()&types.IsBoolean != 0 {
						f.locals[x] = aval{kind: "bool"}
					} else {
						f.locals[x] = aval{kind: "int"}
					}
				default:
					f.locals[x] = aval{kind: "other"}
				}
			}
		case *ssa.FieldAddr:
			if name, ok := m.fieldOf(x, &f); ok {
				if name == "g.rw" {
					f.env[x] = aval{kind: "addr:g.rw"}
				} else {
					f.env[x] = aval{kind: "addr:" + name}
				}
			} else {
				m.fail("field address %s outside g/rw in %s", x, fn.Name())
				return nil
			}
		case *ssa.UnOp:
			switch x.Op {
			case token.MUL:
				if al, ok := x.X.(*ssa.Alloc); ok {
					f.env[x] = f.locals[al]
					continue
				}
				a := m.eval(x.X, &f)
				switch a.kind {
				case "addr:g.rw":
					f.env[x] = aval{kind: "ptr", i: 3}
				case "addr:g.state":
					f.env[x] = aval{kind: "state", i: int64(f.st.st)}
				case "addr:rw.sharedN":
					f.env[x] = aval{kind: "sharedN", i: int64(f.st.sharedN)}
				case "addr:rw.excl":
					f.env[x] = aval{kind: "ptr", i: map[int]int64{0: 0, 1: 1, 2: 2}[f.st.excl]}
				case "addr:rw.OnLockStateChange":
					f.env[x] = aval{kind: "other"}
				default:
					m.fail("load of %s not modelled in %s", a.kind, fn.Name())
					return nil
				}
			case token.NOT:
				a := m.eval(x.X, &f)
				f.env[x] = aval{kind: "bool", b: !a.b}
			default:
				m.fail("unary %s not modelled", x.Op)
				return nil
			}
		case *ssa.BinOp:
			l, r := m.eval(x.X, &f), m.eval(x.Y, &f)
			switch {
			case (l.kind == "sharedN" && r.kind == "int") || (l.kind == "int" && r.kind == "sharedN"):
				sn, k, op := l, r, x.Op
				if l.kind == "int" {
					sn, k = r, l
					switch op { // mirror
					case token.GTR:
						op = token.LSS
					case token.LSS:
						op = token.GTR
					case token.GEQ:
						op = token.LEQ
					case token.LEQ:
						op = token.GEQ
					}
				}
				switch op {
				case token.ADD:
					n := sn.i + k.i
					if n > 3 || sn.i == 3 {
						n = 3
					}
					f.env[x] = aval{kind: "sharedN", i: n}
				case token.SUB:
					if sn.i == 3 && k.i == 1 {
						// fork: >=3 - 1 is 2 or >=3
						var out []absOutcome
						for _, n := range []int64{2, 3} {
							g := f
							g.env = cloneEnv(f.env)
							g.env[x] = aval{kind: "sharedN", i: n}
							out = append(out, m.exec(fn, b, pred, g, steps+1, idx+1)...)
						}
						return out
					}
					n := sn.i - k.i
					if n < 0 {
						m.fail("sharedN underflow in %s", fn.Name())
						return nil
					}
					f.env[x] = aval{kind: "sharedN", i: n}
				default:
					res, ok := sharedNCmp(op, sn.i, k.i)
					if !ok {
						m.fail("comparison of sharedN with %d by %s is not exact in the {0,1,2,>=3} quotient", k.i, op)
						return nil
					}
					f.env[x] = aval{kind: "bool", b: res}
				}
			case l.kind == "ptr" && r.kind == "ptr":
				eq := l.i == r.i
				if l.i == 2 && r.i == 2 {
					m.fail("comparison of two 'other' pointers")
					return nil
				}
				f.env[x] = aval{kind: "bool", b: (x.Op == token.EQL) == eq}
			case (l.kind == "state" || l.kind == "int") && (r.kind == "state" || r.kind == "int"):
				var res bool
				switch x.Op {
				case token.EQL:
					res = l.i == r.i
				case token.NEQ:
					res = l.i != r.i
				default:
					m.fail("operator %s on states", x.Op)
					return nil
				}
				f.env[x] = aval{kind: "bool", b: res}
			case l.kind == "bool" && r.kind == "bool":
				switch x.Op {
				case token.EQL:
					f.env[x] = aval{kind: "bool", b: l.b == r.b}
				case token.NEQ:
					f.env[x] = aval{kind: "bool", b: l.b != r.b}
				default:
					m.fail("bool op %s", x.Op)
					return nil
				}
			default:
				m.fail("binary %s on %s,%s not modelled in %s", x.Op, l.kind, r.kind, fn.Name())
				return nil
			}
		case *ssa.Store:
			if al, ok := x.Addr.(*ssa.Alloc); ok {
				f.locals[al] = m.eval(x.Val, &f)
				continue
			}
			a := m.eval(x.Addr, &f)
			v := m.eval(x.Val, &f)
			f.wr = true
			switch a.kind {
			case "addr:g.state":
				f.st.st = int(v.i)
			case "addr:rw.sharedN":
				if v.kind != "sharedN" && v.kind != "int" {
					m.fail("store of %s into sharedN", v.kind)
					return nil
				}
				n := v.i
				if n > 3 {
					n = 3
				}
				f.st.sharedN = int(n)
			case "addr:rw.excl":
				switch v.i {
				case 0:
					f.st.excl = 0
				case 1:
					f.st.excl = 1
				default:
					m.fail("store of a foreign guard into excl")
					return nil
				}
			default:
				m.fail("store to %s not modelled in %s", a.kind, fn.Name())
				return nil
			}
		case *ssa.Call:
			name := m.p.CalleeName(&x.Call)
			switch name {
			case "litefs.assert":
				c := m.eval(x.Call.Args[0], &f)
				if !c.b {
					msg := m.p.Render(x.Call.Args[1])
					return []absOutcome{{post: f.st, panic: "assert: " + msg, wrote: f.wr}}
				}
			case "sync.(*Mutex).Lock", "sync.(*Mutex).Unlock":
			case "litefs.(*RWMutex).state":
				callee := x.Call.StaticCallee()
				outs := m.run(callee, f.st, map[*ssa.Parameter]aval{callee.Params[0]: {kind: "ptr", i: 3}})
				if len(outs) != 1 || outs[0].panic != "" {
					m.fail("state() has %d outcomes", len(outs))
					return nil
				}
				f.env[x] = outs[0].results[0]
			case "litefs.(*RWMutexGuard).tryLock", "litefs.(*RWMutexGuard).tryRLock", "litefs.(*RWMutexGuard).unlock":
				// helper composed of helpers: inline on the same guard
				callee := x.Call.StaticCallee()
				recv := m.eval(x.Call.Args[0], &f)
				if callee == nil || recv.kind != "ptr" || recv.i != 1 || m.depth >= 3 {
					m.fail("call of %s on another guard (or nested deeper than 3) in %s", name, fn.Name())
					return nil
				}
				m.depth++
				sub := m.run(callee, f.st, map[*ssa.Parameter]aval{callee.Params[0]: {kind: "ptr", i: 1}})
				m.depth--
				if m.err != "" {
					return nil
				}
				var out []absOutcome
				for _, so := range sub {
					if so.panic != "" {
						out = append(out, absOutcome{post: so.post, panic: so.panic, wrote: f.wr || so.wrote})
						continue
					}
					g := f
					g.env = cloneEnv(f.env)
					g.st = so.post
					g.wr = f.wr || so.wrote
					if len(so.results) == 1 {
						g.env[x] = so.results[0]
					} else {
						g.env[x] = aval{kind: "other"}
					}
					out = append(out, m.exec(fn, b, pred, g, steps+1, idx+1)...)
				}
				return out
			default:
				m.fail("call of %s not modelled in %s", name, fn.Name())
				return nil
			}
		case *ssa.Defer:
			if n := m.p.CalleeName(x.Common()); n != "sync.(*Mutex).Unlock" {
				m.fail("defer of %s", n)
				return nil
			}
		case *ssa.RunDefers, *ssa.DebugRef:
		case *ssa.MakeInterface:
			f.env[x] = aval{kind: "other"}
		case *ssa.Extract:
			f.env[x] = aval{kind: "other"}
		case *ssa.If:
			c := m.eval(x.Cond, &f)
			if c.kind != "bool" {
				m.fail("branch on %s", c.kind)
				return nil
			}
			if c.b {
				return m.exec(fn, b.Succs[0], b, f, steps+1, 0)
			}
			return m.exec(fn, b.Succs[1], b, f, steps+1, 0)
		case *ssa.Jump:
			return m.exec(fn, b.Succs[0], b, f, steps+1, 0)
		case *ssa.Return:
			var rs []aval
			for _, r := range x.Results {
				rs = append(rs, m.eval(r, &f))
			}
			return []absOutcome{{post: f.st, results: rs, wrote: f.wr}}
		case *ssa.Panic:
			return []absOutcome{{post: f.st, panic: "panic: " + m.p.Render(x.X), wrote: f.wr}}
		default:
			m.fail("instruction %T not modelled in %s", in, fn.Name())
			return nil
		}
	}
	return nil
}

// ---- specification ----

func othersS(s absState) []int { // possible counts of OTHER shared holders: 0,1,2,3(>=3)
	own := 0
	if s.st == absS {
		own = 1
	}
	if s.sharedN == 3 {
		if own == 1 {
			return []int{2, 3}
		}
		return []int{3}
	}
	return []int{s.sharedN - own}
}

type specResult struct {
	ok    bool
	posts []absState
}

// specOf gives the expected result/post-states of an operation by POSIX
// byte-range-lock rules between distinct owners.
func specOf(op string, s absState) specResult {
	oX := s.excl == 2
	os := othersS(s)
	noOtherS := len(os) == 1 && os[0] == 0
	switch op {
	case "tryLock":
		if s.st == absX {
			return specResult{true, []absState{s}}
		}
		if noOtherS && !oX {
			return specResult{true, []absState{{absX, 0, 1}}}
		}
		return specResult{false, []absState{s}}
	case "tryRLock":
		if s.st == absS {
			return specResult{true, []absState{s}}
		}
		if oX {
			return specResult{false, []absState{s}}
		}
		var posts []absState
		for _, o := range os {
			n := o + 1
			if n > 3 {
				n = 3
			}
			posts = append(posts, absState{absS, n, 0})
		}
		return specResult{true, posts}
	case "unlock":
		e := s.excl
		if e == 1 {
			e = 0
		}
		var posts []absState
		for _, o := range os {
			posts = append(posts, absState{absU, o, e})
		}
		return specResult{true, posts}
	case "CanLock":
		return specResult{s.st == absX || (noOtherS && !oX), []absState{s}}
	case "CanRLock":
		return specResult{s.st != absU || !oX, []absState{s}}
	}
	return specResult{}
}

func mutexStateOf(s absState) int64 {
	if s.excl != 0 {
		return 2
	}
	if s.sharedN > 0 {
		return 1
	}
	return 0
}

// rwAbstract decides the C12 safety obligations; one obligation per
// (function, abstract pre-state).
func (c *Ctx) rwAbstract(prefix string) {
	p := c.P
	rule := "K10 finite-domain abstract interpretation"
	why := "each advisory lock is at each instant unheld, held by one or more shared holders or by exactly one exclusive holder; an acquire/upgrade/downgrade/release succeeds exactly when POSIX byte-range-lock rules between distinct owners allow it; a failed attempt changes nothing"
	ops := []struct{ op, fn string }{
		{"tryLock", "litefs.(*RWMutexGuard).tryLock"}, {"tryRLock", "litefs.(*RWMutexGuard).tryRLock"}, {"unlock", "litefs.(*RWMutexGuard).unlock"},
		{"CanLock", "litefs.(*RWMutexGuard).CanLock"}, {"CanRLock", "litefs.(*RWMutexGuard).CanRLock"},
	}
	for _, o := range ops {
		fn := c.F(o.fn)
		if fn == nil || len(fn.Blocks) == 0 {
			c.undecided(prefix+"/"+o.op, rule, o.op+" resolves", "anchor function does not resolve")
			continue
		}
		for _, pre := range allInvStates() {
			key := fmt.Sprintf("%s/%s/%s", prefix, o.op, strings.NewReplacer(" ", "", "{", "", "}", "").Replace(pre.String()))
			desc := fmt.Sprintf("%s from %s: no assert/panic, invariant preserved, result and effect equal the specification", o.op, pre)
			m := &absMachine{p: p}
			outs := m.run(fn, pre, map[*ssa.Parameter]aval{fn.Params[0]: {kind: "ptr", i: 1}})
			if m.err != "" {
				c.undecided(key, rule, desc, "abstract interpreter: "+m.err)
				continue
			}
			spec := specOf(o.op, pre)
			bad := ""
			var gotPosts []string
			for _, out := range outs {
				if out.panic != "" {
					bad = "reaches " + out.panic
					break
				}
				if !out.post.inv() {
					bad = "post-state " + out.post.String() + " violates the invariant"
					break
				}
				res := len(out.results) > 0 && out.results[0].b
				if o.op != "unlock" && res != spec.ok {
					bad = fmt.Sprintf("returns %v, specification says %v", res, spec.ok)
					break
				}
				okPost := false
				for _, sp := range spec.posts {
					if sp == out.post {
						okPost = true
					}
				}
				if !okPost {
					bad = fmt.Sprintf("post-state %s, specification allows %v", out.post, spec.posts)
					break
				}
				if (o.op == "CanLock" || o.op == "CanRLock") && out.wrote {
					bad = "a query stores to lock state"
					break
				}
				if o.op == "CanLock" && len(out.results) > 1 && out.results[1].i != mutexStateOf(pre) {
					bad = fmt.Sprintf("reports mutex state %d, expected %d", out.results[1].i, mutexStateOf(pre))
					break
				}
				gotPosts = append(gotPosts, out.post.String())
			}
			if bad == "" {
				// every allowed post-state must be produced (no lost behaviour)
				sort.Strings(gotPosts)
				for _, sp := range spec.posts {
					found := false
					for _, g := range gotPosts {
						if g == sp.String() {
							found = true
						}
					}
					if !found {
						bad = "never produces the specified post-state " + sp.String()
					}
				}
			}
			if len(outs) == 0 && bad == "" {
				bad = "no outcome computed"
			}
			if bad != "" {
				c.fail(key, rule, desc, why, fmt.Sprintf("%s from %s: %s", o.op, pre, bad), 1)
			} else {
				c.ok(key, rule, desc, len(outs))
			}
		}
	}
	// quotient justification: sharedN is only compared with 0/1 and changed by +-1 or set to 0/1
	okQ, detail := true, ""
	nuse := 0
	for _, fn := range p.SrcFuncs() {
		for _, b := range fn.Blocks {
			for _, in := range b.Instrs {
				fa, ok := in.(*ssa.FieldAddr)
				if !ok || fieldPathOf(fa) != "litefs.RWMutex.sharedN" || fa.Referrers() == nil {
					continue
				}
				for _, r := range *fa.Referrers() {
					nuse++
					switch x := r.(type) {
					case *ssa.UnOp:
						if x.Referrers() == nil {
							continue
						}
						for _, r2 := range *x.Referrers() {
							bo, ok := r2.(*ssa.BinOp)
							if !ok {
								okQ, detail = false, "sharedN flows into "+fmt.Sprintf("%T", r2)+" at "+p.Pos(r2.Pos())
								continue
							}
							other := bo.Y
							if other == ssa.Value(x) {
								other = bo.X
							}
							k, isC := other.(*ssa.Const)
							if !isC || k.Value == nil || k.Value.Kind() != constant.Int {
								okQ, detail = false, "sharedN combined with a non-constant at "+p.Pos(bo.Pos())
								continue
							}
							n, _ := constant.Int64Val(k.Value)
							if n != 0 && n != 1 {
								okQ, detail = false, fmt.Sprintf("sharedN used with constant %d at %s", n, p.Pos(bo.Pos()))
							}
						}
					case *ssa.Store:
						if k, isC := x.Val.(*ssa.Const); isC {
							n, _ := constant.Int64Val(k.Value)
							if n != 0 && n != 1 {
								okQ, detail = false, fmt.Sprintf("sharedN set to %d", n)
							}
						} else if _, isB := x.Val.(*ssa.BinOp); !isB {
							okQ, detail = false, "sharedN assigned from "+fmt.Sprintf("%T", x.Val)
						}
					}
				}
			}
		}
	}
	dq := "rw.sharedN is only compared with 0 and 1, changed by +-1 or set to 0/1: the quotient {0,1,2,>=3} is exact for every instruction that touches it"
	if !okQ {
		c.fail(prefix+"/quotient", "K6 Origin (justification of the abstract domain)", dq, "otherwise the finite abstraction does not cover all concrete counts", detail, nuse)
	} else if nuse < 8 {
		c.fail(prefix+"/quotient", "K6 Origin (justification of the abstract domain)", dq, "", "fewer than 8 uses of sharedN found", nuse)
	} else {
		c.ok(prefix+"/quotient", "K6 Origin (justification of the abstract domain)", dq, nuse)
	}
	_ = types.Typ
}

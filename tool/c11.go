package main

import (
	"regexp"
	"fmt"
	"sort"
	"strings"

	"golang.org/x/tools/go/ssa"
)

func init() {
	register(&Property{
		ID:    "C11",
		Level: "other",
		Run:   c11,
		Explanation: "Decides that each code path that changes a database file on LiteFS's own initiative acquires the lock set SQLite's protocol requires: (1) every call site of the internal writers that take no locks themselves (ApplyLTXNoLock, WriteLTXFileAt, CheckpointNoLock, recover, rollbackJournal(Segment), invalidateJournal, TruncateWAL) is discovered and must be dominated by a successful AcquireWriteLock whose release is deferred (or pinned as a halt lock), or lie in another member of the family, or be application-originated (the SQLite connection holds the locks), or be a confirmed exception; (2) TryAcquireWriteLock's exit lock sets, decided by the per-path typestate: rollback mode PENDING/SHARED/RESERVED exclusive, WAL mode SHARED+DMS shared and WRITE/CKPT/RECOVER/READ0-4 exclusive, everything released on failure; (3) no function re-acquires the write lock while holding it (self-deadlock); (4) wiring tables: guard set fields to the same-named mutexes, lock-type constants to guards and to SQLite's byte offsets, range parsers; (5) the checkpoint gate and the WAL write guards. The recorded journal mode (which selects the lock set) after a rollback-journal commit derives from the committed page 1 only, never from the previous mode.",
		NotDecided: "the reachable-state exploration of two or three lock owners (that is model checking); it decides that each code path acquires the set the protocol requires.",
		Assumptions: []string{"go/ssa faithfully represents the source", "RWMutexGuard implements reader/writer semantics (C12)"},
	})
}

func c11(c *Ctx) {
	c.OnlyInScope("fuse-close/shm-locks-only-by-the-shm-handle", []string{"litefs", "fuse", "http"}, c.P.Calls("litefs.(*DB).UnlockSHM"), []string{pat("fuse.(*SHMHandle).Flush")}, 1,
		"an owner's wal-index locks (WRITE, CKPT, RECOVER, READ0-4, DMS) are dropped on close only by the flush of a shared-memory file handle",
		"POSIX drops the locks of the file whose descriptor is closed: a process that opens and closes the database file once more while its connection is inside a WAL transaction keeps its wal-index locks - released with the database file's, LiteFS's internal writer and other connections get WRITE/CKPT in the middle of the transaction")
	c.OnlyInScope("fuse-close/database-locks-only-by-the-database-handle", []string{"litefs", "fuse", "http"}, c.P.Calls("litefs.(*DB).UnlockDatabase"), []string{pat("fuse.(*DatabaseHandle).Flush")}, 1,
		"... and the database-file locks (PENDING, RESERVED, SHARED) only by the flush of a database file handle", "")
	for _, fn := range []string{"litefs.(*DB).WriteSnapshotTo", "litefs.(*DB).Export", "litefs.(*DB).TryAcquireWriteLock"} {
		short := fn[strings.LastIndex(fn, ".")+1:]
		c.ExpectAll("private-guards/"+short, c.CallArgs(fn, c.P.PlainCalls("litefs.(*GuardSet).Unlock", "litefs.(*RWMutexGuard).RLock", "litefs.(*RWMutexGuard).TryLock"), 0), `.*litefs\.\(\*DB\)\.newGuardSet\(p0, 0\).*`, 1,
			short+" locks through a guard set of its own (newGuardSet), never through a set shared under an owner id",
			"two overlapping snapshots, exports or internal writers sharing one set: the second one's lock calls are no-ops and the first to finish unlocks for both - the internal write lock and an application's EXCLUSIVE are then granted while the other is still reading")
	}
	c.haltLockSetFollowsMode("halt")
	{
		// "WAL writes made without holding the write lock are refused": the refusal must be about the writing owner
		p := c.P
		for _, f := range []string{"litefs.(*DB).writeWALHeader", "litefs.(*DB).writeWALFrameHeader", "litefs.(*DB).writeWALFrameData"} {
			short := f[len("litefs.(*DB)."):]
			key := "wal-write-gate/" + short + "/tests-the-writing-owner"
			desc := short + " refuses the write unless the lock state it tests belongs to the writing owner (its guard set), not only the database-wide WRITE mutex"
			why := "DB.writeLock is exclusive whenever any owner - another connection, a halt lock, a snapshot's temporary lock - holds WRITE: a writer that holds nothing passes the test"
			fn := c.F(f)
			if !c.need(key, "K2 Guarded", desc, fn, f) {
				continue
			}
			owner := ""
			for i, par := range fn.Params {
				if par.Name() == "owner" {
					owner = fmt.Sprintf("p%d", i)
				}
			}
			gate, ownerGate := 0, 0
			for _, b := range fn.Blocks {
				if len(b.Instrs) == 0 {
					continue
				}
				iff, ok := b.Instrs[len(b.Instrs)-1].(*ssa.If)
				if !ok {
					continue
				}
				r, _ := p.Cond(iff.Cond)
				if strings.Contains(r, ".State(") {
					gate++
					if owner != "" && regexp.MustCompile(`\b`+owner+`\b`).MatchString(r) {
						ownerGate++
					}
				}
			}
			switch {
			case gate == 0:
				c.fail(key, "K2 Guarded", desc, why, "no lock-state test found before the write", 0)
			case ownerGate == 0:
				c.fail(key, "K2 Guarded", desc, why, fmt.Sprintf("the only lock-state test is on the database-wide mutex (%d test(s)); parameter owner (%s) does not occur in it", gate, owner), gate)
			default:
				c.ok(key, "K2 Guarded", desc, ownerGate)
			}
			c.Guarded("wal-write-gate/"+short+"/some-write-lock-held", f, p.PlainCalls("os.(*File).WriteAt"), gs(G(`\(2 == litefs\.\(\*RWMutex(Guard)?\)\.State\(.*\)\)|\(litefs\.\(\*RWMutex(Guard)?\)\.State\(.*\) == 2\)`, true)), 1, short+" writes only while some owner holds WRITE exclusively (the part of the clause that holds)", "")
		}
	}
	{
		// one DB object (= one lock domain) per name: existence check, creation and registration form one critical section of Store.mu
		p := c.P
		lock := p.CallWhere("sync.(*Mutex).Lock", `^sync\.\(\*Mutex\)\.Lock\(&p0\.mu\)$`)
		unlock := func(in ssa.Instruction) bool {
			d, ok := in.(*ssa.Defer)
			return ok && p.RenderCall(d) == "sync.(*Mutex).Unlock(&p0.mu)"
		}
		for _, f := range []string{"litefs.(*Store).CreateDB", "litefs.(*Store).CreateDBIfNotExists"} {
			short := f[len("litefs.(*Store)."):]
			work := Any(p.CallsRe(`litefs\.OS\.(MkdirAll|WriteFile|OpenFile)`), p.PlainCalls("litefs.NewDB", "litefs.(*DB).Open"), p.Writes("litefs.Store.dbs[]"))
			c.Before("single-domain/"+short+"/locked-throughout", f, work, lock, 3, short+" takes Store.mu before it creates the files, builds the DB object and registers it", "two racing requests for a new name otherwise each build a DB object; the later registration replaces the earlier one, so a halt lock held through one object no longer excludes writers that go through the other")
			c.Before("single-domain/"+short+"/unlock-deferred", f, work, unlock, 3, "... and releases it only by a deferred unlock (held until return)", "")
			c.NoPath("single-domain/"+short+"/no-relock", f, lock, lock, 1, "... in one critical section (the mutex is not taken a second time)", "")
			c.OnlyIn("single-domain/"+short+"/lookup-not-delegated", func(in ssa.Instruction) bool {
				return p.PlainCalls("litefs.(*Store).DB")(in) && p.FuncName(topFunc(in.Parent())) == f
			}, nil, 0, short+" reads Store.dbs itself under that lock instead of calling Store.DB (which locks and unlocks on its own)", "")
		}
	}
	p := c.P
	// ---- full-set ----
	ta := "litefs.(*DB).TryAcquireWriteLock"
	okRet := func(in ssa.Instruction) bool {
		r, ok := in.(*ssa.Return)
		return ok && len(r.Results) == 1 && p.Render(returnedValue(r, 0)) != "nil" && !(r.Block().Index != 0 && len(r.Block().Preds) == 0)
	}
	rb := GP("(0 == litefs.(*DB).Mode(p0))", true)
	wal := GP("(0 == litefs.(*DB).Mode(p0))", false)
	c.LockAt("full-set/rollback", ta, okRet, map[string]string{"pending": "X", "shared": "X", "reserved": "X"}, gs(rb), 1,
		"in rollback mode TryAcquireWriteLock succeeds only holding PENDING, SHARED and RESERVED exclusively", "LiteFS never changes a database while any application connection holds a conflicting read or write lock")
	c.LockAt("full-set/wal", ta, okRet, map[string]string{"pending": "U", "shared": "S", "dms": "S", "write": "X", "ckpt": "X", "recover": "X", "read0": "X", "read1": "X", "read2": "X", "read3": "X", "read4": "X"}, gs(wal), 1,
		"in WAL mode TryAcquireWriteLock succeeds only holding SHARED and DMS shared and WRITE, CKPT, RECOVER and READ0-4 exclusively", "the READ locks exclude every WAL reader while pages are checkpointed or applied")
	c.GuardedPaths("full-set/mode-read-under-shared", ta, p.PlainCalls("litefs.(*DB).Mode"), [][]*Guard{{GP("litefs.(*RWMutexGuard).TryRLock(&litefs.(*DB).newGuardSet(p0, 0).shared)", true)}}, 1,
		"the journal mode is read after SHARED was acquired", "the mode can only change under an exclusive SHARED lock")
	undo := c.anonWith(ta, p.Calls("litefs.(*GuardSet).Unlock"))
	if undo == "" {
		c.fail("full-set/all-or-nothing", "K3", "a deferred closure releases the guard set when the attempt fails", "a partial lock set left behind blocks the application forever", "no closure of TryAcquireWriteLock calls GuardSet.Unlock", 0)
	} else {
		c.Before("full-set/all-or-nothing", ta, p.PlainCalls("litefs.(*RWMutexGuard).TryRLock", "litefs.(*RWMutexGuard).TryLock"), func(in ssa.Instruction) bool {
			d, ok := in.(*ssa.Defer)
			return ok && p.FuncName(p.calleeFunc(d)) == undo
		}, 12, "the release-on-failure handler is deferred before the first lock attempt", "")
		c.Guarded("full-set/all-or-nothing/only-on-nil", undo, p.Calls("litefs.(*GuardSet).Unlock"), gs(G(`\(nil == .*\)|\(.* == nil\)`, true)), 1, "the handler releases only when the result is nil", "a successful attempt that releases its guards hands out a write lock set that holds nothing")
		c.OnlyGuards("full-set/all-or-nothing/on-nil", undo, p.Calls("litefs.(*GuardSet).Unlock"), gs(G(`\(nil == .*\)|\(.* == nil\)`, true)), 1, "the handler releases everything exactly when the result is nil", "")
	}
	var fails []string
	for _, in := range Instrs(c.F(ta), func(in ssa.Instruction) bool { return IsReturn(in) && !okRet(in) && in.Block().Index != 1 }) {
		fails = append(fails, p.Render(returnedValue(in.(*ssa.Return), 0)))
	}
	c.ExpectAll("full-set/failures-return-nil", fails, "nil", 12, "every refused lock returns nil (so the deferred handler releases)", "")
	aw := "litefs.(*DB).AcquireWriteLock"
	c.Expect("full-set/acquire-returns-try", strings.Join(c.returnsMatchingIdx(aw, 0), ";"), pat("litefs.(*DB).TryAcquireWriteLock(p0)"), "AcquireWriteLock hands out exactly what TryAcquireWriteLock returned", "")
	c.Guarded("full-set/acquire-nonnil", aw, func(in ssa.Instruction) bool {
		r, ok := in.(*ssa.Return)
		return ok && len(r.Results) == 2 && p.Render(returnedValue(r, 0)) != "nil" && r.Block().Index != 1
	}, gs(GP("(litefs.(*DB).TryAcquireWriteLock(p0) == nil)", false)), 1, "AcquireWriteLock returns a guard set only when the attempt succeeded", "")

	{
		bad := ""
		n := 0
		for _, in := range Instrs(c.F(aw), IsReturn) {
			r := in.(*ssa.Return)
			if len(r.Results) != 2 || (r.Block().Index != 0 && len(r.Block().Preds) == 0) {
				continue
			}
			n++
			if p.Render(returnedValue(r, 0)) == "nil" && !p.knownNonNil(returnedValue(r, 1), r.Block()) {
				bad = "return at " + c.where(r) + " yields a nil guard set with an error that may be nil: " + p.Render(returnedValue(r, 1))
			}
		}
		d := "AcquireWriteLock never returns (nil, nil): a nil guard set always comes with a non-nil error"
		w := "every caller does 'if err != nil { return }; defer guard.Unlock()': (nil, nil) is a nil dereference, or worse, an internal writer running without the lock set"
		if bad != "" {
			c.fail("full-set/acquire-nil-implies-error", "K6/K7", d, w, bad, n)
		} else {
			c.ok("full-set/acquire-nil-implies-error", "K6/K7", d, n)
		}
	}

	// ---- the recorded journal mode (it selects the lock set of every internal writer) ----
	{
		var got []string
		for _, in := range Instrs(c.F("litefs.(*DB).CommitJournal"), p.Writes("litefs.DB.mode")) {
			got = append(got, fieldStoreVal(p, in))
		}
		c.ExpectAll("mode/journal-commit-origin", got, `phi\(0\|phi\(1\)\)|phi\(phi\(1\)\|0\)|phi\(0\|1\)|phi\(1\|0\)`, 1, "after a rollback-journal commit the recorded mode is rollback unless the committed page 1 says WAL - it never depends on the previous mode", "a journal commit is how a database leaves WAL mode: a mode that sticks to WAL makes every internal writer take the WAL lock set, which rollback-mode connections never contend on")
		var ap []string
		for _, in := range Instrs(c.F("litefs.(*DB).ApplyLTXNoLock"), p.Writes("litefs.DB.mode")) {
			ap = append(ap, fieldStoreVal(p, in))
		}
		c.ExpectAll("mode/apply-origin", ap, `phi\(0\|phi\((litefs\.\(\*DB\)\.Mode\(p0\)\|phi\((0\|1|1\|0)\)|phi\((0\|1|1\|0)\)\|litefs\.\(\*DB\)\.Mode\(p0\))\)\)`, 1, "after an apply the mode is rollback for a tombstone, WAL or rollback as the applied page 1 says, and unchanged only when page 1 is not part of the file", "a replica that keeps WAL mode after the primary went back to a rollback journal takes the WAL lock set for its internal writes, which does not exclude a rollback-mode reader holding SHARED")
		{
			// which of the two constants is chosen: WAL only for read/write version 2, rollback otherwise, both only for page 1
			fn := c.F("litefs.(*DB).ApplyLTXNoLock")
			d := "the mode taken from an applied page 1 is WAL exactly when bytes 18 and 19 are 2, rollback otherwise"
			okN, bad := 0, ""
			if fn != nil {
				isPg1 := G(`\(1 == .*\.Pgno\)|\(.*\.Pgno == 1\)`, true)
				b18 := G(`\(2 == .*\[18\]\)|\(.*\[18\] == 2\)`, true)
				b19 := G(`\(2 == .*\[19\]\)|\(.*\[19\] == 2\)`, true)
				for _, b := range fn.Blocks {
					for _, in := range b.Instrs {
						phi, ok := in.(*ssa.Phi)
						if !ok {
							continue
						}
						consts := map[string][]*ssa.BasicBlock{}
						for i, e := range phi.Edges {
							if k, ok := e.(*ssa.Const); ok && k.Value != nil && typeStr(k.Type()) == "litefs.DBMode" {
								consts[k.Value.ExactString()] = append(consts[k.Value.ExactString()], b.Preds[i])
							}
						}
						if len(consts["0"]) == 0 || len(consts["1"]) == 0 {
							continue
						}
						for val, preds := range consts {
							for _, pb := range preds {
								last := pb.Instrs[len(pb.Instrs)-1]
								if !c.dominatedBy(fn, last, isPg1) {
									bad = "a mode constant is chosen at " + c.where(last) + " for a page other than page 1"
								}
								both := c.dominatedBy(fn, last, b18) && c.dominatedBy(fn, last, b19)
								if val == "1" && !both {
									bad = "WAL is chosen at " + c.where(last) + " without both version bytes being 2"
								}
								if val == "0" && both {
									bad = "rollback is chosen at " + c.where(last) + " although both version bytes are 2"
								}
								okN++
							}
						}
					}
				}
			}
			if bad != "" || okN < 2 {
				if bad == "" {
					bad = "no choice between the two mode constants found in ApplyLTXNoLock (the mode can only go one way)"
				}
				c.fail("mode/apply-follows-page1", "K2 Guarded (value identity on go/ssa)", d, "the mode must follow the primary in both directions", bad, okN)
			} else {
				c.ok("mode/apply-follows-page1", "K2 Guarded (value identity on go/ssa)", d, okN)
			}
		}
		c.OnlyIn("mode/writers", p.Writes("litefs.DB.mode"), []string{pat("litefs.NewDB"), pat("litefs.(*DB).initFromDatabaseHeader"), pat("litefs.(*DB).CommitJournal"), pat("litefs.(*DB).CommitWAL"), pat("litefs.(*DB).ApplyLTXNoLock"), pat("litefs.(*DB).Drop"), pat("litefs.(*DB).initDatabaseFile"), pat("litefs.(*DB).Open"), pat("litefs.(*DB).rollbackJournalSegment")}, 4, "DB.mode is written only by initialisation, the two commit paths, the apply, the drop and the journal rollback", "")
		{
			// F43: a rolled-back page 1 carries the journal mode of the state returned to
			rs := "litefs.(*DB).rollbackJournalSegment"
			frame := `litefs\.\(\*JournalReader\)\.ReadFrame\(p2\)`
			pg1 := G(`^\(1 == `+frame+`#0\)$`, true)
			b18 := G(`^\(2 == `+frame+`#1\[18\]\)$`, true)
			b19 := G(`^\(2 == `+frame+`#1\[19\]\)$`, true)
			modeW := p.Writes("litefs.DB.mode")
			storeOf := func(v string) IM {
				return func(in ssa.Instruction) bool { return modeW(in) && fieldStoreVal(p, in) == v }
			}
			next := func(in ssa.Instruction) bool {
				_, isRet := in.(*ssa.Return)
				return isRet || p.PlainCalls("litefs.(*JournalReader).ReadFrame")(in)
			}
			c.AfterEdge("mode/rollback-follows-page1/every-restored-page1", rs, pg1, modeW, next, 1,
				"whenever the journal rollback restores page 1 the recorded journal mode is stored again before the next record is read or the function returns", "F43: a rolled-back switch to or from WAL left the old mode recorded; the internal write lock then takes the lock set of the wrong mode, which does not exclude readers of the real one")
			c.GuardedPaths("mode/rollback-follows-page1/wal", rs, storeOf("1"), [][]*Guard{{pg1}, {b18}, {b19}}, 1,
				"WAL mode is recorded from a restored page only for page 1 with read and write version 2", "")
			c.Guarded("mode/rollback-follows-page1/rollback", rs, storeOf("0"), gs(pg1), 1, "rollback mode is recorded from a restored page only for page 1", "")
			c.ExpectAll("mode/rollback-follows-page1/same-bytes", c.CallArgs(rs, p.PlainCalls("litefs.(*DB).writeDatabasePage"), 3), pat("litefs.(*JournalReader).ReadFrame(p2)#1"), 1,
				"the bytes the mode is read from are the bytes written to the database", "")
		}
	}

	// ---- nolock family ----
	family := map[string]bool{
		"litefs.(*DB).ApplyLTXNoLock": true, "litefs.(*DB).WriteLTXFileAt": true, "litefs.(*DB).CheckpointNoLock": true, "litefs.(*DB).recover": true,
		"litefs.(*DB).rollbackJournal": true, "litefs.(*DB).rollbackJournalSegment": true, "litefs.(*DB).invalidateJournal": true, "litefs.(*DB).TruncateWAL": true, "litefs.(*DB).importToLTX": true,
	}
	exceptions := map[string]string{
		"litefs.(*DB).Open -> litefs.(*DB).recover":                         "the DB is not yet published in Store.dbs (openDatabase/CreateDB hold Store.mu): no connection can exist",
		"litefs.(*DB).CommitJournal -> litefs.(*DB).invalidateJournal":      "application-originated: the committing SQLite connection holds RESERVED/PENDING/EXCLUSIVE",
		"fuse.(*WALNode).Setattr -> litefs.(*DB).TruncateWAL":               "application-originated: SQLite truncates the WAL under its own locks",
		"litefs.(*DB).WriteLTXFileAt -> (writes only the ltx directory)":    "",
	}
	_ = exceptions["litefs.(*DB).WriteLTXFileAt -> (writes only the ltx directory)"]
	type site struct {
		caller, callee string
		in             ssa.Instruction
	}
	var sites []site
	for _, fn := range p.SrcFuncs() {
		if !c.inScope(fn, nil) {
			continue
		}
		for _, b := range fn.Blocks {
			for _, in := range b.Instrs {
				cf := p.calleeFunc(in)
				if cf == nil || !family[p.FuncName(cf)] {
					continue
				}
				sites = append(sites, site{p.FuncName(topFunc(fn)), p.FuncName(cf), in})
			}
		}
	}
	sort.Slice(sites, func(i, j int) bool {
		if sites[i].caller != sites[j].caller {
			return sites[i].caller < sites[j].caller
		}
		return sites[i].callee < sites[j].callee
	})
	for _, s := range sites {
		key := "nolock/" + strings.TrimPrefix(strings.TrimPrefix(s.caller, "litefs."), "http.") + "->" + s.callee[strings.LastIndex(s.callee, ".")+1:]
		desc := s.caller + " calls " + s.callee + " only while holding the write lock set"
		why := "the callee changes the database/WAL/journal without taking locks itself: a caller without the lock set runs concurrently with application connections (torn reads, lost frames)"
		if s.caller == "litefs.(*DB).unsetRemoteHaltLock" && s.callee == "litefs.(*DB).recover" {
			// precondition stated by the 'locked' parameter: callers passing true must hold the set
			okAll := true
			for _, fn2 := range p.SrcFuncs() {
				for _, in := range Instrs(fn2, p.Calls("litefs.(*DB).unsetRemoteHaltLock")) {
					if c.argR(in, 3) != "true" {
						continue
					}
					f2 := topFunc(in.Parent())
					sr := &Search{P: p, Fn: f2, Avoid: p.PlainCalls("litefs.(*DB).AcquireWriteLock"), Tgt: func(x ssa.Instruction) bool { return x == in }}
					if in.Parent() != f2 || sr.Run() != nil {
						okAll = false
					}
				}
			}
			if okAll {
				c.ok(key, "K9/K5 NoLock precondition", desc+" (guarded by the locked parameter; every caller passing true holds the set)", 1)
			} else {
				c.fail(key, "K9/K5 NoLock precondition", desc, why, "a caller passes locked=true without holding the write lock set", 1)
			}
			continue
		}
		if family[s.caller] {
			c.ok(key, "K9/K5 NoLock precondition", desc+" (caller is itself a NoLock-family member: the precondition moves to its callers)", 1)
			continue
		}
		if r, ok := exceptions[s.caller+" -> "+s.callee]; ok {
			c.ok(key, "K9/K5 NoLock precondition", desc+" - confirmed exception: "+r, 1)
			continue
		}
		fn := topFunc(s.in.Parent())
		if s.in.Parent() != fn {
			c.fail(key, "K9/K5 NoLock precondition", desc, why, "call inside a closure: not analysable", 1)
			continue
		}
		acq := p.PlainCalls("litefs.(*DB).AcquireWriteLock")
		tgt := func(in ssa.Instruction) bool { return in == s.in }
		if len(Instrs(fn, acq)) == 0 && len(Instrs(fn, p.PlainCalls("litefs.(*DB).PinHaltLock"))) > 0 {
			// the primary-side halt lock pins the write lock set on behalf of the remote holder
			hold := G(pat("(litefs.(*DB).PinHaltLock(@@) == nil)")+"|"+pat("(nil == litefs.(*DB).PinHaltLock(@@))"), false)
			sr := &Search{P: p, Fn: fn, Block: p.EdgesAsserting(hold), Tgt: tgt}
			if f := sr.Run(); f != nil {
				c.fail(key, "K9/K5 NoLock precondition", desc, why, fmt.Sprintf("call at %s reachable without the pinned halt-lock holder check; path %s", c.where(s.in), p.TraceString(f.Trace)), 1)
			} else {
				c.ok(key, "K9/K5 NoLock precondition", desc+" (dominated by a non-nil DB.PinHaltLock: the granted halt lock holds the write lock set on behalf of the caller and cannot be released or expire before the handler returns, see C13 holder/pinned-until-return)", 1)
			}
			continue
		}
		if len(Instrs(fn, acq)) == 0 {
			c.fail(key, "K9/K5 NoLock precondition", desc, why, fmt.Sprintf("%s at %s: the caller neither acquires the write lock, nor is a member of the NoLock family, nor a confirmed exception", s.callee, c.where(s.in)), 1)
			continue
		}
		sr := &Search{P: p, Fn: fn, Avoid: acq, Tgt: tgt}
		if f := sr.Run(); f != nil {
			c.fail(key, "K9/K5 NoLock precondition", desc, why, fmt.Sprintf("call at %s reachable without AcquireWriteLock; path %s", c.where(s.in), p.TraceString(f.Trace)), 1)
			continue
		}
		// the acquire must have succeeded: error edge leads away
		okE := true
		for _, a := range Instrs(fn, acq) {
			call := a.(*ssa.Call)
			e, _ := errValue(call)
			if e == nil {
				okE = false
				break
			}
			x := &errCtx{e: e, al: errAliases(e)}
			s2 := &Search{P: p, Fn: fn, From: []ssa.Instruction{a}, Block: func(ed Edge) bool { return p.errEdgeKind(ed, x) == 1 }, Tgt: tgt}
			if s2.Run() != nil {
				okE = false
			}
		}
		if !okE {
			c.fail(key, "K9/K5 NoLock precondition", desc, why, fmt.Sprintf("call at %s reachable on the error branch of AcquireWriteLock", c.where(s.in)), 1)
			continue
		}
		// release: deferred Unlock of the acquired set, or pinned into haltLockAndGuard
		released := false
		for _, in := range InstrsDeep(fn, func(in ssa.Instruction) bool {
			return p.Calls("litefs.(*GuardSet).Unlock")(in)
		}) {
			if strings.Contains(c.argR(in, 0), "litefs.(*DB).AcquireWriteLock(") {
				released = true
			}
		}
		if !released {
			c.fail(key, "K9/K5 NoLock precondition", desc, why, fmt.Sprintf("the guard set acquired in %s is never unlocked", s.caller), 1)
			continue
		}
		c.ok(key, "K9/K5 NoLock precondition", desc, 1)
	}
	if len(sites) < 14 {
		c.fail("nolock/floor", "K5", "at least 14 call sites of the NoLock family", "", fmt.Sprintf("%d found", len(sites)), len(sites))
	}

	// ---- pairing ----
	for _, fn := range p.SrcFuncs() {
		if !c.inScope(fn, nil) || fn.Parent() != nil {
			continue
		}
		name := p.FuncName(fn)
		acqs := Instrs(fn, p.PlainCalls("litefs.(*DB).AcquireWriteLock"))
		if len(acqs) == 0 {
			continue
		}
		key := "pairing/" + strings.TrimPrefix(strings.TrimPrefix(name, "litefs."), "http.")
		unlockDeferred := func(in ssa.Instruction) bool {
			d, ok := in.(*ssa.Defer)
			if !ok {
				return false
			}
			if p.CalleeName(d.Common()) == "litefs.(*GuardSet).Unlock" {
				return true
			}
			cf := p.calleeFunc(d)
			return cf != nil && len(Instrs(cf, p.Calls("litefs.(*GuardSet).Unlock"))) > 0
		}
		// paths on which the acquisition succeeded start at the nil edge of its error
		call := acqs[0].(*ssa.Call)
		e, _ := errValue(call)
		desc := "after a successful AcquireWriteLock every exit has registered the (deferred) release of the set"
		why := "a leaked write lock set blocks every application connection on that database"
		if e == nil {
			c.fail(key, "K3 AfterOnSuccess", desc, why, "the error of AcquireWriteLock is discarded", 1)
			continue
		}
		x := &errCtx{e: e, al: errAliases(e)}
		bad := ""
		nEdges := 0
		for _, b := range fn.Blocks {
			for i, sb := range b.Succs {
				if p.errEdgeKind(Edge{b, i}, x) != 1 {
					continue
				}
				nEdges++
				sr := &Search{P: p, Fn: fn, Avoid: unlockDeferred, Tgt: IsReturn}
				if f := sr.runFromBlock(sb); f != nil {
					bad = fmt.Sprintf("exit %s reachable after the successful acquisition at %s without a deferred release; path %s", c.where(f.Instr), c.where(call), p.TraceString(f.Trace))
				}
			}
		}
		if bad != "" {
			c.fail(key, "K3 AfterOnSuccess", desc, why, bad, nEdges)
		} else if nEdges == 0 {
			c.fail(key, "K3 AfterOnSuccess", desc, why, "the error of AcquireWriteLock is never tested against nil in "+name, 0)
		} else {
			c.ok(key, "K3 AfterOnSuccess", desc, nEdges)
		}
	}
	hl := "litefs.(*DB).AcquireHaltLock"
	rel := c.anonWith(hl, p.Calls("litefs.(*GuardSet).Unlock"))
	if rel != "" {
		c.OnlyGuards("pairing/AcquireHaltLock/released-on-error-only", rel, p.Calls("litefs.(*GuardSet).Unlock"), gs(G(`\(nil == .*\)|\(.* == nil\)`, false)), 1, "AcquireHaltLock's deferred handler releases the set exactly when it returns an error (on success the set is pinned in haltLockAndGuard)", "C13: releasing on success would let the primary write while the replica believes it holds the halt")
	}

	// ---- no-reacquire (self-deadlock) ----
	reach := map[*ssa.Function]int{}
	var reachesAcquire func(fn *ssa.Function, d int) bool
	reachesAcquire = func(fn *ssa.Function, d int) bool {
		if fn == nil || len(fn.Blocks) == 0 || d == 0 {
			return false
		}
		if v, ok := reach[fn]; ok {
			return v == 1
		}
		reach[fn] = 2
		res := false
		for _, b := range fn.Blocks {
			for _, in := range b.Instrs {
				cf := p.calleeFunc(in)
				if cf == nil {
					continue
				}
				n := p.FuncName(cf)
				if n == aw || n == ta || reachesAcquire(cf, d-1) {
					res = true
				}
			}
		}
		if res {
			reach[fn] = 1
		}
		return res
	}
	nre := 0
	var reacq []string
	for _, fn := range p.SrcFuncs() {
		if !c.inScope(fn, nil) || fn.Parent() != nil {
			continue
		}
		acqs := Instrs(fn, p.PlainCalls(aw))
		if len(acqs) == 0 {
			continue
		}
		nre++
		bad := func(in ssa.Instruction) bool {
			if _, ok := in.(*ssa.Call); !ok {
				return false
			}
			cf := p.calleeFunc(in)
			if cf == nil || in == acqs[0] {
				return false
			}
			n := p.FuncName(cf)
			if n == aw || n == ta {
				return true
			}
			if !reachesAcquire(cf, 6) {
				return false
			}
			// prune callee branches decided by constant boolean arguments of this call
			consts := map[int]bool{}
			for i, a := range callCommon(in).Args {
				if k, ok := a.(*ssa.Const); ok && k.Value != nil && (k.Value.ExactString() == "true" || k.Value.ExactString() == "false") {
					consts[i] = k.Value.ExactString() == "true"
				}
			}
			if len(consts) == 0 {
				return true
			}
			block := func(e Edge) bool {
				iff, ok := e.From.Instrs[len(e.From.Instrs)-1].(*ssa.If)
				if !ok {
					return false
				}
				cond, taken := iff.Cond, e.Succ == 0
				for {
					u, ok := cond.(*ssa.UnOp)
					if !ok {
						break
					}
					cond, taken = u.X, !taken
				}
				if par, ok := cond.(*ssa.Parameter); ok {
					if v, known := consts[paramIndex(par)]; known {
						return v != taken
					}
				}
				return false
			}
			inner := func(x ssa.Instruction) bool {
				if _, ok := x.(*ssa.Call); !ok {
					return false
				}
				cf2 := p.calleeFunc(x)
				if cf2 == nil {
					return false
				}
				n2 := p.FuncName(cf2)
				return n2 == aw || n2 == ta || reachesAcquire(cf2, 5)
			}
			return (&Search{P: p, Fn: cf, Block: block, Tgt: inner}).Run() != nil
		}
		s := &Search{P: p, Fn: fn, From: acqs, Tgt: bad}
		if f := s.Run(); f != nil {
			reacq = append(reacq, fmt.Sprintf("%s: after AcquireWriteLock at %s the call %s at %s reaches AcquireWriteLock again", p.FuncName(fn), p.Pos(acqs[0].Pos()), p.CalleeName(callCommon(f.Instr)), p.Pos(f.Instr.Pos())))
		}
	}
	desc := "no function calls (transitively) AcquireWriteLock again while it holds the write lock set"
	why := "the second acquisition uses a fresh guard set and can never succeed while the first is held: the goroutine spins until its context ends - on the replication goroutine (store context) that is forever, replication stalls and the halt lock is never cleared (C13)"
	if len(reacq) > 0 {
		sort.Strings(reacq)
		c.fail("no-reacquire", "K9/K14 lock re-entrancy", desc, why, strings.Join(reacq, "; "), nre)
	} else if nre < 7 {
		c.fail("no-reacquire", "K9/K14 lock re-entrancy", desc, why, fmt.Sprintf("only %d acquiring functions found", nre), nre)
	} else {
		c.ok("no-reacquire", "K9/K14 lock re-entrancy", desc, nre)
	}

	// ---- wiring ----
	ng := "litefs.(*DB).newGuardSet"
	for _, in := range Instrs(c.F(ng), IsReturn) {
		r := in.(*ssa.Return)
		if r.Block().Index != 0 && len(r.Block().Preds) == 0 {
			continue
		}
		f := p.FieldsAt(returnedValue(r, 0), in)
		var bad []string
		for _, g := range guardFields {
			want := "litefs.(*RWMutex).Guard(&p0." + g + "Lock)"
			if f[g] != want {
				bad = append(bad, g+" = "+f[g])
			}
		}
		if len(bad) > 0 {
			c.fail("wiring/newGuardSet", "K8 table", "each of the twelve guard fields is bound to the same-named DB mutex", "a guard wired to another mutex silently takes the wrong lock", strings.Join(bad, "; "), 12)
		} else {
			c.ok("wiring/newGuardSet", "K8 table", "each of the twelve guard fields is bound to the same-named DB mutex", 12)
		}
		c.Expect("wiring/newGuardSet/owner", f["owner"], "p1", "the owner is recorded", "")
	}
	consts := map[string]string{"pending": "1073741824", "reserved": "1073741825", "shared": "1073741826", "write": "120", "ckpt": "121", "recover": "122", "read0": "123", "read1": "124", "read2": "125", "read3": "126", "read4": "127", "dms": "128"}
	gg := "litefs.(*GuardSet).Guard"
	for _, g := range guardFields {
		ret := func(in ssa.Instruction) bool {
			r, ok := in.(*ssa.Return)
			return ok && len(r.Results) == 1 && p.Render(r.Results[0]) == "&p0."+g
		}
		c.GuardedPaths("wiring/Guard/"+g, gg, ret, [][]*Guard{{GP("("+consts[g]+" == p1)", true)}}, 1, "GuardSet.Guard returns the "+g+" guard exactly for lock type "+consts[g], "the FUSE lock handlers address guards by lock type: a crossed mapping locks the wrong byte")
	}
	for _, u := range []struct {
		fn     string
		fields []string
	}{{"litefs.(*GuardSet).UnlockDatabase", guardFields[:3]}, {"litefs.(*GuardSet).UnlockSHM", guardFields[3:]}} {
		var got []string
		for _, in := range Instrs(c.F(u.fn), p.PlainCalls("litefs.(*RWMutexGuard).Unlock")) {
			got = append(got, strings.TrimPrefix(c.argR(in, 0), "&p0."))
		}
		sort.Strings(got)
		want := append([]string{}, u.fields...)
		sort.Strings(want)
		c.Expect("wiring/"+u.fn[strings.LastIndex(u.fn, ".")+1:], strings.Join(got, ","), pat(strings.Join(want, ",")), u.fn+" releases exactly its guards", "a guard left out of the bulk release stays locked after the connection closes")
	}
	var gu []string
	for _, in := range Instrs(c.F("litefs.(*GuardSet).Unlock"), func(in ssa.Instruction) bool { return callCommon(in) != nil }) {
		gu = append(gu, p.CalleeName(callCommon(in)))
	}
	c.Expect("wiring/Unlock", strings.Join(gu, ","), pat("litefs.(*GuardSet).UnlockDatabase,litefs.(*GuardSet).UnlockSHM"), "GuardSet.Unlock releases the database and the SHM guards", "")

	// ---- ranges ----
	c.rangeParser("ranges/database", "litefs.ParseDatabaseLockRange", []string{"1073741824", "1073741825", "1073741826"})
	c.rangeParser("ranges/shm", "litefs.ParseSHMLockRange", []string{"120", "121", "122", "123", "124", "125", "126", "127", "128"})
	c.constTable("ranges/sqlite-constants", map[string]string{
		"PENDING_BYTE": "1073741824", "RESERVED_BYTE": "1073741825", "SHARED_FIRST": "1073741826",
		"WAL_WRITE_LOCK": "120", "WAL_CKPT_LOCK": "121", "WAL_RECOVER_LOCK": "122", "WAL_READ_LOCK0": "123", "WAL_READ_LOCK4": "127",
		"LockTypePending": "1073741824", "LockTypeReserved": "1073741825", "LockTypeShared": "1073741826",
		"LockTypeWrite": "120", "LockTypeCkpt": "121", "LockTypeRecover": "122", "LockTypeRead0": "123", "LockTypeRead1": "124", "LockTypeRead2": "125", "LockTypeRead3": "126", "LockTypeRead4": "127", "LockTypeDMS": "128", "LockTypeHalt": "72",
	})
	for _, h := range []struct{ fn, parser string }{
		{"fuse.(*DatabaseHandle).Lock", "litefs.ParseDatabaseLockRange"}, {"fuse.(*DatabaseHandle).Unlock", "litefs.ParseDatabaseLockRange"}, {"fuse.(*DatabaseHandle).QueryLock", "litefs.ParseDatabaseLockRange"},
		{"fuse.(*SHMHandle).Lock", "litefs.ParseSHMLockRange"}, {"fuse.(*SHMHandle).Unlock", "litefs.ParseSHMLockRange"}, {"fuse.(*SHMHandle).QueryLock", "litefs.ParseSHMLockRange"},
	} {
		c.ExpectAll("ranges/fuse/"+strings.TrimPrefix(h.fn, "fuse."), []string{joinS(c.CallArgs(h.fn, p.PlainCalls(h.parser), 0)) + "," + joinS(c.CallArgs(h.fn, p.PlainCalls(h.parser), 1))}, pat("p2.Lock.Start,p2.Lock.End"), 1, h.fn+" parses the request's byte range with "+h.parser, "")
	}
	lk := "fuse.lock"
	c.Guarded("ranges/fuse/write-is-trylocks", lk, p.PlainCalls("litefs.(*DB).TryLocks"), gs(GP("(1 == p1.Lock.Type)", true)), 1, "POSIX write locks map to TryLocks (exclusive)", "")
	c.Guarded("ranges/fuse/read-is-tryrlocks", lk, p.PlainCalls("litefs.(*DB).TryRLocks"), gs(GP("(0 == p1.Lock.Type)", true)), 1, "POSIX read locks map to TryRLocks (shared)", "")

	// ---- gates ----
	c.ckptGate("ckpt-gate")
	excl := G(`\(2 == litefs\.\(\*RWMutex(Guard)?\)\.State\(.*\)\)|\(litefs\.\(\*RWMutex(Guard)?\)\.State\(.*\) == 2\)`, true)
	for _, f := range []string{"writeWALHeader", "writeWALFrameHeader", "writeWALFrameData"} {
		c.Guarded("wal-write/"+f, "litefs.(*DB)."+f, p.PlainCalls("os.(*File).WriteAt"), gs(excl), 1, "WAL writes made without the WAL WRITE lock held exclusively are refused", "")
	}
}

// returnsMatchingIdx renders result idx of all non-failure returns whose value is not nil.
func (c *Ctx) returnsMatchingIdx(fname string, idx int) []string {
	var out []string
	seen := map[string]bool{}
	for _, in := range Instrs(c.F(fname), IsReturn) {
		r := in.(*ssa.Return)
		if idx >= len(r.Results) || (r.Block().Index != 0 && len(r.Block().Preds) == 0) {
			continue
		}
		s := c.P.Render(returnedValue(r, idx))
		if s != "nil" && !seen[s] {
			seen[s] = true
			out = append(out, s)
		}
	}
	return out
}

// rangeParser (K8): the parser appends each constant exactly under
// start <= c && c <= end.
func (c *Ctx) rangeParser(key, fname string, consts []string) {
	p := c.P
	fn := c.F(fname)
	if !c.need(key, "K8 table", "parser resolves", fn, fname) {
		return
	}
	apps := Instrs(fn, p.PlainCalls("builtin.append"))
	got := map[string]bool{}
	for _, in := range apps {
		v := c.argR(in, 1)
		v = strings.TrimSuffix(strings.TrimPrefix(v, "["), "]")
		got[v] = true
		in := in
		tgt := func(x ssa.Instruction) bool { return x == in }
		c.Guarded(key+"/"+v+"/lower", fname, tgt, gs(GP("("+v+" < p0)", false)), 1, "lock type "+v+" is reported only if start <= "+v, "")
		c.Guarded(key+"/"+v+"/upper", fname, tgt, gs(GP("(p1 < "+v+")", false)), 1, "lock type "+v+" is reported only if "+v+" <= end", "")
		c.OnlyGuards(key+"/"+v+"/nothing-else", fname, tgt, []*Guard{G(`\(\d+ < p0\)`, false), G(`\(p1 < \d+\)`, false), G(`\(\d+ < p0\)`, true), G(`\(p1 < \d+\)`, true)}, 1, "no other condition", "")
	}
	var missing []string
	for _, k := range consts {
		if !got[k] {
			missing = append(missing, k)
		}
	}
	if len(missing) > 0 || len(got) != len(consts) {
		c.fail(key+"/covers", "K8 table", fname+" reports exactly the lock types "+strings.Join(consts, ","), "a byte range that covers a lock the parser does not report leaves that lock untaken", fmt.Sprintf("missing %v, found %d", missing, len(got)), len(got))
	} else {
		c.ok(key+"/covers", "K8 table", fname+" reports exactly the lock types "+strings.Join(consts, ","), len(got))
	}
}

// constTable (K8): package-level constants of litefs have the given values.
func (c *Ctx) constTable(key string, want map[string]string) {
	pk := c.P.All[modPath]
	if pk == nil {
		c.undecided(key, "K8 table", "constants", "package not loaded")
		return
	}
	var bad []string
	var names []string
	for n := range want {
		names = append(names, n)
	}
	sort.Strings(names)
	for _, n := range names {
		obj := pk.Types.Scope().Lookup(n)
		if k, ok := obj.(*typesConst); ok {
			if k.Val().ExactString() != want[n] {
				bad = append(bad, n+"="+k.Val().ExactString()+" (want "+want[n]+")")
			}
		} else {
			bad = append(bad, n+" missing")
		}
	}
	desc := "the lock-type constants equal SQLite's lock byte offsets (PENDING_BYTE 0x40000000, +1, +2; WAL_WRITE_LOCK 120 .. READ4 127, DMS 128; HALT 72)"
	if len(bad) > 0 {
		c.fail(key, "K8 table", desc, "SQLite locks these exact bytes; any other value makes LiteFS ignore the application's locks", strings.Join(bad, "; "), len(want))
	} else {
		c.ok(key, "K8 table", desc, len(want))
	}
}

package main

import (
	"fmt"
	"strings"

	"golang.org/x/tools/go/ssa"
)

func init() {
	register(&Property{
		ID:    "C02",
		Level: "other",
		Run:   c02,
		Explanation: "Structural necessary conditions of rollback-journal capture: dirty-page tracking on every accepted database write (page alignment, one page, mode test, page-number arithmetic), ownership of the dirty set, commit-detection wiring from the three FUSE events to CommitJournal with the right mode constant, the rollback path producing no LTX, header provenance of the LTX (TXID+1, pre-checksum = previous post-checksum, commit = database header size), the page filter (<= commit, lock page skipped, sorted, bytes from the database file, in-memory checksum cross-check), truncated-page checksum reset before the post-apply checksum, publish/invalidate/advance order and the guards of TruncateDatabase. Each is decided on every path of the SSA control-flow graph or by origin rendering.",
		NotDecided: "that the LTX equals the page-level delta for every pager program (needs SQLite pager semantics and file contents); multi-segment journal shapes; that SQLite 'sees' the image.",
		Assumptions: []string{"go/ssa faithfully represents the source", "SQLite issues page-aligned single-page writes and finalises a journal by unlink, truncate-to-zero or header zeroing"},
	})
}

func c02(c *Ctx) {
	{
		wj := "litefs.(*DB).WriteJournalAt"
		c.Guarded("journal-write/page-size-only-when-unknown", wj, c.P.Writes("litefs.DB.pageSize"), gs(GP("(0 == p0.pageSize)", true)), 1,
			"a write at offset 0 of the journal teaches the page size only while none is known",
			"the PERSIST finalisation (28 zero bytes at offset 0) would otherwise be taken for a header: the page size becomes 0 just before the commit runs and the commit is dropped as 'nothing written' - SQLite is told it succeeded, no transaction file is written")
		c.journalPersistCommitError("journal-write")
	}
	c.pageLoopsComplete("complete", "CommitJournal", "rollbackJournalSegment")
	p := c.P
	call := func(n string) IM { return p.PlainCalls("litefs.(*DB)." + n) }

	c.journalInvalidation("invalidate")

	// ---- dirty tracking ----
	wd := "litefs.(*DB).WriteDatabaseAt"
	wpage := call("writeDatabasePage")
	pgno := "((p4 / p0.pageSize) + 1)"
	dirty := p.Writes("litefs.DB.dirtyPageSet[]")
	c.Guarded("dirty-track/aligned", wd, wpage, gs(GP("((p4 % p0.pageSize) == 0)", true)), 1, "a database write is accepted only when its offset is page-aligned", "per-page checksums and dirty tracking assume whole pages")
	c.Guarded("dirty-track/one-page", wd, wpage, gs(GP("(builtin.len(p3) == p0.pageSize)", true)), 1, "a database write is accepted only when it is exactly one page", "")
	c.Before("dirty-track/recorded", wd, wpage, dirty, 1,
		"the page number is recorded in the dirty set before the page is written - in every journal mode (the transaction that leaves WAL mode rewrites page 1 under a rollback journal while the recorded mode is still WAL)", "a written page missing from the dirty set is missing from the LTX: replicas fail the post-apply checksum")
	c.Expect("dirty-track/mode-independent", fmt.Sprint(p.CountGuardEdges(c.F(wd), G(`.*litefs\.\(\*DB\)\.Mode\(p0\).*`, true))+p.CountGuardEdges(c.F(wd), G(`.*litefs\.\(\*DB\)\.Mode\(p0\).*`, false))), "0", "... and no branch of WriteDatabaseAt depends on the recorded journal mode", "")
	fn := c.F(wd)
	for _, in := range Instrs(fn, dirty) {
		if mu, ok := in.(*ssa.MapUpdate); ok {
			c.Expect("dirty-track/pgno", p.Render(mu.Key), pat(pgno), "the dirty key is offset/pageSize + 1", "an off-by-one records the neighbouring page")
		}
	}
	c.ExpectAll("dirty-track/pgno-written", c.CallArgs(wd, wpage, 2), pat(pgno), 1, "the page written is the page recorded", "")
	c.OnlyIn("dirty-owners/element-writes", dirty, []string{pat(wd)}, 1, "dirtyPageSet elements are written only by WriteDatabaseAt", "")
	c.OnlyIn("dirty-owners/replaced", p.Writes("litefs.DB.dirtyPageSet"), []string{pat("litefs.NewDB"), pat("litefs.(*DB).invalidateJournal"), pat("litefs.(*DB).CommitWAL")}, 3, "dirtyPageSet is replaced only by NewDB, invalidateJournal and (checkpoint-written pages) at the end of a WAL commit", "clearing it anywhere else drops pages of an open transaction")
	c.Before("dirty-owners/wal-commit-clears-last", "litefs.(*DB).CommitWAL", p.Writes("litefs.DB.dirtyPageSet"), p.PlainCalls("litefs.OS.Rename"), 1, "CommitWAL resets the set only after its LTX file was published", "")

	// ---- commit detection ----
	cj := "litefs.(*DB).CommitJournal"
	c.ExpectAll("detect/delete", c.CallArgs("litefs.(*DB).RemoveJournal", call("CommitJournal"), 2), `"DELETE"`, 1, "RemoveJournal commits with JournalModeDelete", "")
	c.ExpectAll("detect/truncate", c.CallArgs("litefs.(*DB).TruncateJournal", call("CommitJournal"), 2), `"TRUNCATE"`, 1, "TruncateJournal commits with JournalModeTruncate", "")
	c.ExpectAll("detect/persist", c.CallArgs("litefs.(*DB).WriteJournalAt", call("CommitJournal"), 2), `"PERSIST"`, 1, "a zeroed journal header commits with JournalModePersist", "")
	c.OnlyIn("detect/commit-callers", p.Calls(cj), []string{pat("litefs.(*DB).RemoveJournal"), pat("litefs.(*DB).TruncateJournal"), pat("litefs.(*DB).WriteJournalAt")}, 3, "CommitJournal is called only from the three finalisation events", "")
	wj := "litefs.(*DB).WriteJournalAt"
	c.Guarded("detect/persist-guard-offset", wj, call("CommitJournal"), gs(GP("(0 == p4)", true)), 1, "PERSIST commit only for a write at offset 0", "")
	c.Guarded("detect/persist-guard-size", wj, call("CommitJournal"), gs(GP("(28 == builtin.len(p3))", true)), 1, "PERSIST commit only for a write of exactly the journal header size", "")
	c.Guarded("detect/persist-guard-zero", wj, call("CommitJournal"), gs(GP("litefs.isByteSliceZero(p3)", true)), 1, "PERSIST commit only when the written header is all zero", "a normal header write taken for a commit captures a transaction that has not happened")
	c.BeforeG("detect/persist-before-passthrough", wj, p.PlainCalls("os.(*File).WriteAt"), call("CommitJournal"), gs(GP("litefs.isByteSliceZero(p3)", false), GP("(28 == builtin.len(p3))", false), GP("(0 == p4)", false)), 1,
		"on the PERSIST path the commit is captured before the zeroed header reaches the file", "after the header is zeroed the journal is no longer valid and the commit would be treated as a rollback")
	c.Guarded("detect/fuse-remove", "fuse.(*RootNode).Remove", p.Calls("litefs.(*DB).RemoveJournal"), gs(GP("(2 == fuse.ParseFilename(p2.Name)#1)", true)), 1, "unlink of the -journal file reaches RemoveJournal", "DELETE-mode commits would not be captured")
	c.Guarded("detect/fuse-truncate", "fuse.(*JournalNode).Setattr", p.Calls("litefs.(*DB).TruncateJournal"), gs(GP("(0 == p2.Size)", true)), 1, "only a truncate to zero reaches TruncateJournal", "")
	c.Before("detect/fuse-truncate-wired", "fuse.(*JournalNode).Setattr", p.Calls("litefs.(*DB).TruncateJournal"), p.Calls("bfuse.(SetattrValid).Size"), 1, "Setattr consults the size flag before truncating", "")
	c.ExpectAll("detect/fuse-write", c.CallArgs("fuse.(*JournalHandle).Write", p.Calls(wj), 0), pat("p0.node.db"), 1, "journal writes reach WriteJournalAt of the node's database", "")

	// ---- rollback produces nothing ----
	create := p.PlainCalls("litefs.OS.Create")
	valid := "litefs.(*DB).isJournalHeaderValid(p0)#0"
	c.Guarded("rollback-noop/create-needs-valid-header", cj, create, gs(GP(valid, true)), 1, "an LTX file is created only when the journal header is valid", "an invalid (zeroed/absent) header means SQLite rolled back: producing an LTX would replicate an aborted transaction")
	c.Guarded("rollback-noop/create-needs-pagesize", cj, create, gs(GP("(0 == p0.pageSize)", false)), 1, "an LTX file is created only when the page size is known", "")
	c.NoPathFromEdge("rollback-noop/no-publish-on-rollback", cj, GP(valid, false), Any(create, p.PlainCalls("litefs.OS.Rename"), call("setPos"), p.Writes("litefs.DB.pageN")), 1,
		"on the rollback branch nothing is created, renamed or advanced", "a rolled-back transaction must leave image and position unchanged")
	c.After("rollback-noop/journal-invalidated", cj, call("isJournalHeaderValid"), Any(call("invalidateJournal"), p.FailureReturn), nil, 1, "every success exit of CommitJournal has invalidated the journal (rollback and commit alike)", "the dirty set must be reset and the journal removed as SQLite asked")
	c.Expect("rollback-noop/header-valid-def", strings.Join(c.returnsOf("litefs.(*DB).isJournalHeaderValid"), ";"), pat(`false;false;(new([8]byte)[:8] == "\xd9\xd5\x05\xf9 \xa1c\xd7")`), "isJournalHeaderValid compares the first 8 journal bytes with the journal magic", "")

	// ---- header, pages ----
	c.ltxHeaders(cj)
	commit := `out:encoding/binary.Read(litefs.OS.Open(p0.os, "COMMITJOURNAL:DB", litefs.(*DB).DatabasePath(p0))#0, encoding/binary.BigEndian, &new(uint32))`
	c.Before("header/commit-read-at-28", cj, p.PlainCalls("encoding/binary.Read"), p.CallWhere("os.(*File).Seek", `, 28, 0\)$`), 1, "the commit size is read at offset 28 (SQLITE_DATABASE_SIZE_OFFSET) of the database file", "")
	{
		// rollback of the first transaction: the database had no pages and its file is still empty
		sz := "os.FileInfo.Size(os.(*File).Stat(litefs.OS.Open(p0.os, \"COMMITJOURNAL:DB\", litefs.(*DB).DatabasePath(p0))#0)#0)"
		emptyFile := G(pat("(0 == "+sz+")")+"|"+pat("("+sz+" == 0)"), false)
		hadPages := G(pat("(0 == litefs.(*DB).PageN(p0))")+"|"+pat("(litefs.(*DB).PageN(p0) == 0)"), false)
		c.Guarded("rollback/empty-database-not-read", cj, p.PlainCalls("encoding/binary.Read"), gs(emptyFile, hadPages), 1, "the page count is read from the database header only when the file is not empty or the database had pages before", "a journal finalised over a still-empty database is the rollback of the first transaction: reading the header fails with EOF, SQLite sees an I/O error and the journal stays behind")
		hv := GP("litefs.(*DB).isJournalHeaderValid(p0)#0", false)
		nops := G(pat("(0 == p0.pageSize)")+"|"+pat("(p0.pageSize == 0)"), true)
		// the invalidations that are not the commit step itself (i.e. not reachable after the LTX file was created)
		afterCreate := map[ssa.Instruction]bool{}
		if fn := c.F(cj); fn != nil {
			for _, in := range Instrs(fn, p.PlainCalls("litefs.(*DB).invalidateJournal")) {
				in := in
				if f := (&Search{P: p, Fn: fn, From: Instrs(fn, p.PlainCalls("litefs.OS.Create")), Tgt: func(i ssa.Instruction) bool { return i == in }}).Run(); f != nil {
					afterCreate[in] = true
				}
			}
		}
		early := func(in ssa.Instruction) bool {
			return p.PlainCalls("litefs.(*DB).invalidateJournal")(in) && !afterCreate[in]
		}
		c.GuardedPaths("rollback/invalidate-only-when", cj, early, [][]*Guard{
			{hv, nops, G(emptyFile.Re, true)},
			{hv, nops, G(hadPages.Re, true)},
		}, 3, "the journal is invalidated without capturing a transaction only when its header is invalid, or no page size is known, or the database file is empty and the database had no pages", "a first transaction that did write pages must be captured, not thrown away")
		c.NoPathFromEdge("rollback/empty-database-captures-nothing", cj, G(pat("(0 == litefs.(*DB).PageN(p0))")+"|"+pat("(litefs.(*DB).PageN(p0) == 0)"), true), p.PlainCalls("litefs.OS.Create", "litefs.OS.Rename"), 1, "on that path no transaction file is created", "")
	}
	enc := p.PlainCalls("ltx.(*Encoder).EncodePage")
	pgnos := "{builtin.append(@@rangekey(p0.dirtyPageSet)@@)|make([]uint32, 0)}"
	c.Guarded("pages/lock-page-skipped", cj, enc, gs(GP("(ltx.LockPgno(p0.pageSize) == "+pgnos+"[@@])", false)), 1, "the lock page is never encoded", "no page on the lock page may appear in an LTX")
	{
		// two sources feed the page list: the pages SQLite wrote (dirty set) and the new pages it did not write
		newPg := "phi((litefs.(*DB).PageN(p0) + 1)|(↺ + 1))"
		isAppendOf := func(what string) IM {
			base := p.PlainCalls("builtin.append")
			return func(in ssa.Instruction) bool {
				if !base(in) {
					return false
				}
				v := callVals(in)
				return len(v) == 2 && strings.Contains(p.Render(v[1]), what)
			}
		}
		dirty, fresh := isAppendOf("rangekey(p0.dirtyPageSet)"), isAppendOf("litefs.(*DB).PageN(p0) + 1")
		c.Guarded("pages/within-commit", cj, dirty, gs(GP("("+commit+" < rangekey(p0.dirtyPageSet))", false)), 1, "a dirty page enters the page list only if pgno <= commit", "no page beyond the new size")
		c.Guarded("pages/unwritten/within-commit", cj, fresh, gs(GP("("+commit+" < "+newPg+")", false)), 1, "a new page SQLite did not write enters the page list only if pgno <= commit", "no page beyond the new size")
		c.Guarded("pages/unwritten/not-dirty", cj, fresh, gs(GP("p0.dirtyPageSet["+newPg+"]#1", false)), 1, "... and only if it is not in the dirty set (no page twice)", "the LTX encoder requires strictly ascending page numbers")
		c.Guarded("pages/unwritten/lock-page-skipped", cj, fresh, gs(GP("(ltx.LockPgno(p0.pageSize) == "+newPg+")", false)), 1, "... and is not the lock page", "")
		c.Expect("pages/sources", fmt.Sprint(len(Instrs(c.F(cj), p.PlainCalls("builtin.append")))), "2", "the page list is fed by exactly these two sites", "")
	}
	c.Before("pages/sorted", cj, enc, p.PlainCalls("sort.Slice"), 1, "the page list is sorted before encoding", "the LTX encoder requires ascending page numbers")
	c.Expect("pages/sort-less", strings.Join(c.returnsOf(c.closureArgName(cj, p.PlainCalls("sort.Slice"), 1)), ";"), pat("("+pgnos+"[p0] < "+pgnos+"[p1])"), "the sort order is ascending page number", "")
	c.ExpectAll("pages/bytes-from-db", c.CallArgs(cj, p.PlainCalls("internal.ReadFullAt"), 0), pat(`litefs.OS.Open(p0.os, "COMMITJOURNAL:DB", litefs.(*DB).DatabasePath(p0))#0`), 1, "page bytes are read from the database file", "")
	c.ExpectAll("pages/offset", c.CallArgs(cj, p.PlainCalls("internal.ReadFullAt"), 2), pat("(("+pgnos+"[@@] - 1) * p0.pageSize)"), 1, "page bytes are read at (pgno-1)*pageSize", "")
	for _, in := range Instrs(c.F(cj), enc) {
		v := callVals(in)
		c.Expect("pages/encoded-pgno", p.Render(v[1]), pat("ltx.PageHeader{Pgno: "+pgnos+"[@@]}"), "the encoded page header carries the page number read", "")
		c.Expect("pages/encoded-bytes", p.Render(v[2]), pat("make([]byte, p0.pageSize)"), "the encoded bytes are the buffer read from the database file", "")
	}
	c.Before("pages/read-before-encode", cj, enc, p.PlainCalls("internal.ReadFullAt"), 1, "each page is read before it is encoded", "")
	pcs := "litefs.(*DB).pageChecksum(p0, " + pgnos + "[@@], " + commit + ", nil)"
	unwr := "make(map[uint32]struct{})[" + pgnos + "[@@]]#1"
	setNew := func(in ssa.Instruction) bool {
		if !p.PlainCalls("litefs.(*DB).setDatabasePageChecksum")(in) {
			return false
		}
		v := callVals(in)
		return len(v) == 3 && strings.HasPrefix(p.Render(v[2]), "ltx.ChecksumPage(")
	}
	c.BeforeFrom("pages/crosscheck", cj, enc, p.PlainCalls("ltx.(*Encoder).Close"), Any(call("pageChecksum"), setNew), 1, "after a page was encoded either the in-memory checksum cross-check runs or (for a new page SQLite did not write) its checksum is entered into the cache, before the LTX is closed", "")
	c.GuardedFrom("pages/crosscheck-equal", cj, enc, p.PlainCalls("ltx.(*Encoder).Close"), gs(GP("("+pcs+"#0 == ltx.ChecksumPage("+pgnos+"[@@], make([]byte, p0.pageSize)))", true), GP(unwr, true)), 1,
		"the LTX is closed only if every encoded page's bytes match the in-memory page checksum, or the page is one SQLite did not write", "C04: a mismatch means the incremental checksum no longer describes the file")
	c.Guarded("pages/unwritten/cache-only-for-unwritten", cj, setNew, gs(GP(unwr, true)), 1, "a page checksum is entered without cross-check only for a page recorded as unwritten", "entering the checksum of the bytes found for a page SQLite did write would hide a divergence between cache and file")
	for _, in := range Instrs(c.F(cj), setNew) {
		c.Expect("pages/unwritten/cache-value", c.argR(in, 1)+" | "+c.argR(in, 2), pat(pgnos+"[@@] | ltx.ChecksumPage("+pgnos+"[@@], make([]byte, p0.pageSize))"), "the checksum entered is that of the bytes just read and encoded, under the same page number", "")
	}

	// ---- truncated-page checksums ----
	ck := c.ArgSource(cj, p.PlainCalls("ltx.(*Encoder).SetPostApplyChecksum"), 1) // the checksum call whose result is written into the LTX
	anon := c.anonWith(cj, call("setDatabasePageChecksum"))
	reset := p.PlainCalls(anon)
	c.truncFamily("trunc")
	c.Before("trunc-chksum/reset-before-checksum", cj, ck, reset, 1, "checksums of pages beyond the new size are cleared before the post-apply checksum is computed", "a shrink (vacuum) would keep the truncated pages in the checksum")
	c.Guarded("trunc-chksum/reset-loop", anon, call("setDatabasePageChecksum"), gs(GP("(phi(@@) < builtin.len(p0.chksums.pages))", true)), 1, "the reset loop covers indices commit..len(pages)-1", "")
	c.ExpectAll("trunc-chksum/reset-args", c.CallArgs(anon, call("setDatabasePageChecksum"), 1), pat("(phi((↺ + 1)|"+commit+") + 1)"), 1, "the loop starts at index commit (page commit+1)", "starting at commit-1 clears a live page; starting later leaves a truncated page in the sum")
	c.ExpectAll("trunc-chksum/reset-zero", c.CallArgs(anon, call("setDatabasePageChecksum"), 2), "0", 1, "truncated pages get checksum 0", "")
	c.ExpectAll("trunc-chksum/post-origin", c.CallArgs(cj, p.PlainCalls("ltx.(*Encoder).SetPostApplyChecksum"), 1), pat("litefs.(*DB).checksum(p0, "+commit+", nil)#0"), 1, "the post-apply checksum written is checksum(commit, nil)", "")
	c.Before("trunc-chksum/set-before-close", cj, p.PlainCalls("ltx.(*Encoder).Close"), p.PlainCalls("ltx.(*Encoder).SetPostApplyChecksum"), 1, "the post-apply checksum is set before the encoder is closed", "")

	// ---- order / state advance ----
	c.ltxPublication(cj)
	rename := p.PlainCalls("litefs.OS.Rename")
	inval := call("invalidateJournal")
	setpos := call("setPos")
	c.After("state-advance/invalidate", cj, rename, inval, nil, 1, "after publication every success exit invalidates the journal", "")
	c.ExpectAll("state-advance/invalidate-mode", c.CallArgs(cj, inval, 1), "p2", 3, "invalidateJournal receives the mode SQLite used", "")
	c.After("state-advance/pageN", cj, rename, p.Writes("litefs.DB.pageN"), nil, 1, "after publication every success exit stores the new size", "")
	c.ExpectAll("state-advance/pageN-origin", c.CallArgs(cj, p.Writes("litefs.DB.pageN"), 1), pat(commit), 1, "pageN is set to the commit size", "")
	c.After("state-advance/mode", cj, rename, p.Writes("litefs.DB.mode"), nil, 1, "after publication every success exit stores the journal mode derived from page 1", "")
	c.After("state-advance/setPos", cj, rename, setpos, nil, 1, "after publication every success exit advances the position", "")
	c.After("state-advance/markDirty", cj, setpos, p.PlainCalls("litefs.(*Store).MarkDirty"), nil, 1, "after the position advanced every success exit notifies subscribers", "C01: a commit that never reaches replicas")
	encR := `ltx.NewEncoder(litefs.OS.Create(p0.os, "COMMITJOURNAL:LTX", @@)#0)`
	c.ExpectAll("state-advance/pos-origin", c.CallArgs(cj, setpos, 1), pat("ltx.Pos{TXID: ltx.(*Encoder).Header("+encR+").MaxTXID, PostApplyChecksum: ltx.(*Encoder).Trailer("+encR+").PostApplyChecksum}"), 1,
		"the new position is (header MaxTXID, trailer PostApplyChecksum) of the file just written", "")
	c.Before("state-advance/pageN-after-invalidate", cj, p.Writes("litefs.DB.pageN"), inval, 1, "the size is stored after the journal is invalidated", "TruncateDatabase compares against PageN: storing early lets a truncate through before the commit is durable")

	// ---- TruncateDatabase ----
	td := "litefs.(*DB).TruncateDatabase"
	tr := call("truncateDatabase")
	c.Guarded("truncate/pagesize-known", td, tr, gs(GP("(0 == p0.pageSize)", false)), 1, "truncation requires a known page size", "")
	c.Guarded("truncate/aligned", td, tr, gs(GP("((p2 % p0.pageSize) == 0)", true)), 1, "truncation size is page aligned", "")
	c.Guarded("truncate/committed-size-only", td, tr, gs(GP("((p2 / p0.pageSize) == litefs.(*DB).PageN(p0))", true)), 1, "the database file is truncated only to the committed size", "C07: TruncateDatabase is not authority-gated; this comparison is what keeps it from changing the image")
	c.ExpectAll("truncate/size-arg", c.CallArgs(td, tr, 2), pat("(p2 / p0.pageSize)"), 1, "the size passed on is size/pageSize", "")
}

// truncFamily: truncateDatabase resizes, syncs and resets the checksum cache unconditionally (shared by C01, C02, C04, C17).
func (c *Ctx) truncFamily(prefix string) {
	p := c.P
	c.WideOffsets(prefix+"/offsets-64bit", []string{"litefs"})
		td := "litefs.(*DB).truncateDatabase"
		c.OnlyGuards(prefix+"/file-always-resized", td, p.PlainCalls("os.(*File).Truncate"), nil, 1, "truncateDatabase always resizes the file to the requested page count - unconditionally (the in-memory page count is not the file size)", "pages appended by an aborted transaction stay in the file when the resize is skipped because the logical size 'already matches': two nodes at the same position then have different database sizes")
		c.ExpectAll(prefix+"/size", c.CallArgs(td, p.PlainCalls("os.(*File).Truncate"), 1), pat("(p2 * p0.pageSize)"), 1, "the new size is pageN * pageSize", "")
		c.Before(prefix+"/synced", td, p.SuccessReturn, p.PlainCalls("os.(*File).Sync"), 1, "every successful truncateDatabase has synced the file", "")
		c.ErrHandled(prefix+"/errors", td, p.PlainCalls("os.(*File).Truncate", "os.(*File).Sync"), p.PlainCalls("litefs.(*DB).resetDatabasePageChecksumsAfter"), 2, "a failed resize or sync is returned and the checksum cache is left alone", "")
		c.OnlyGuards(prefix+"/cache-reset-unconditional", td, p.PlainCalls("litefs.(*DB).resetDatabasePageChecksumsAfter"), gs(G(`\(nil == os\.\(\*File\)\.(Truncate|Sync)\(.*\)\)|\(os\.\(\*File\)\.(Truncate|Sync)\(.*\) == nil\)`, true)), 1, "the cached checksums beyond the new size are reset whenever the resize succeeded - under no further condition", "in WAL mode the logical page count was lowered by the commit long before the checkpoint cuts the file: a reset that only runs 'when the database shrinks' never runs")
}

// walCacheFamily: every function that empties, removes or restarts the WAL
// file resets both in-memory WAL tables (frame offsets and page checksums)
// before it reports success. Readers (snapshot, export, ReadWALPageAt-style
// lookups) trust these tables to point into the current WAL.
func (c *Ctx) walCacheFamily(prefix string) {
	p := c.P
	for _, fn := range []string{"litefs.(*DB).TruncateWAL", "litefs.(*DB).RemoveWAL", "litefs.(*DB).Drop", "litefs.(*DB).writeWALHeader"} {
		short := fn[len("litefs.(*DB)."):]
		for _, f := range []string{"frameOffsets", "chksums"} {
			c.Before(prefix+"/wal-cache-reset/"+short+"/"+f, fn, p.SuccessReturn, p.Writes("litefs.DB.wal."+f), 1,
				short+": every successful exit has replaced DB.wal."+f+" by a fresh table", "a stale frame-offset or checksum table points export, snapshot and checksum code at offsets of a WAL that no longer holds those frames")
		}
	}
}

// journalPersistCommitError (C02, C13): the commit triggered by the PERSIST
// finalisation write is part of that write - its error is the write's result
// and nothing is written to the journal file after a failed commit.
func (c *Ctx) journalPersistCommitError(prefix string) {
	p := c.P
	wj := "litefs.(*DB).WriteJournalAt"
	cj := p.PlainCalls("litefs.(*DB).CommitJournal")
	c.NoPathFromEdge(prefix+"/persist-commit-error-stops-the-write", wj, G(`^\(litefs\.\(\*DB\)\.CommitJournal\(.*\) == nil\)$|^\(nil == litefs\.\(\*DB\)\.CommitJournal\(.*\)\)$`, false), p.PlainCalls("os.(*File).WriteAt"), 1,
		"after a failed PERSIST commit the journal write does not go on to the file write (whose result would replace the commit's error)",
		"a refused forwarded commit (409 from the primary) would be reported to SQLite as a successful commit: the replica keeps the new page, its position stays, the acknowledged write is never on the primary")
	c.ErrHandled(prefix+"/persist-commit-error-returned", wj, cj, nil, 1, "the commit's error is returned", "")
}

package main

import (
	"fmt"
	"go/constant"
	"sort"
	"strings"

	"golang.org/x/tools/go/ssa"
)

func init() {
	register(&Property{
		ID:    "C07",
		Level: "other",
		Run:   c07,
		Explanation: "Write-authority gates decided structurally: the DB/Store methods called from the fuse and http packages are discovered from the call sites; each one that (transitively, within package litefs) reaches a file-system mutation must be in the confirmed gated table - then every path from its entry to its first effect passes the true branch of Writeable()/IsPrimary() and the failing branch returns exactly ErrReadOnlyReplica - or in the confirmed exception table with its reason; a new mutating entry point in neither table fails the check. Plus: the Writeable() re-check after the last blocking call before the LTX rename in CommitWAL/Drop, the errno mapping of the fuse Write handlers (sibling agreement), the import endpoint bound to the primary context, file modes, and the closed set of callers of setPos / ApplyLTXNoLock.",
		NotDecided: "schedules of demotion relative to an in-flight transaction beyond 're-check after the last blocking call'; what the kernel does with the errno.",
		Assumptions: []string{"bazil.org/fuse dispatches kernel requests only to methods of the fuse package's node/handle types", "go/ssa faithfully represents the source"},
	})
}

// fsEffect matches direct file-system mutations issued by package litefs.
func (c *Ctx) fsEffect() IM {
	p := c.P
	direct := p.Calls("os.(*File).WriteAt", "os.(*File).Write", "os.(*File).Truncate", "os.(*File).WriteString",
		"litefs.OS.Create", "litefs.OS.Remove", "litefs.OS.RemoveAll", "litefs.OS.Rename", "litefs.OS.Truncate", "litefs.OS.WriteFile", "litefs.OS.Mkdir", "litefs.OS.MkdirAll",
		"io.Copy", "io.WriteString")
	openCreate := func(in ssa.Instruction) bool {
		if !p.Calls("litefs.OS.OpenFile")(in) {
			return false
		}
		v := callVals(in)
		if len(v) < 4 {
			return true
		}
		k, ok := v[3].(*ssa.Const)
		if !ok || k.Value == nil || k.Value.Kind() != constant.Int {
			return true
		}
		n, _ := constant.Int64Val(k.Value)
		return n&0x40 != 0 // os.O_CREATE
	}
	return Any(direct, openCreate)
}

// reachesEffect: fn (within package litefs, static calls, bounded depth,
// not descending into functions in stop) contains an effect.
func (c *Ctx) reachesEffect(fn *ssa.Function, eff IM, stop map[string]bool, depth int, memo map[*ssa.Function]bool) bool {
	if fn == nil || len(fn.Blocks) == 0 || depth == 0 {
		return false
	}
	if v, ok := memo[fn]; ok {
		return v
	}
	memo[fn] = false
	name := c.P.FuncName(fn)
	if !strings.HasPrefix(name, "litefs.") {
		return false
	}
	res := false
	for _, b := range fn.Blocks {
		for _, in := range b.Instrs {
			if eff(in) {
				res = true
			}
			if cf := c.P.calleeFunc(in); cf != nil && !stop[c.P.FuncName(cf)] {
				if c.reachesEffect(cf, eff, stop, depth-1, memo) {
					res = true
				}
			}
		}
	}
	for _, an := range fn.AnonFuncs {
		if c.reachesEffect(an, eff, stop, depth-1, memo) {
			res = true
		}
	}
	memo[fn] = res
	return res
}

func c07(c *Ctx) {
	c.primaryOnlyHandlers("primary-only")
	p := c.P
	eff := c.fsEffect()
	writeable := GP("litefs.(*DB).Writeable(p0)", true)
	isPrimary := GP("litefs.(*Store).IsPrimary(p0.store)", true)

	gated := map[string]*Guard{
		"litefs.(*DB).WriteDatabaseAt": writeable,
		"litefs.(*DB).CreateJournal":   writeable,
		"litefs.(*DB).WriteJournalAt":  writeable,
		"litefs.(*DB).WriteWALAt":      writeable,
		"litefs.(*DB).CommitJournal":   writeable,
		"litefs.(*DB).Import":          isPrimary,
	}
	publishGated := map[string]bool{"litefs.(*DB).CommitWAL": true, "litefs.(*DB).Drop": true}
	exceptions := map[string]string{
		"litefs.(*DB).TruncateDatabase":      "guarded by size == committed PageN (C02.truncate): cannot change the image",
		"litefs.(*DB).CreateWAL":             "WAL file creation: the WAL carries no frames on a non-writable node (WriteWALAt is gated)",
		"litefs.(*DB).RemoveWAL":             "SQLite removes the WAL on close; content is gated by WriteWALAt",
		"litefs.(*DB).TruncateWAL":           "only size 0 accepted; content is gated by WriteWALAt",
		"litefs.(*DB).CreateSHM":             "SHM is node-local, not replicated",
		"litefs.(*DB).RemoveSHM":             "SHM is node-local, not replicated",
		"litefs.(*DB).TruncateSHM":           "SHM is node-local, not replicated",
		"litefs.(*DB).WriteSHMAt":            "SHM is node-local, not replicated",
		"litefs.(*Store).CreateDB":           "creates an empty file and no position; content is gated by WriteDatabaseAt",
		"litefs.(*Store).CreateDBIfNotExists": "creates an empty file and no position (import: bound to primary ctx; halt: primary-side endpoint)",
		"litefs.(*DB).RemoveJournal":         "wrapper of the gated CommitJournal",
		"litefs.(*DB).TruncateJournal":       "wrapper of the gated CommitJournal",
		"litefs.(*DB).Unlock":                "reaches CommitWAL (publish-gated) only",
		"litefs.(*DB).UnlockSHM":             "reaches CommitWAL (publish-gated) only",
		"litefs.(*DB).ApplyLTXNoLock":        "primary-side /tx endpoint: applies a forwarded transaction of the halt-lock holder (C13)",
		"litefs.(*DB).WriteLTXFileAt":        "primary-side /tx endpoint (C13)",
		"litefs.(*DB).AcquireHaltLock":       "primary-side /halt endpoint: recovery (rollback/checkpoint) under the write lock (C13)",
		"litefs.(*DB).AcquireRemoteHaltLock": "acquires write authority itself (C13)",
		"litefs.(*DB).ReleaseRemoteHaltLock": "gives up write authority: recovery under the write lock (C13)",
		"litefs.(*Store).Open":               "start-up",
		"litefs.(*Store).Close":              "shutdown: releases remote halt locks (recovery under the write lock)",
		"litefs.(*Store).Recover":            "role change recovery under the write lock (C08/C11)",
	}

	// ---- boundary discovery ----
	stop := map[string]bool{}
	for g := range gated {
		stop[g] = true
	}
	for g := range publishGated {
		stop[g] = true
	}
	boundary := map[string][]string{}
	for _, fn := range p.SrcFuncs() {
		name := p.FuncName(topFunc(fn))
		if !(strings.HasPrefix(name, "fuse.") || strings.HasPrefix(name, "http.")) {
			continue
		}
		for _, b := range fn.Blocks {
			for _, in := range b.Instrs {
				cf := p.calleeFunc(in)
				if cf == nil {
					continue
				}
				cn := p.FuncName(cf)
				if strings.HasPrefix(cn, "litefs.(*DB).") || strings.HasPrefix(cn, "litefs.(*Store).") {
					boundary[cn] = append(boundary[cn], c.where(in))
				}
			}
		}
	}
	var bnames []string
	for n := range boundary {
		bnames = append(bnames, n)
	}
	sort.Strings(bnames)
	memo := map[*ssa.Function]bool{}
	var unknown []string
	mutators := 0
	for _, n := range bnames {
		fn := p.Fn(n)
		isMut := gated[n] != nil || publishGated[n] || c.reachesEffect(fn, eff, stop, 8, memo)
		// a boundary method that only reaches gated functions is covered by their gates
		if !isMut {
			continue
		}
		mutators++
		if gated[n] != nil || publishGated[n] {
			continue
		}
		if _, ok := exceptions[n]; ok {
			continue
		}
		unknown = append(unknown, n+" (called at "+boundary[n][0]+")")
	}
	desc := "every DB/Store method called from the fuse or http packages that reaches a file-system mutation is a confirmed gated mutator or a confirmed exception"
	why := "a new application-reachable mutator without a Writeable()/IsPrimary() gate lets a node without write authority change replicated state"
	if len(unknown) > 0 {
		c.fail("gate/boundary-table", "K5+K14 discovery vs table", desc, why, "unclassified mutating entry point(s): "+strings.Join(unknown, "; "), mutators)
	} else if len(bnames) < 40 || mutators < 15 {
		c.fail("gate/boundary-table", "K5+K14 discovery vs table", desc, why, fmt.Sprintf("only %d boundary methods / %d mutators discovered (floors 40 / 15): discovery broke", len(bnames), mutators), mutators)
	} else {
		c.ok("gate/boundary-table", "K5+K14 discovery vs table", desc, mutators)
	}

	// ---- the gates themselves ----
	var gnames []string
	for n := range gated {
		gnames = append(gnames, n)
	}
	sort.Strings(gnames)
	for _, n := range gnames {
		short := n[strings.LastIndex(n, ".")+1:]
		g := gated[n]
		firstEffect := p.Reaching(8, eff)
		c.Guarded("gate/"+short, n, firstEffect, gs(g), 1,
			"every path from entry of "+short+" to a file-system mutation passes the true branch of the write-authority test",
			"C07: on a node that is neither primary nor halt-lock holder the operation must be refused before it changes anything")
		neg := *g
		neg.Val = false
		c.EdgeReturns("gate/"+short+"/refusal", n, &neg, pat("litefs.ErrReadOnlyReplica"), 1,
			"the refusing branch returns exactly ErrReadOnlyReplica", "the fuse layer maps this sentinel to EACCES; any other error becomes EIO")
	}
	c.Expect("gate/Writeable-def", strings.Join(c.returnsOf("litefs.(*DB).Writeable"), ";"), pat("phi(litefs.(*Store).IsPrimary(p0.store)|true)"),
		"Writeable() is HasRemoteHaltLock() || store.IsPrimary()", "a constant or widened Writeable voids every gate")
	c.GuardedPaths("gate/Writeable-halt", "litefs.(*DB).Writeable", IsReturn, [][]*Guard{{GP("litefs.(*DB).HasRemoteHaltLock(p0)", true), GP("litefs.(*DB).HasRemoteHaltLock(p0)", false)}}, 1,
		"Writeable consults HasRemoteHaltLock on every path", "")
	c.Expect("gate/isPrimary-def", strings.Join(c.returnsOf("litefs.(*Store).isPrimary"), ";"), pat("(p0.lease != nil)"), "isPrimary() is lease != nil", "")
	c.OnlyGuards("gate/RemoteHaltLock-reports-what-is-stored", "litefs.(*DB).RemoteHaltLock", func(in ssa.Instruction) bool {
		r, ok := in.(*ssa.Return)
		return ok && len(r.Results) == 1 && c.P.Render(returnedValue(r, 0)) == "nil"
	}, gs(G(`^\(nil == sync/atomic\.\(\*Value\)\.Load\(&p0\.remoteHaltLock\)\.\(\*litefs\.HaltLock\)\)$|^\(sync/atomic\.\(\*Value\)\.Load\(&p0\.remoteHaltLock\)\.\(\*litefs\.HaltLock\) == nil\)$`, true)), 1,
		"RemoteHaltLock() answers nil exactly when no lock is stored - the same test HasRemoteHaltLock() and Writeable() make", "the commit paths decide 'forward to the primary' with RemoteHaltLock() and the gates decide 'writable' with HasRemoteHaltLock(): when the two disagree (an expired lock hidden by one of them) a replica publishes a transaction locally that the primary never saw")
	{
		alive := G(`^\(context\.Context\.Err\(p1\) == nil\)$|^\(nil == context\.Context\.Err\(p1\)\)$`, true)
		rsf := "litefs.(*Store).restoreDBFromBackup"
		c.GuardedFrom("restore/role-rechecked-under-the-lock", rsf, p.PlainCalls("litefs.(*DB).AcquireWriteLock"), p.PlainCalls("litefs.(*DB).recover", "litefs.(*DB).WriteLTXFileAt", "litefs.(*DB).ApplyLTXNoLock"), gs(alive), 3,
			"between taking the write lock and recovering, publishing or applying anything, the restore consults its (primary-scoped) context again", "F61: AcquireWriteLock tries the lock before it looks at the context and the file backup client never looks at it: a node demoted while a restore was in flight still published the service's snapshot and moved its position without being primary")
	}
	c.Expect("gate/HasRemoteHaltLock-def", strings.Join(c.returnsOf("litefs.(*DB).HasRemoteHaltLock"), ";"), pat("(sync/atomic.(*Value).Load(&p0.remoteHaltLock).(*litefs.HaltLock) != nil)"), "HasRemoteHaltLock() is remoteHaltLock != nil", "")

	c.remoteHaltFamily("remote-halt")
	{
		im := "litefs.(*DB).Import"
		c.GuardedFrom("publish-gate/Import/after-blocking-call", im, p.PlainCalls("litefs.(*DB).AcquireWriteLock"), p.PlainCalls("litefs.(*DB).importToLTX"), gs(GP("litefs.(*Store).IsPrimary(p0.store)", true)), 1,
			"the primary role is checked again after the wait for the write lock and before the import's transaction file is built and published",
			"F55: a node demoted while the import waited for the lock published and applied the import without write authority")
	}

	// fuse: database removal
	rm := "fuse.(*RootNode).Remove"
	c.Guarded("gate/fuse-Remove-Drop", rm, p.Calls("litefs.(*DB).Drop"), gs(GP("litefs.(*Store).IsPrimary(p0.fsys.store)", true)), 1,
		"RootNode.Remove drops a database only on the primary", "a replica would publish a tombstone transaction")

	// ---- publish gate ----
	for _, n := range []string{"litefs.(*DB).CommitWAL", "litefs.(*DB).Drop"} {
		short := n[strings.LastIndex(n, ".")+1:]
		rename := p.PlainCalls("litefs.OS.Rename")
		c.Guarded("publish-gate/"+short, n, rename, gs(writeable), 1,
			"the LTX rename in "+short+" is dominated by the true branch of Writeable()", "a transaction whose commit step begins after the node lost write authority must be refused, not published")
		c.GuardedFrom("publish-gate/"+short+"/after-blocking-call", n, p.PlainCalls("litefs.Client.Commit"), rename, gs(writeable), 1,
			"Writeable() is re-checked after the last blocking call (Client.Commit) and before the rename", "authority can be lost while the forwarded commit is in flight")
	}
	c.Guarded("publish-gate/importToLTX-via-Import", "litefs.(*DB).Import", p.PlainCalls("litefs.(*DB).importToLTX"), gs(isPrimary), 1,
		"importToLTX runs only behind Import's IsPrimary gate", "")
	c.OnlyIn("publish-gate/importToLTX-callers", p.Calls("litefs.(*DB).importToLTX"), []string{pat("litefs.(*DB).Import")}, 1, "importToLTX is called only from Import", "")

	// ---- errno mapping (sibling agreement) ----
	for _, h := range []struct{ fn, callee string }{
		{"fuse.(*DatabaseHandle).Write", "litefs.(*DB).WriteDatabaseAt"},
		{"fuse.(*JournalHandle).Write", "litefs.(*DB).WriteJournalAt"},
		{"fuse.(*WALHandle).Write", "litefs.(*DB).WriteWALAt"},
		{"fuse.(*RootNode).createJournal", "litefs.(*DB).CreateJournal"},
	} {
		short := strings.TrimPrefix(h.fn, "fuse.")
		fn := c.F(h.fn)
		if !c.need("errno/"+short, "K8 sibling", "handler resolves", fn, h.fn) {
			continue
		}
		bad := ""
		n := 0
		for _, in := range Instrs(fn, IsReturn) {
			r := in.(*ssa.Return)
			if len(r.Results) == 0 {
				continue
			}
			got := p.Render(returnedValue(r, len(r.Results)-1))
			if strings.Contains(got, h.callee) {
				n++
				if !strings.HasPrefix(got, "fuse.ToError(") {
					bad = fmt.Sprintf("%s returns %q (raw error: the kernel sees EIO, not EACCES)", c.where(r), got)
				}
			}
		}
		d := short + " returns the error of " + h.callee + " through ToError"
		w := "C07: page, journal and WAL writes on a node without write authority are refused with a read-only permission error (EACCES); siblings JournalHandle.Write / WALHandle.Write do so"
		if bad != "" {
			c.fail("errno/"+short, "K8 sibling agreement", d, w, bad, n)
		} else if n == 0 {
			c.fail("errno/"+short, "K8 sibling agreement", d, w, "no failure exit returning the callee's error found", 0)
		} else {
			c.ok("errno/"+short, "K8 sibling agreement", d, n)
		}
	}
	ro := GP("(litefs.ErrReadOnlyReplica == p0)", true)
	c.EdgeReturns("errno/ToError-EACCES", "fuse.ToError", ro, pat("&new(fuse.Error)"), 1, "ToError wraps ErrReadOnlyReplica", "")
	tf := c.F("fuse.ToError")
	if tf != nil {
		var got []string
		for _, in := range Instrs(tf, func(in ssa.Instruction) bool { fp, ok := p.fieldWriteTarget(in); return ok && fp == "fuse.Error.errno" }) {
			st := in.(*ssa.Store)
			// which branch: find guard facts by dominance: use block's single pred If
			got = append(got, p.Render(st.Val))
		}
		sort.Strings(got)
		c.Expect("errno/ToError-table", strings.Join(got, ","), pat("bfuse.ToErrno(13),bfuse.ToErrno(2)"), "ToError produces exactly EACCES(13) and ENOENT(2)", "")
		c.Guarded("errno/ToError-EACCES-branch", "fuse.ToError", func(in ssa.Instruction) bool {
			st, ok := in.(*ssa.Store)
			if !ok {
				return false
			}
			fp, ok2 := p.fieldWriteTarget(in)
			return ok2 && fp == "fuse.Error.errno" && p.Render(st.Val) == "bfuse.ToErrno(13)"
		}, gs(ro), 1, "errno EACCES is produced exactly under err == ErrReadOnlyReplica", "")
	}
	c.ExpectAll("errno/fuse-Remove-refusal", c.returnsMatching(rm, "ErrReadOnlyReplica"), pat("fuse.ToError(litefs.ErrReadOnlyReplica)"), 1, "RootNode.Remove refuses database removal on a replica with ToError(ErrReadOnlyReplica)", "")

	// ---- import bound to primary context ----
	hi := "http.(*Server).handlePostImport"
	imp := p.PlainCalls("litefs.(*DB).Import")
	pctx := "net/http.(*Request).Context(net/http.(*Request).WithContext(p2, litefs.(*Store).PrimaryCtx(p0.store, net/http.(*Request).Context(p2))))"
	// (import-ctx/ctx-origin - "db.Import receives the primary context" - was withdrawn after F55: the import re-checks the role itself once it
	// holds the lock, so the context only shortens the wait; two independent seeds that pass the plain request context are now behaviour-preserving.)
	_ = pctx
	pctxErr := G(`^\(context\.Context\.Err\(.*litefs\.\(\*Store\)\.PrimaryCtx\(p0\.store, net/http\.\(\*Request\)\.Context\(p2\)\).*\) == nil\)$|^\(nil == context\.Context\.Err\(.*litefs\.\(\*Store\)\.PrimaryCtx\(p0\.store, net/http\.\(\*Request\)\.Context\(p2\)\).*\)\)$`, true)
	c.Guarded("import-ctx/not-expired", hi, imp, gs(pctxErr), 1, "db.Import runs only if the primary context is not already done", "on a replica primaryCh is closed, so the wrapped context is done: the endpoint refuses with 503")
	c.Guarded("import-ctx/create-after-check", hi, p.PlainCalls("litefs.(*Store).CreateDBIfNotExists"), gs(pctxErr), 1, "the database is created only after the primary-context check", "an import refused on a replica must leave nothing behind")

	// ---- modes ----
	modeWrite := func(val string) IM {
		return func(in ssa.Instruction) bool {
			st, ok := in.(*ssa.Store)
			if !ok {
				return false
			}
			fp, ok2 := p.fieldWriteTarget(in)
			return ok2 && fp == "bfuse.Attr.Mode" && p.Render(st.Val) == val
		}
	}
	c.Guarded("modes/db-rw", "fuse.(*DatabaseNode).Attr", modeWrite("438"), gs(GP("litefs.(*Store).IsPrimary(litefs.(*DB).Store(p0.db))", true)), 1, "database mode 0666 only on the primary", "")
	c.Guarded("modes/db-ro", "fuse.(*DatabaseNode).Attr", modeWrite("292"), gs(GP("litefs.(*Store).IsPrimary(litefs.(*DB).Store(p0.db))", false)), 1, "database mode 0444 on a replica", "")
	c.Guarded("modes/root-rw", "fuse.(*RootNode).Attr", modeWrite("2147484159"), gs(GP("litefs.(*Store).IsPrimary(p0.fsys.store)", true)), 1, "root directory 0777 only on the primary", "")
	c.Guarded("modes/root-ro", "fuse.(*RootNode).Attr", modeWrite("2147484013"), gs(GP("litefs.(*Store).IsPrimary(p0.fsys.store)", false)), 1, "root directory 0555 on a replica", "")

	// ---- closed caller sets ----
	c.OnlyIn("replica-only-apply/setPos-callers", p.Calls("litefs.(*DB).setPos"),
		[]string{pat("litefs.(*DB).CommitWAL"), pat("litefs.(*DB).CommitJournal"), pat("litefs.(*DB).Drop"), pat("litefs.(*DB).ApplyLTXNoLock")}, 4,
		"the position is advanced only by the three gated commit functions and by ApplyLTXNoLock", "on a node where no gate passes, the position can then change only through ApplyLTXNoLock")
	c.OnlyIn("replica-only-apply/pos-writers", p.Writes("litefs.DB.pos"), []string{pat("litefs.NewDB"), pat("litefs.(*DB).setPos")}, 2, "DB.pos is stored only in NewDB and setPos", "")
	c.OnlyIn("replica-only-apply/ApplyLTXNoLock-callers", p.Calls("litefs.(*DB).ApplyLTXNoLock"),
		[]string{pat("litefs.(*Store).processLTXStreamFrame"), pat("litefs.(*DB).Open"), pat("litefs.(*Store).restoreDBFromBackup"), pat("http.(*Server).handlePostTx"), pat("litefs.(*DB).Import")}, 5,
		"ApplyLTXNoLock is called only from the stream apply, Open, backup restore, the /tx endpoint and Import", "a new caller is a new way for the position to change without a gate")
}

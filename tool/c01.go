package main

import (
	"fmt"
	"sort"
	"strings"

	"golang.org/x/tools/go/ssa"
)

func init() {
	register(&Property{
		ID:    "C01",
		Level: "other",
		Run:   c01,
		Explanation: "Structural invariants of the replication pipeline decided on every path: the position is stored only by setPos and set by ApplyLTXNoLock only after the pages are written, the LTX file checksum is verified (dec.Close), the file is truncated (or the database files removed) and the post-apply checksum comparison succeeded, with the position taken from the applied file's header/trailer; kernel-cache invalidation on every replica-side page write, position change, SHM rewrite, snapshot and tombstone; the Invalidator implementation wiring; notification of every subscriber after every position change; the primary stream loop's dirty-set handling (subscribe before reading positions, initial set covers client and primary databases, positions recorded only from what was sent); the replica frame dispatch covering every frame type; and the replica apply sequence under the write lock.",
		NotDecided: "that page bytes equal the primary's (LTX content, OS); convergence within bounded time (liveness over network schedules); LZ4; disconnect/restart interleavings.",
		Assumptions: []string{"go/ssa faithfully represents the source", "the kernel page cache is refreshed exactly by the Invalidator callbacks"},
	})
}

func c01(c *Ctx) {
	c.ExpectAll("apply-tail/shm-change-counter-moves", c.fieldStores("litefs.(*DB).updateSHM", "litefs.walIndexHdr.change"), pat("(@@.change + 1)"), 1,
		"every rewrite of the wal-index header increments its change counter (previous value + 1)",
		"on a node without WAL frames the counter is the only header field that moves when the database file is rewritten at the same size: SQLite keeps its page cache while the header is unchanged - a snapshot ending at the TXID the replica already had would leave open connections reading the discarded pages")
	c.pageLoopsComplete("complete", "ApplyLTXNoLock", "WriteSnapshotTo")
	c.clientStatusFamily("stream/client", "Stream")
	{
		// the database filter travels as one comma-joined query value; client and server must agree
		cs, hs := "http.(*Client).Stream", "http.(*Server).handlePostStream"
		isFilter := func(m IM, idx int) IM {
			return func(in ssa.Instruction) bool { return m(in) && c.argR(in, idx) == "\"filter\"" }
		}
		set := isFilter(c.P.PlainCalls("net/url.(Values).Set"), 1)
		c.ExpectAll("stream/filter/client-joins", c.CallArgs(cs, set, 2), pat("strings.Join(p5, \",\")"), 1, "the client sends the whole filter as one value joined by commas", "the server reads a single value: names sent any other way are dropped silently and those databases never replicate")
		c.ExpectAll("stream/filter/client-single-value", []string{fmt.Sprint(len(Instrs(c.F(cs), isFilter(c.P.PlainCalls("net/url.(Values).Add"), 1))))}, "0", 1, "the client never adds further values under the key", "")
		get := isFilter(c.P.PlainCalls("net/url.(Values).Get"), 1)
		c.ExpectAll("stream/filter/server-reads-key", []string{fmt.Sprint(len(Instrs(c.F(hs), get)) > 0)}, "true", 1, "the server reads the key 'filter'", "")
		c.ExpectAll("stream/filter/server-splits", c.CallArgs(hs, c.P.PlainCalls("strings.Split"), 0), pat("net/url.(Values).Get(@@, \"filter\")"), 1, "the server splits that value", "")
		c.ExpectAll("stream/filter/server-separator", c.CallArgs(hs, c.P.PlainCalls("strings.Split"), 1), pat("\",\""), 1, "... at commas", "")
	}
	{
		ss := "http.(*Server).streamLTXSnapshot"
		c.Guarded("snapshot-timeout/only-when-positive", ss, c.P.PlainCalls("context.WithTimeoutCause", "context.WithTimeout", "context.WithDeadline"), gs(G(`\(0 < phi\(p0\.SnapshotTimeout\|p0\.store\.Retention\)\)`, true)), 1,
			"a snapshot is given a deadline only when the configured timeout (or, by default, the retention period) is positive", "with retention disabled (0) the deadline has already passed: every snapshot is aborted and a replica that needs one never catches up")
	}
	p := c.P
	call := func(n string) IM { return p.PlainCalls("litefs.(*DB)." + n) }
	ap := "litefs.(*DB).ApplyLTXNoLock"
	dec := `ltx.NewDecoder(litefs.OS.Open(p0.os, "APPLYLTX:LTX", p1)#0)`
	setpos := call("setPos")

	// ---- pos-writers (shared with C07) ----
	c.OnlyIn("pos-writers/field", p.Writes("litefs.DB.pos"), []string{pat("litefs.NewDB"), pat("litefs.(*DB).setPos")}, 2, "DB.pos is stored only in NewDB and setPos", "the reported position must change only together with the image")
	c.OnlyIn("pos-writers/setPos-callers", p.Calls("litefs.(*DB).setPos"), []string{pat("litefs.(*DB).CommitWAL"), pat("litefs.(*DB).CommitJournal"), pat("litefs.(*DB).Drop"), pat(ap)}, 4, "setPos is called only from the three commit functions and ApplyLTXNoLock", "")

	// ---- apply-order ----
	c.Before("apply-order/file-verified", ap, setpos, p.PlainCalls("ltx.(*Decoder).Close"), 1, "the position is set only after dec.Close() (which verifies the LTX file checksum)", "a corrupt transaction file would be reported as applied")
	c.ErrHandled("apply-order/verify-errors", ap, p.PlainCalls("ltx.(*Decoder).Close", "ltx.(*Decoder).DecodeHeader", "ltx.(*Decoder).DecodePage", "litefs.(*DB).writeDatabasePage", "litefs.(*DB).truncateDatabase", "litefs.(*DB).checksum", "litefs.(*DB).setPos", "litefs.(*DB).updateSHM"), setpos, 8,
		"every error of decode/verify/write/truncate/checksum leads to a failure exit without setting the position", "")
	c.NoPath("apply-order/no-page-write-after-pos", ap, setpos, Any(call("writeDatabasePage"), call("truncateDatabase")), 1, "no page is written or truncated after the position was set", "a replica would report position t while its pages are still those of t-1")
	commitGT0 := GP("(0 < ltx.(*Decoder).Header("+dec+").Commit)", true)
	c.BeforeG("apply-order/size-before-pos", ap, setpos, call("truncateDatabase"), gs(GP("(0 < ltx.(*Decoder).Header("+dec+").Commit)", false)), 1, "unless the transaction is a tombstone, the database file is resized to the header's commit size before the position is set", "the database size must be the primary's at that position")
	c.ExpectAll("apply-order/size-arg", c.CallArgs(ap, call("truncateDatabase"), 2), pat("ltx.(*Decoder).Header("+dec+").Commit"), 1, "the size is the LTX header's commit", "")
	_ = commitGT0
	chk := "litefs.(*DB).checksum(p0, ltx.(*Decoder).Header(" + dec + ").Commit, nil)#0"
	c.Guarded("apply-order/post-checksum-verified", ap, setpos, gs(GP("("+chk+" == ltx.(*Decoder).Trailer("+dec+").PostApplyChecksum)", true)), 1,
		"the position is set only when the recomputed database checksum equals the LTX trailer's post-apply checksum", "C04/C01: a replica must never report (t, c) for an image whose checksum is not c")
	c.Before("apply-order/pageN-before-checksum", ap, p.CallWhere("litefs.(*DB).checksum", "Commit, nil"), p.Writes("litefs.DB.pageN"), 1, "the page count is stored before the checksum is recomputed", "")
	c.ExpectAll("apply-order/pageN-origin", c.CallArgs(ap, p.Writes("litefs.DB.pageN"), 1), pat("ltx.(*Decoder).Header("+dec+").Commit"), 1, "pageN is the LTX header's commit", "")
	c.ExpectAll("apply-pos-origin", c.CallArgs(ap, setpos, 1), pat("ltx.Pos{TXID: ltx.(*Decoder).Header("+dec+").MaxTXID, PostApplyChecksum: ltx.(*Decoder).Trailer("+dec+").PostApplyChecksum}"), 1,
		"the position set is (MaxTXID of the header, PostApplyChecksum of the trailer) of the applied file", "")
	for _, in := range Instrs(c.F(ap), call("writeDatabasePage")) {
		v := callVals(in)
		c.Expect("apply-order/page-args", p.Render(v[2])+" | "+p.Render(v[3])+" | "+p.Render(v[4]),
			pat("out:ltx.(*Decoder).DecodePage("+dec+", &new(ltx.PageHeader), make([]byte, ltx.(*Decoder).Header("+dec+").PageSize)).Pgno | make([]byte, ltx.(*Decoder).Header("+dec+").PageSize) | true"),
			"each decoded page is written at its own page number with kernel-cache invalidation", "")
	}
	c.Before("apply-order/all-pages-before-close", ap, p.PlainCalls("ltx.(*Decoder).Close"), p.PlainCalls("ltx.(*Decoder).DecodePage"), 1, "the page loop runs (to EOF) before the decoder is closed", "")
	c.Guarded("apply-order/loop-exit-on-eof-only", ap, p.PlainCalls("ltx.(*Decoder).Close"), gs(GP("(io.EOF == ltx.(*Decoder).DecodePage(@@))", true)), 1, "the page loop is left for the verification only when DecodePage returned io.EOF", "a partial apply would be verified and positioned")

	// ---- apply-tail ----
	{
		// every success exit after the position was set rewrites the SHM header - except for a tombstone (commit 0), which has no SHM file
		hasPages := G(`\(0 < ltx\.\(\*Decoder\)\.Header\(.*\)\.Commit\)`, false)
		fn := c.F(ap)
		d := "after the position was set every success exit rewrites the SHM header, unless the transaction is a tombstone (commit 0)"
		why := "WAL-mode readers on the replica would keep the old database size"
		if c.need("apply-tail/shm", "K3 AfterOnSuccess (guarded)", d, fn, ap) {
			s2 := &Search{P: p, Fn: fn, From: Instrs(fn, setpos), Avoid: call("updateSHM"), Block: p.EdgesAsserting(hasPages), Tgt: p.SuccessReturn}
			if f := s2.Run(); f != nil {
				c.fail("apply-tail/shm", "K3 AfterOnSuccess (guarded)", d, why, "exit "+c.where(f.Instr)+" reachable after the position was set without updateSHM and without the commit-0 branch; path "+p.TraceString(f.Trace), 1)
			} else {
				c.ok("apply-tail/shm", "K3 AfterOnSuccess (guarded)", d, len(Instrs(fn, setpos)))
			}
		}
	}
	isSnap := GP("ltx.(*Header).IsSnapshot(&new(ltx.Header))", false)
	noInv := GP("(nil == p0.store.Invalidator)", true)
	c.BeforeG("apply-tail/snapshot-invalidates-db", ap, p.SuccessReturn, p.PlainCalls("litefs.Invalidator.InvalidateDB"), gs(isSnap, noInv), 1, "a snapshot apply invalidates the whole database in the kernel cache (when an invalidator is installed)", "pages beyond those rewritten stay stale")
	c.After("apply-tail/markDirty", ap, setpos, p.PlainCalls("litefs.(*Store).MarkDirty"), nil, 1, "after the position was set every success exit notifies subscribers", "a replica that is itself streamed from (or a promoted one) would not forward the change")
	sp := "litefs.(*DB).setPos"
	c.Before("apply-tail/store-before-invalidate", sp, p.PlainCalls("litefs.Invalidator.InvalidatePos"), p.Writes("litefs.DB.pos"), 1, "setPos stores the position before invalidating the -pos node", "invalidate-then-store lets the kernel re-cache the old position")
	c.BeforeG("apply-tail/pos-invalidated", sp, p.SuccessReturn, p.PlainCalls("litefs.Invalidator.InvalidatePos"), gs(noInv), 1, "every success exit of setPos has invalidated the -pos node (when an invalidator is installed)", "")

	// ---- invalidate ----
	var inv []string
	for _, fn := range p.SrcFuncs() {
		name := p.FuncName(topFunc(fn))
		if name == "litefs.(*DB).WriteDatabaseAt" {
			continue
		}
		for _, in := range Instrs(fn, p.Calls("litefs.(*DB).writeDatabasePage")) {
			inv = append(inv, p.Render(callVals(in)[4]))
		}
	}
	c.ExpectAll("invalidate/internal-writes", inv, "true", 3, "every writeDatabasePage call outside WriteDatabaseAt (apply, checkpoint, journal rollback) passes invalidate=true", "internal page writes bypass the kernel: its cache must be told")
	wp := "litefs.(*DB).writeDatabasePage"
	rangeInv := p.PlainCalls("litefs.Invalidator.InvalidateDBRange")
	c.BeforeG("invalidate/range-when-asked", wp, p.SuccessReturn, rangeInv, gs(GP("p4", false), noInv), 1, "writeDatabasePage invalidates the page range whenever invalidate is set and an invalidator is installed", "")
	for _, in := range Instrs(c.F(wp), rangeInv) {
		c.Expect("invalidate/range-args", c.argR(in, 1)+" | "+c.argR(in, 2)+" | "+c.argR(in, 3), pat("p0 | ((p2 - 1) * p0.pageSize) | builtin.len(p3)"), "the invalidated range is exactly the written page", "")
	}
	c.ExpectAll("invalidate/write-offset", c.CallArgs(wp, p.PlainCalls("os.(*File).WriteAt"), 2), pat("((p2 - 1) * p0.pageSize)"), 1, "the page is written at (pgno-1)*pageSize", "")
	us := "litefs.(*DB).updateSHM"
	c.BeforeG("invalidate/shm", us, p.SuccessReturn, p.PlainCalls("litefs.Invalidator.InvalidateSHM"), gs(noInv), 1, "updateSHM invalidates the SHM node", "")
	tomb := Instrs(c.F(ap), p.PlainCalls("litefs.Invalidator.InvalidateEntry"))
	var names []string
	for _, in := range tomb {
		names = append(names, c.argR(in, 1))
	}
	sort.Strings(names)
	c.Expect("invalidate/tombstone-entries", strings.Join(names, ";"), pat(`(litefs.(*DB).Name(p0) + "-journal");(litefs.(*DB).Name(p0) + "-shm");(litefs.(*DB).Name(p0) + "-wal");litefs.(*DB).Name(p0)`), "a tombstone apply invalidates the four directory entries", "C15")

	// ---- invalidator-impl ----
	for _, w := range []struct{ m, node, srv string }{
		{"InvalidateDB", "litefs.(*DB).Name(p1)", "bfs.(*Server).InvalidateNodeData"},
		{"InvalidateDBRange", "litefs.(*DB).Name(p1)", "bfs.(*Server).InvalidateNodeDataRange"},
		{"InvalidateSHM", `(litefs.(*DB).Name(p1) + "-shm")`, "bfs.(*Server).InvalidateNodeData"},
		{"InvalidatePos", `(litefs.(*DB).Name(p1) + "-pos")`, "bfs.(*Server).InvalidateNodeData"},
		{"InvalidateLag", `".lag"`, "bfs.(*Server).InvalidateNodeData"},
	} {
		fn := "fuse.(*FileSystem)." + w.m
		c.ExpectAll("invalidator-impl/"+w.m+"/node", c.CallArgs(fn, p.PlainCalls("fuse.(*RootNode).Node"), 1), pat(w.node), 1, w.m+" resolves the node named "+w.node, "invalidating another node leaves the stale one cached")
		c.BeforeG("invalidator-impl/"+w.m+"/server-call", fn, p.SuccessReturn, p.PlainCalls(w.srv), gs(GP("(fuse.(*RootNode).Node(@@) == nil)", true)), 1, w.m+" calls "+w.srv+" unless the node is not cached", "")
	}
	c.Before("invalidator-impl/InvalidateEntry", "fuse.(*FileSystem).InvalidateEntry", p.SuccessReturn, p.PlainCalls("bfs.(*Server).InvalidateEntry"), 1, "InvalidateEntry reaches the fuse server", "")
	c.ExpectAll("invalidator-impl/range-args", []string{strings.Join(c.CallArgs("fuse.(*FileSystem).InvalidateDBRange", p.PlainCalls("bfs.(*Server).InvalidateNodeDataRange"), 2), ";") + "," + strings.Join(c.CallArgs("fuse.(*FileSystem).InvalidateDBRange", p.PlainCalls("bfs.(*Server).InvalidateNodeDataRange"), 3), ";")}, "p2,p3", 1, "offset and size are passed through", "")
	c.OnlyInScope("invalidator-impl/installed", []string{"cmd"}, p.Writes("litefs.Store.Invalidator"), []string{`cmd\.\(\*MountCommand\)\..*`}, 1, "cmd/litefs installs the file system as the store's Invalidator", "without it no cache is ever invalidated")

	// ---- notify ----
	for _, f := range []string{"litefs.(*DB).CommitWAL", "litefs.(*DB).CommitJournal", "litefs.(*DB).Drop", ap} {
		short := f[strings.LastIndex(f, ".")+1:]
		c.After("notify/"+short, f, setpos, p.PlainCalls("litefs.(*Store).MarkDirty"), nil, 1, "after setPos every success exit of "+short+" calls store.MarkDirty(db.name)", "a commit that never reaches replicas")
		c.ExpectAll("notify/"+short+"/name", c.CallArgs(f, p.PlainCalls("litefs.(*Store).MarkDirty"), 1), "p0.name", 1, "the database marked dirty is this database", "")
	}
	md := "litefs.(*Store).markDirty"
	c.ExpectAll("notify/all-subscribers", c.CallArgs(md, p.PlainCalls("litefs.(*ChangeSetSubscriber).MarkDirty"), 0), pat("rangekey(p0.changeSetSubscribers)"), 1, "markDirty ranges over all change-set subscribers", "")
	c.OnlyGuards("notify/every-subscriber", md, p.PlainCalls("litefs.(*ChangeSetSubscriber).MarkDirty"), gs(GP("rangeok(p0.changeSetSubscribers)", true)), 1, "every subscriber is notified unconditionally", "a filtered notification leaves some replica (or the backup stream) behind forever")
	sm := "litefs.(*ChangeSetSubscriber).MarkDirty"
	c.OnlyGuards("notify/insert-unconditional", sm, p.Writes("litefs.ChangeSetSubscriber.dirtySet[]"), nil, 1, "the name is recorded unconditionally", "")
	c.Before("notify/insert-before-signal", sm, p.SuccessReturn, p.Writes("litefs.ChangeSetSubscriber.dirtySet[]"), 1, "the subscriber records the name on every path", "")
	ds := "litefs.(*ChangeSetSubscriber).DirtySet"
	c.Expect("notify/dirtyset-swap", strings.Join(c.returnsOf(ds), ";"), "p0.dirtySet", "DirtySet returns the accumulated set", "")
	c.Before("notify/dirtyset-fresh", ds, p.SuccessReturn, p.Writes("litefs.ChangeSetSubscriber.dirtySet"), 1, "DirtySet installs a fresh set", "")
	c.HeldMutex("notify/dirtyset-mutex", []string{"litefs.ChangeSetSubscriber.dirtySet", "litefs.ChangeSetSubscriber.dirtySet[]"}, "p0.mu", []string{"litefs.newChangeSetSubscriber"})

	// ---- stream-loop ----
	hs := "http.(*Server).handlePostStream"
	c.Before("stream-loop/subscribe-before-positions", hs, p.PlainCalls("http.ReadPosMapFrom"), p.PlainCalls("litefs.(*Store).SubscribeChangeSet"), 1, "the change-set subscription exists before the client's positions are read", "a commit between reading positions and subscribing would never be streamed")
	c.Before("stream-loop/subscribe-before-dbs", hs, p.PlainCalls("litefs.(*Store).DBs"), p.PlainCalls("litefs.(*Store).SubscribeChangeSet"), 1, "the subscription exists before the database list is taken", "")
	posmap := "http.ReadPosMapFrom(@@)#0"
	keys := mapKeys(p, c.F(hs), p.MapUpdateOn(pat("make(map[string]struct{})")))
	sort.Strings(keys)
	c.Expect("stream-loop/initial-dirty", strings.Join(keys, " ; "), pat("litefs.(*DB).Name(litefs.(*Store).DBs(p0.store)[@@]) ; rangekey("+posmap+") ; strings.Split(@@)[@@]"), "the initial dirty set contains every database of the client's position map and every database of the primary", "a database the client has but the primary dropped, or one the client lacks, would never be reconciled")
	sdb := p.PlainCalls("http.(*Server).streamDB")
	c.ExpectAll("stream-loop/posmap-passed", c.CallArgs(hs, sdb, 4), pat(posmap), 1, "streamDB works on the client's position map", "")
	dsub := "litefs.(*ChangeSetSubscriber).DirtySet(litefs.(*Store).SubscribeChangeSet(@@))"
	c.ExpectAll("stream-loop/dirty-source", c.CallArgs(hs, sdb, 3), pat("rangekey(phi(make(map[string]struct{})|phi("+dsub+"|nil)))"), 1, "after the first round the dirty set comes only from subscription.DirtySet() (or nil on a heartbeat tick)", "")
	sd := "http.(*Server).streamDB"
	var upd []string
	for _, in := range Instrs(c.F(sd), func(in ssa.Instruction) bool { mu, ok := in.(*ssa.MapUpdate); return ok && p.Render(mu.Map) == "p4" }) {
		mu := in.(*ssa.MapUpdate)
		upd = append(upd, p.Render(mu.Key)+" = "+p.Render(mu.Value))
	}
	c.ExpectAll("stream-loop/posmap-from-sent", upd, pat("p3 = http.(*Server).streamLTX(@@)#0"), 1, "posMap[name] is assigned only the position returned by streamLTX (what was written to the wire)", "recording the primary's current position instead would skip transactions committed meanwhile")
	sl := "http.(*Server).streamLTX"
	var rets []string
	for _, in := range Instrs(c.F(sl), p.SuccessReturn) {
		r := in.(*ssa.Return)
		rets = append(rets, p.Render(returnedValue(r, 0)))
	}
	sort.Strings(rets)
	d2 := "ltx.NewDecoder(litefs.(*DB).OpenLTXFile(p3, p4)#0)"
	c.Expect("stream-loop/sent-position", strings.Join(rets, " ; "), pat("http.(*Server).streamLTXSnapshot(p0, p1, p2, p3)#0 ; http.(*Server).streamLTXSnapshot(p0, p1, p2, p3)#0 ; http.(*Server).streamLTXSnapshot(p0, p1, p2, p3)#0 ; ltx.Pos{TXID: ltx.(*Decoder).Header("+d2+").MaxTXID, PostApplyChecksum: ltx.(*Decoder).Trailer("+d2+").PostApplyChecksum}"),
		"streamLTX returns the position of the file it sent (or of the snapshot)", "")
	ss := "http.(*Server).streamLTXSnapshot"
	var srets []string
	for _, in := range Instrs(c.F(ss), p.SuccessReturn) {
		srets = append(srets, p.Render(returnedValue(in.(*ssa.Return), 0)))
	}
	c.ExpectAll("stream-loop/snapshot-position", srets, pat("ltx.Pos{TXID: litefs.(*DB).WriteSnapshotTo(@@)#0.MaxTXID, PostApplyChecksum: litefs.(*DB).WriteSnapshotTo(@@)#1.PostApplyChecksum}"), 1, "a snapshot reports the position it captured", "")

	// ---- replica-dispatch ----
	mr := "litefs.(*Store).monitorLeaseAsReplica"
	var asserted []string
	for _, b := range c.F(mr).Blocks {
		for _, in := range b.Instrs {
			if ta, ok := in.(*ssa.TypeAssert); ok && ta.CommaOk {
				asserted = append(asserted, typeStr(ta.AssertedType))
			}
		}
	}
	sort.Strings(asserted)
	var frameTypes []string
	for _, fn := range p.SrcFuncs() {
		n := p.FuncName(fn)
		if strings.HasPrefix(n, "litefs.(*") && strings.HasSuffix(n, "StreamFrame).Type") {
			frameTypes = append(frameTypes, "*"+strings.TrimSuffix(strings.TrimPrefix(n, "litefs.(*"), ").Type"))
		}
	}
	for i := range frameTypes {
		frameTypes[i] = strings.Replace(frameTypes[i], "*", "*litefs.", 1)
	}
	sort.Strings(frameTypes)
	c.Expect("replica-dispatch/covers-all-frame-types", strings.Join(asserted, ","), pat(strings.Join(frameTypes, ",")), "the replica's type switch has a case for every StreamFrame implementation", "an unhandled frame type disconnects the replica forever")
	if len(frameTypes) < 7 {
		c.fail("replica-dispatch/frame-type-floor", "K8 table", "seven frame types", "", "fewer than seven StreamFrame implementations discovered", len(frameTypes))
	}
	c.Guarded("replica-dispatch/ltx-case", mr, p.PlainCalls("litefs.(*Store).processLTXStreamFrame"), gs(GP("litefs.ReadStreamFrame(@@)#0.(*litefs.LTXStreamFrame)#1", true)), 1, "LTX frames are processed by processLTXStreamFrame", "")
	c.ExpectAll("replica-dispatch/ltx-body", c.CallArgs(mr, p.PlainCalls("litefs.(*Store).processLTXStreamFrame"), 3), pat("chunk.NewReader(litefs.Client.Stream(@@)#0)"), 1, "the LTX body is read through the chunk reader of the same stream", "")
	c.ErrHandled("replica-dispatch/errors", mr, p.PlainCalls("litefs.(*Store).processLTXStreamFrame", "litefs.ReadStreamFrame"), nil, 2, "frame and apply errors end the stream", "")

	// ---- replica-apply ----
	pl := "litefs.(*Store).processLTXStreamFrame"
	applyCall := call("ApplyLTXNoLock")
	c.Before("replica-apply/lock-first", pl, p.PlainCalls("litefs.OS.Create"), call("AcquireWriteLock"), 1, "the write lock is acquired before the LTX file is created", "C11")
	c.Before("replica-apply/lock-before-apply", pl, applyCall, call("AcquireWriteLock"), 1, "the write lock is acquired before the apply", "")
	c.Before("replica-apply/unlock-deferred", pl, applyCall, func(in ssa.Instruction) bool { d, ok := in.(*ssa.Defer); return ok && p.CalleeName(d.Common()) == "litefs.(*GuardSet).Unlock" }, 1, "the lock set is released only by the deferred Unlock registered before the apply", "")
	c.Before("replica-apply/published-before-apply", pl, applyCall, p.PlainCalls("litefs.OS.Rename"), 1, "the file is renamed into place before it is applied", "C05: crash between apply and publish would leave an image without its file")
	lp := "litefs.(*DB).LTXPath(litefs.(*Store).CreateDBIfNotExists(p0, p2.Name)#0, ltx.DecodeHeader(p3)#0.MinTXID, ltx.DecodeHeader(p3)#0.MaxTXID)"
	c.ExpectAll("replica-apply/apply-args", []string{strings.Join(c.CallArgs(pl, applyCall, 1), ";") + " | " + strings.Join(c.CallArgs(pl, applyCall, 2), ";")}, pat(lp+" | true"), 1, "the file applied is the file published, fatally", "")
	c.After("replica-apply/applied", pl, p.PlainCalls("litefs.OS.Rename"), applyCall, nil, 1, "after publication every success exit has applied the file", "")
	c.truncFamily("trunc")

}

package main

import (
	"fmt"
	"go/types"
	"strings"

	"golang.org/x/tools/go/ssa"
)

func init() {
	register(&Property{
		ID:          "C18",
		Level:       "other",
		Run:         c18,
		Explanation: "Round-trip identity for all values is not computed; decided instead are the structural facts it rests on. (1) Writer/reader agreement: the ordered wire schema (fixed-width big-endian integers, length-prefix + payload pairs, and which field each item carries) extracted from the go/ssa form of each of the seven frame types' WriteTo equals the one extracted from its ReadFrom; the same for the position map and the chunk framing (u16 length, 0 = end, empty writes skipped, never a zero-length chunk). (2) Tag table: ReadStreamFrame constructs, for each of the seven constants, the type whose Type() returns that constant, rejects everything else, and WriteStreamFrame writes Type() with the width the reader reads. (3) Split independence: decoders read only through encoding/binary.Read, io.ReadFull and internal.ReadN (which loop until complete) - never a bare Read; ReadFullAt loops until the buffer is full or an error occurs. (4) Error discipline: every read error in a decoder is returned; an io.EOF in the middle of an item is converted to io.ErrUnexpectedEOF where io.EOF would mean a clean end (frames, chunk reader). (5) Allocation: no make is sized by a value decoded from the stream; the chunk reader's slice bound is a uint16 against a 65535-byte array (decided from the types). (6) Narrowing: a length converted to a narrower wire integer is bounded (chunk length <= 65535 on every path). The chunk end marker is written only by a plain Close on the success path of the body producer (never by a defer), and every success exit after the chunk writer was created has written it.",
		NotDecided:  "identity of decoded values for all inputs (follows from schema equality plus encoding/binary's own round-trip), memory use of a running process, names longer than 4 GiB on the writer side.",
		Assumptions: []string{"go/ssa faithfully represents the source", "encoding/binary.Read/Write and io.ReadFull/io.CopyN behave as documented"},
	})
}

func c18(c *Ctx) {
	p := c.P
	frames := []struct {
		t     string
		konst string
		min   int
	}{
		{"LTXStreamFrame", "1", 3}, {"ReadyStreamFrame", "2", 0}, {"EndStreamFrame", "3", 0}, {"DropDBStreamFrame", "4", 2},
		{"HandoffStreamFrame", "5", 2}, {"HWMStreamFrame", "6", 3}, {"HeartbeatStreamFrame", "7", 1},
	}
	var decoders []string
	for _, f := range frames {
		w, r := "litefs.(*"+f.t+").WriteTo", "litefs.(*"+f.t+").ReadFrom"
		c.WireAgree("schema/"+f.t, w, r, f.min, f.t)
		decoders = append(decoders, r)
	}
	c.WireAgree("schema/posmap", "http.WritePosMapTo", "http.ReadPosMapFrom", 5, "position map")
	decoders = append(decoders, "litefs.ReadStreamFrame", "http.ReadPosMapFrom", "chunk.(*Reader).Read")

	// ---- tags ----
	rs := "litefs.ReadStreamFrame"
	typ := "out:encoding/binary.Read(p0, encoding/binary.BigEndian, &new(litefs.StreamFrameType))"
	for _, f := range frames {
		c.Expect("tags/type/"+f.t, strings.Join(c.returnsOf("litefs.(*"+f.t+").Type"), ";"), f.konst, f.t+".Type() returns constant "+f.konst, "")
	}
	{
		fn := c.F(rs)
		key, rule := "tags/dispatch", "K8 table (path enumeration)"
		desc := "ReadStreamFrame constructs, for each tag 1..7, exactly the frame type whose Type() is that tag"
		if c.need(key, rule, desc, fn, rs) {
			inv := func(in ssa.Instruction) bool {
				call, ok := in.(*ssa.Call)
				return ok && call.Call.IsInvoke() && call.Call.Method.Name() == "ReadFrom"
			}
			got := map[string]string{}
			bad := ""
			p.EnumPathsR(fn, inv, 5000, func(facts []PathFact, trace []*ssa.BasicBlock, at ssa.Instruction, r PathRender) {
				recv := r(at.(*ssa.Call).Call.Value)
				tag := ""
				for _, f := range facts {
					if f.Val && strings.HasSuffix(f.Cond, " == "+typ+")") {
						tag = strings.TrimPrefix(strings.TrimSuffix(f.Cond, " == "+typ+")"), "(")
					}
				}
				if tag == "" {
					bad = "a path reaches ReadFrom without a tag comparison: " + p.TraceString(trace)
					return
				}
				if prev, ok := got[tag]; ok && prev != recv {
					bad = "tag " + tag + " constructs both " + prev + " and " + recv
				}
				got[tag] = recv
			})
			for _, f := range frames {
				want := "&new(litefs." + f.t + ")"
				if g := got[f.konst]; !strings.Contains(g, want) {
					bad = fmt.Sprintf("tag %s constructs %q, expected %s", f.konst, g, want)
				}
			}
			if len(got) != len(frames) && bad == "" {
				bad = fmt.Sprintf("%d tags dispatched, expected %d", len(got), len(frames))
			}
			if bad != "" {
				c.fail(key, rule, desc, "a tag that constructs another type reads the frame with the wrong schema: the stream is desynchronised", bad, len(got))
			} else {
				c.ok(key, rule, desc, len(got))
			}
		}
	}
	c.GuardedPaths("tags/unknown-rejected", rs, func(in ssa.Instruction) bool {
		r, ok := in.(*ssa.Return)
		return ok && strings.HasPrefix(p.Render(returnedValue(r, 1)), "fmt.Errorf(\"invalid stream frame type")
	}, [][]*Guard{{GP("(7 == "+typ+")", false)}, {GP("(1 == "+typ+")", false)}}, 1, "an unknown tag is an error", "")
	c.ErrHandled("tags/type-read-error", rs, p.PlainCalls("encoding/binary.Read"), func(in ssa.Instruction) bool {
		call, ok := in.(*ssa.Call)
		return ok && call.Call.IsInvoke() && call.Call.Method.Name() == "ReadFrom"
	}, 1, "a failed tag read ends ReadStreamFrame", "")
	c.EdgeReturns("tags/eof-in-frame", rs, G(`\(io\.EOF == litefs\.StreamFrame\.ReadFrom\(.*\)#1\)`, true), `io\.ErrUnexpectedEOF`, 1, "an io.EOF from inside a frame is reported as io.ErrUnexpectedEOF", "io.EOF from ReadStreamFrame means 'stream ended between frames'")
	ws := "litefs.WriteStreamFrame"
	{
		fn := c.F(ws)
		got := ""
		if fn != nil {
			for _, in := range Instrs(fn, p.PlainCalls("encoding/binary.Write")) {
				if mi, ok := callVals(in)[2].(*ssa.MakeInterface); ok {
					got = typeStr(mi.X.Type()) + "/" + basicKind(mi.X.Type()) + " <- " + p.Render(mi.X)
				}
			}
		}
		c.Expect("tags/written-as-read", got, pat("litefs.StreamFrameType/u32 <- litefs.StreamFrame.Type(p1)"), "WriteStreamFrame writes f.Type() as the 32-bit StreamFrameType the reader reads", "")
		c.Before("tags/tag-before-body", ws, func(in ssa.Instruction) bool {
			call, ok := in.(*ssa.Call)
			return ok && call.Call.IsInvoke() && call.Call.Method.Name() == "WriteTo"
		}, p.PlainCalls("encoding/binary.Write"), 1, "the tag precedes the body", "")
		c.ErrHandled("tags/tag-write-error", ws, p.PlainCalls("encoding/binary.Write"), func(in ssa.Instruction) bool {
			call, ok := in.(*ssa.Call)
			return ok && call.Call.IsInvoke() && call.Call.Method.Name() == "WriteTo"
		}, 1, "a failed tag write ends WriteStreamFrame", "")
	}
	{
		// the seven constants are exactly 1..7
		want := map[string]string{"StreamFrameTypeLTX": "1", "StreamFrameTypeReady": "2", "StreamFrameTypeEnd": "3", "StreamFrameTypeDropDB": "4", "StreamFrameTypeHandoff": "5", "StreamFrameTypeHWM": "6", "StreamFrameTypeHeartbeat": "7"}
		bad := ""
		pk := p.All[modPath]
		for n, v := range want {
			k, ok := pk.Types.Scope().Lookup(n).(*typesConst)
			if !ok || k.Val().ExactString() != v {
				bad = n + " is not " + v
			}
		}
		if bad != "" {
			c.fail("tags/constants", "K8 table", "the seven tag constants are 1..7", "wire compatibility between versions", bad, 7)
		} else {
			c.ok("tags/constants", "K8 table", "the seven tag constants are 1..7", 7)
		}
	}

	{
		var bad []string
		n := 0
		for _, name := range append(append([]string{}, decoders...), "internal.ReadN") {
			fn := c.F(name)
			if fn == nil {
				continue
			}
			n++
			for _, in := range InstrsDeep(fn, p.PlainCalls("bytes.(*Buffer).Grow", "slices.Grow", "strings.(*Builder).Grow")) {
				bad = append(bad, name+" pre-sizes a buffer at "+c.where(in))
			}
		}
		d := "no decoder reserves buffer space ahead of the bytes it has received (Grow): buffers grow with the data"
		if len(bad) > 0 {
			c.fail("alloc/no-presizing", "K12 TaintAlloc", d, "a 32-bit length prefix followed by a few bytes would allocate the announced size", strings.Join(bad, "; "), n)
		} else {
			c.ok("alloc/no-presizing", "K12 TaintAlloc", d, n)
		}
	}
	c.ExpectAll("posmap/server-reads-whole-map", c.CallArgs("http.(*Server).handlePostStream", p.PlainCalls("http.ReadPosMapFrom"), 0), pat("net/http.(*Request).WithContext(p2, @@).Body")+"|"+pat("p2.Body"), 1,
		"the primary reads the replica's position map from the request body itself - the writer puts no bound on the map, so the reader must not either", "a valid map the client can write (tens of thousands of databases) would be refused on every reconnect")
	c.ExpectAll("chunk/reader-no-read-ahead", c.fieldStores("chunk.NewReader", "chunk.Reader.r"), "p0", 1, "the chunk reader reads from the caller's reader itself - no buffering layer that could read past the end-of-body marker",
		"the replica creates a chunk reader per LTX frame and goes back to the raw stream afterwards: bytes read ahead (the HWM, Ready or next LTX frame) would be lost with the chunk reader")
	// ---- stateless codec ----
	{
		allowed := map[string]string{
			"encoding/binary.BigEndian": "byte order value (immutable)",
			"io.EOF":                    "sentinel error",
			"io.ErrUnexpectedEOF":       "sentinel error",
		}
		codec := append([]string{}, decoders...)
		for _, f := range frames {
			codec = append(codec, "litefs.(*"+f.t+").WriteTo")
		}
		codec = append(codec, "litefs.WriteStreamFrame", "http.WritePosMapTo", "chunk.(*Writer).Write", "chunk.(*Writer).Close", "internal.ReadN", "internal.ReadFullAt")
		var bad []string
		n := 0
		for _, name := range codec {
			fn := c.F(name)
			if fn == nil {
				bad = append(bad, name+" unresolved")
				continue
			}
			n++
			for _, in := range InstrsDeep(fn, func(ssa.Instruction) bool { return true }) {
				for _, op := range in.Operands(nil) {
					if g, ok := (*op).(*ssa.Global); ok {
						gn := g.Pkg.Pkg.Path() + "." + g.Name()
						if pt, isPtr := g.Type().(*types.Pointer); isPtr && pt.Elem().String() == "error" {
							continue // a sentinel error value
						}
						if _, ok := allowed[gn]; !ok {
							bad = append(bad, name+" uses package-level variable "+gn+" at "+c.where(in))
						}
					}
				}
			}
		}
		d := "the frame, position-map and chunk codecs keep no state between calls: they touch no package-level variable besides the byte order and the io sentinel errors"
		if len(bad) > 0 {
			c.fail("stateless/no-shared-state", "K5 who-may-access", d, "state shared between calls (a pooled buffer, a cached frame) can carry bytes from one stream into another: the peer then reads a frame that was never written to it", strings.Join(bad, "; "), n)
		} else if n < 20 {
			c.fail("stateless/no-shared-state", "K5 who-may-access", d, "", fmt.Sprintf("only %d codec functions resolved", n), n)
		} else {
			c.ok("stateless/no-shared-state", "K5 who-may-access", d, n)
		}
	}

	// ---- fullreads ----
	{
		var bad []string
		n := 0
		for _, d := range append(append([]string{}, decoders...), "internal.ReadN") {
			fn := c.F(d)
			if fn == nil {
				bad = append(bad, d+" unresolved")
				continue
			}
			n++
			for _, in := range InstrsDeep(fn, func(in ssa.Instruction) bool {
				call, ok := in.(*ssa.Call)
				return ok && call.Call.IsInvoke() && (call.Call.Method.Name() == "Read" || call.Call.Method.Name() == "ReadAt")
			}) {
				bad = append(bad, "bare "+p.RenderCall(in)+" at "+c.where(in))
			}
		}
		d := "no decoder calls Reader.Read directly: all reads go through encoding/binary.Read, io.ReadFull or internal.ReadN, which loop until the item is complete"
		if len(bad) > 0 {
			c.fail("fullreads/no-bare-read", "K5 who-may-call", d, "a bare Read may return fewer bytes with a nil error: the value decoded depends on how the network split the bytes", strings.Join(bad, "; "), n)
		} else {
			c.ok("fullreads/no-bare-read", "K5 who-may-call", d, n)
		}
	}
	rn := "internal.ReadN"
	c.ExpectAll("fullreads/ReadN-copies-n", c.CallArgs(rn, p.PlainCalls("io.CopyN"), 2), "p1", 1, "ReadN copies exactly n bytes", "")
	c.ExpectAll("fullreads/ReadN-source", c.CallArgs(rn, p.PlainCalls("io.CopyN"), 1), "p0", 1, "... from the reader", "")
	c.ErrHandled("fullreads/ReadN-error", rn, p.PlainCalls("io.CopyN"), nil, 1, "a short copy is an error, never a short result", "")
	rfa := "internal.ReadFullAt"
	isReadAt := func(in ssa.Instruction) bool {
		call, ok := in.(*ssa.Call)
		return ok && call.Call.IsInvoke() && call.Call.Method.Name() == "ReadAt"
	}
	c.GuardedPaths("fullreads/ReadFullAt-loops", rfa, isReadAt, [][]*Guard{{G(`\(.* < builtin\.len\(p1\)\)`, true)}}, 1, "ReadFullAt keeps reading while the buffer is not full", "")
	{
		// the read is inside a loop: it can reach itself again
		fn := c.F(rfa)
		ins := Instrs(fn, isReadAt)
		ok := len(ins) == 1 && (&Search{P: p, Fn: fn, From: ins, Tgt: isReadAt}).Run() != nil
		d := "the ReadAt call of ReadFullAt is re-executed (a loop): a short read is followed by another read"
		if !ok {
			c.fail("fullreads/ReadFullAt-retries", "K4 reachability", d, "a single ReadAt may return fewer bytes than asked", "ReadAt is not on a cycle", len(ins))
		} else {
			c.ok("fullreads/ReadFullAt-retries", "K4 reachability", d, 1)
		}
	}
	{
		var got []string
		for _, in := range Instrs(c.F(rfa), func(in ssa.Instruction) bool {
			call, ok := in.(*ssa.Call)
			return ok && call.Call.IsInvoke() && call.Call.Method.Name() == "ReadAt"
		}) {
			got = append(got, c.argR(in, 1)+" @ "+c.argR(in, 2))
		}
		c.ExpectAll("fullreads/ReadFullAt-continues", got, pat("p1[phi(@@):] @ (p2 + phi(@@))"), 1, "each retry reads into the unfilled tail at the matching file offset", "")
	}

	// ---- errors ----
	for _, d := range decoders {
		short := d[strings.LastIndex(d, "(")+1:]
		if !strings.Contains(d, "(") {
			short = d[strings.LastIndex(d, ".")+1:]
		}
		short = strings.NewReplacer("*", "", ")", "").Replace(short)
		reads := p.PlainCalls("encoding/binary.Read", "io.ReadFull", "internal.ReadN")
		if len(Instrs(c.F(d), reads)) == 0 {
			continue
		}
		c.ErrHandled("errors/"+short, d, reads, nil, 1, short+": every read error is returned", "every truncated or malformed byte sequence is reported as an error")
	}
	for _, f := range frames {
		d := "litefs.(*" + f.t + ").ReadFrom"
		fn := c.F(d)
		if fn == nil || len(Instrs(fn, p.PlainCalls("encoding/binary.Read", "internal.ReadN", "io.ReadFull"))) == 0 {
			continue
		}
		// no raw return of a read error without the EOF conversion test
		bad := ""
		n := 0
		for _, in := range Instrs(fn, p.PlainCalls("encoding/binary.Read", "internal.ReadN", "io.ReadFull")) {
			n++
			call := in.(*ssa.Call)
			e, _ := errValue(call)
			if e == nil {
				bad = "error of " + p.RenderCall(in) + " discarded"
				continue
			}
			r := regexpQuote(p.Render(e))
			eof := G(`\(`+r+` == io\.EOF\)|\(io\.EOF == `+r+`\)`, true)
			edges := p.CountGuardEdges(fn, eof)
			if edges == 0 {
				bad = "the error of " + p.RenderCall(in) + " at " + c.where(in) + " is never compared with io.EOF"
				continue
			}
			for _, b := range fn.Blocks {
				for i, sb := range b.Succs {
					if !p.EdgeAsserts(Edge{b, i}, eof) {
						continue
					}
					for _, ri := range sb.Instrs {
						if ret, ok := ri.(*ssa.Return); ok && p.Render(returnedValue(ret, 1)) != "io.ErrUnexpectedEOF" {
							bad = "EOF of " + p.RenderCall(in) + " is returned as " + p.Render(returnedValue(ret, 1))
						}
					}
				}
			}
		}
		desc := f.t + ".ReadFrom converts an io.EOF of each of its reads into io.ErrUnexpectedEOF"
		if bad != "" {
			c.fail("errors/eof-conversion/"+f.t, "K7 (EOF inside an item)", desc, "a frame cut short must not look like a clean end of stream", bad, n)
		} else {
			c.ok("errors/eof-conversion/"+f.t, "K7 (EOF inside an item)", desc, n)
		}
	}

	// ---- chunk framing ----
	cr := "chunk.(*Reader).Read"
	size := "out:encoding/binary.Read(p0.r, encoding/binary.BigEndian, &new(uint16))"
	{
		// io.EOF is returned only for the closing chunk
		fn := c.F(cr)
		key, rule := "chunk/eof-only-at-end-marker", "K2/K7 (io.Reader contract)"
		desc := "chunk.Reader.Read returns io.EOF only after the closing zero-length chunk was read; an io.EOF of the underlying reader inside a chunk is converted"
		if c.need(key, rule, desc, fn, cr) {
			bad := ""
			n := 0
			for _, in := range Instrs(fn, IsReturn) {
				r := in.(*ssa.Return)
				if len(r.Results) != 2 || (r.Block().Index != 0 && len(r.Block().Preds) == 0) {
					continue
				}
				ev := p.Render(returnedValue(r, 1))
				switch {
				case ev == "nil" || ev == "io.ErrUnexpectedEOF":
				case ev == "io.EOF":
					n++
					if !c.dominatedBy(fn, in, GP("p0.eof", true)) {
						bad = "io.EOF returned at " + c.where(in) + " without the end marker having been seen"
					}
				default:
					n++
					// a raw inner error: the EOF case must have been split off
					q := regexpQuote(ev)
					if !c.dominatedBy(fn, in, G(`\(`+q+` == io\.EOF\)|\(io\.EOF == `+q+`\)`, false)) {
						bad = "the raw error " + ev + " is returned at " + c.where(in) + " and may be io.EOF"
					}
				}
			}
			if bad != "" || n < 3 {
				c.fail(key, rule, desc, "an io.Reader that returns io.EOF in the middle of a chunk makes io.Copy stop without error: the LTX file on the replica is truncated and then applied fatally", bad, n)
			} else {
				c.ok(key, rule, desc, n)
			}
		}
	}
	{
		var got []string
		for _, in := range Instrs(c.F(cr), p.Writes("chunk.Reader.eof")) {
			got = append(got, fieldStoreVal(p, in))
		}
		c.ExpectAll("chunk/end-marker", got, pat("("+size+" == 0)")+"|"+pat("(0 == "+size+")"), 1, "the end marker is a chunk length of 0", "")
		v, ok := p.ConstIn("chunk", "EOF")
		if !ok || v != "0" {
			c.fail("chunk/end-marker-const", "K8 constant", "chunk.EOF is 0", "", "chunk.EOF = "+v, 1)
		} else {
			c.ok("chunk/end-marker-const", "K8 constant", "chunk.EOF is 0", 1)
		}
	}
	{
		// the slice bound is a uint16 against an array of at least 65535 bytes
		fn := c.F(cr)
		ok, detail, n := false, "no slice of the chunk buffer found", 0
		if fn != nil {
			for _, b := range fn.Blocks {
				for _, in := range b.Instrs {
					sl, isS := in.(*ssa.Slice)
					if !isS || sl.High == nil {
						continue
					}
					pt, isP := sl.X.Type().Underlying().(*types.Pointer)
					if !isP {
						continue
					}
					at, isA := pt.Elem().Underlying().(*types.Array)
					if !isA {
						continue
					}
					n++
					hv := stripValue(sl.High)
					hb, _ := hv.Type().Underlying().(*types.Basic)
					if hb != nil && hb.Kind() == types.Uint16 && at.Len() >= 65535 {
						ok = true
					} else {
						detail = fmt.Sprintf("slice bound of type %s against [%d]byte at %s", hv.Type(), at.Len(), c.where(in))
					}
				}
			}
		}
		d := "the chunk buffer is sliced by a uint16 against an array of 65535 bytes: in range by type"
		if !ok {
			c.fail("alloc/chunk-bound-by-type", "K12 (bound from types)", d, "never a panic on a hostile length prefix", detail, n)
		} else {
			c.ok("alloc/chunk-bound-by-type", "K12 (bound from types)", d, n)
		}
	}
	c.ExpectAll("chunk/reads-full-chunk", c.CallArgs(cr, p.PlainCalls("io.ReadFull"), 1), "p0.buf", 1, "the whole chunk is read before any byte is handed out", "")
	cw := "chunk.(*Writer).Write"
	emits := func(in ssa.Instruction) bool {
		if p.PlainCalls("encoding/binary.Write")(in) {
			return true
		}
		// a package-local helper that writes the header
		if f := p.calleeFunc(in); f != nil && f.Pkg != nil && f.Pkg.Pkg.Name() == "chunk" && f.Name() != "Write" {
			return len(InstrsDeep(f, p.PlainCalls("encoding/binary.Write"))) > 0
		}
		return false
	}
	{
		fn := c.F(cw)
		key, rule := "chunk/never-empty-chunk", "K2 Guarded (path enumeration, phi resolution, value-specific)"
		desc := "Writer.Write emits a chunk header only on a path that established that exactly the slice being emitted (before the cut to 65535 bytes) is non-empty"
		if c.need(key, rule, desc, fn, cw) {
			bad := ""
			n := 0
			for _, tgt := range Instrs(fn, emits) {
				tgt := tgt
				p.EnumPathsR(fn, func(in ssa.Instruction) bool { return in == tgt }, 5000, func(facts []PathFact, trace []*ssa.BasicBlock, at ssa.Instruction, r PathRender) {
					n++
					vals := callVals(at)
					v := ""
					if p.PlainCalls("encoding/binary.Write")(at) {
						v = strings.TrimSuffix(strings.TrimPrefix(r(vals[2]), "builtin.len("), ")")
					} else {
						for _, a := range vals[1:] {
							if _, isSlice := a.Type().Underlying().(*types.Slice); isSlice {
								v = r(a)
							}
						}
					}
					v = strings.TrimSuffix(v, "[:65535]")
					q := regexpQuote("builtin.len(" + v + ")")
					ok := []*Guard{G(`\(0 < `+q+`\)`, true), G(`\(`+q+` < [1-9][0-9]*\)`, false), G(`\([1-9][0-9]* < `+q+`\)`, true), G(`\(0 == `+q+`\)`, false)}
					for _, f := range facts {
						for _, g := range ok {
							if f.Val == g.Val && g.rx.MatchString(f.Cond) {
								return
							}
						}
					}
					if bad == "" {
						bad = "the slice " + v + " is emitted at " + c.where(at) + " on a path that never established it is non-empty: " + p.TraceString(trace)
					}
				})
			}
			if bad != "" || n == 0 {
				c.fail(key, rule, desc, "a zero-length chunk is the end-of-body marker: the peer stops reading and parses the rest of the body as the next frame", bad, n)
			} else {
				c.ok(key, rule, desc, n)
			}
		}
	}
	c.Guarded("chunk/empty-write-ignored", cw, emits, gs(GP("(0 == builtin.len(p1))", false)), 1, "an empty Write writes nothing", "")
	{
		fn := c.F(cw)
		key, rule := "narrow/chunk-length", "K12 narrowing (path enumeration, phi resolution)"
		desc := "the length written as uint16 is at most 65535 on every path: the chunk emitted is either the first 65535 bytes of the remainder or the remainder itself on a path that established it is not longer than MaxChunkSize"
		if c.need(key, rule, desc, fn, cw) {
			bad := ""
			n := 0
			bound := []*Guard{G(`\(65535 < builtin\.len\(.*\)\)`, false), G(`\(builtin\.len\(.*\) < 6553[56]\)`, true)}
			for _, tgt := range Instrs(fn, emits) {
				tgt := tgt
				p.EnumPathsR(fn, func(in ssa.Instruction) bool { return in == tgt }, 5000, func(facts []PathFact, trace []*ssa.BasicBlock, at ssa.Instruction, r PathRender) {
					n++
					vals := callVals(at)
					arg := ""
					if p.PlainCalls("encoding/binary.Write")(at) {
						arg = r(vals[2])
					} else {
						for _, v := range vals[1:] {
							if _, isSlice := v.Type().Underlying().(*types.Slice); isSlice {
								arg = r(v)
							}
						}
					}
					if strings.Contains(arg, "[:65535]") {
						return
					}
					for _, f := range facts {
						for _, g := range bound {
							if f.Val == g.Val && g.rx.MatchString(f.Cond) {
								return
							}
						}
					}
					bad = "the chunk " + arg + " is emitted on a path that neither cut it to 65535 bytes nor established that it is not longer: " + p.TraceString(trace)
				})
			}
			if bad != "" || n == 0 {
				c.fail(key, rule, desc, "a length above 65535 wraps in uint16: the peer reads a shorter chunk and desynchronises", bad, n)
			} else {
				c.ok(key, rule, desc, n)
			}
		}
	}
	{
		v, ok := p.ConstIn("chunk", "MaxChunkSize")
		if !ok || v != "65535" {
			c.fail("narrow/max-chunk-size", "K8 constant", "MaxChunkSize is 65535 (the largest uint16)", "", "MaxChunkSize = "+v, 1)
		} else {
			c.ok("narrow/max-chunk-size", "K8 constant", "MaxChunkSize is 65535 (the largest uint16)", 1)
		}
	}
	c.ErrHandled("chunk/write-errors", cw, Any(emits, p.Calls("io.Writer.Write")), nil, 1, "Writer.Write returns header and payload write errors", "")
	cc := "chunk.(*Writer).Close"
	c.ExpectAll("chunk/close-writes-marker", c.CallArgs(cc, p.PlainCalls("encoding/binary.Write"), 2), "0", 1, "Close writes the zero-length end marker", "")
	c.Guarded("chunk/close-once", cc, p.PlainCalls("encoding/binary.Write"), gs(GP("p0.closed", false)), 1, "a second Close writes nothing", "two end markers would be read as an empty next body")

	// ---- the end marker is written only for a complete body ----
	for _, u := range []struct{ fn, producer, ok string }{
		{"http.(*Server).streamLTXSnapshot", "litefs.(*DB).WriteSnapshotTo", "(litefs.(*DB).WriteSnapshotTo(@@)#2 == nil)"},
		{"http.(*Server).streamLTX", "io.Copy", "(io.Copy(@@)#1 == nil)"},
	} {
		short := u.fn[strings.LastIndex(u.fn, ".")+1:]
		closeAny := p.Calls("chunk.(*Writer).Close")
		var deferred []string
		for _, fn := range append([]*ssa.Function{c.F(u.fn)}, c.F(u.fn).AnonFuncs...) {
			for _, b := range fn.Blocks {
				for _, in := range b.Instrs {
					if d, ok := in.(*ssa.Defer); ok {
						if cf := p.calleeFunc(d); cf != nil && len(InstrsDeep(cf, closeAny)) > 0 || p.CalleeName(d.Common()) == "chunk.(*Writer).Close" {
							deferred = append(deferred, c.where(in))
						}
					}
				}
			}
		}
		d := short + ": the chunk writer is closed (end-of-body marker) by a plain call on the success path of the body producer, never by a defer"
		if len(deferred) > 0 {
			c.fail("chunk/end-marker-complete-body/"+short+"/no-defer", "K5", d, "a deferred Close writes the end marker also when the producer failed half way: the peer reads the truncated body as complete", "deferred close at "+strings.Join(deferred, ", "), len(deferred))
		} else {
			c.ok("chunk/end-marker-complete-body/"+short+"/no-defer", "K5", d, 1)
		}
		c.Guarded("chunk/end-marker-complete-body/"+short+"/after-success", u.fn, p.PlainCalls("chunk.(*Writer).Close"), gs(GP(u.ok, true)), 1, short+": Close is reached only when "+u.producer+" returned no error", "every truncated byte sequence is reported as an error")
		c.After("chunk/end-marker-complete-body/"+short+"/flushed", u.fn, p.PlainCalls("chunk.NewWriter"), p.PlainCalls("chunk.(*Writer).Close"), p.SuccessReturn, 1, short+": every success exit after the chunk writer was created has closed the chunked body", "without the marker the peer waits for more chunks and parses the next frame as body")
	}

	// ---- alloc ----
	{
		var bad []string
		n := 0
		all := append(append([]string{}, decoders...), "internal.ReadN", "internal.ReadFullAt")
		for _, d := range all {
			fn := c.F(d)
			if fn == nil {
				continue
			}
			for _, b := range fn.Blocks {
				for _, in := range b.Instrs {
					var sz ssa.Value
					switch x := in.(type) {
					case *ssa.MakeSlice:
						sz = x.Len
					case *ssa.MakeMap:
						sz = x.Reserve
					}
					if sz == nil {
						continue
					}
					n++
					if _, isConst := sz.(*ssa.Const); isConst {
						continue
					}
					r := p.Render(sz)
					if strings.Contains(r, "out:encoding/binary.Read") || strings.Contains(r, "encoding/binary.(") {
						bad = append(bad, fmt.Sprintf("%s: allocation sized by the decoded value %s at %s", d, trunc(r, 90), c.where(in)))
					}
				}
			}
		}
		d := "no decoder allocates a slice or map whose size is a value decoded from the stream (names are read through internal.ReadN, whose buffer grows with the bytes received)"
		if len(bad) > 0 {
			c.fail("alloc/no-wire-sized-make", "K12 TaintAlloc", d, "memory use out of proportion to the bytes actually received: a 4-byte prefix commands a 4 GiB allocation", strings.Join(bad, "; "), n)
		} else {
			c.ok("alloc/no-wire-sized-make", "K12 TaintAlloc", d, len(all))
		}
	}
	c.ExpectAll("alloc/ReadN-grows", c.CallArgs(rn, p.PlainCalls("io.CopyN"), 0), pat("&new(bytes.Buffer)"), 1, "ReadN accumulates into a bytes.Buffer (grows with the bytes received)", "")

	// ---- narrow (position map) ----
	c.Guarded("narrow/posmap-name", "http.WritePosMapTo", p.Calls("io.Writer.Write"), gs(G(`\(2147483647 < builtin\.len\(.*\)\)`, false)), 1, "a name is written only when its length fits the 32-bit prefix", "")
}

// ConstIn resolves a package-level constant of the package with the given short name.
func (p *Prog) ConstIn(pkgShort, name string) (string, bool) {
	for path, pk := range p.All {
		if shortPkg(path) != pkgShort && !strings.HasSuffix(path, "/"+pkgShort) {
			continue
		}
		if k, ok := pk.Types.Scope().Lookup(name).(*typesConst); ok {
			return k.Val().ExactString(), true
		}
	}
	return "", false
}

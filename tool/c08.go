package main

import (
	"fmt"
	"strings"

	"golang.org/x/tools/go/ssa"
)

func init() {
	register(&Property{
		ID:    "C08",
		Level: "other",
		Run:   c08,
		Explanation: "Wall-clock clauses ('for a full TTL') are not decidable statically; decided on every path is the structure that makes a node primary only between acquiring and losing a lease. Lease ownership: Store.lease is written only by setLease; a non-nil lease is set only in monitorLeaseAsPrimary with its own parameter, which monitorLease obtains only from Leaser.AcquireExisting or (through acquireLeaseOrPrimaryInfo) Leaser.Acquire. Always-clear: every exit after setLease(lease) has registered the deferred setLease(nil); the deferred Lease.Close is skipped only through a captured flag whose 'preserve' value is stored only after processHandoff returned nil. Primary channel: setLease closes primaryCh exactly on non-nil -> nil and makes a fresh one on nil -> non-nil; primary contexts are built from it under Store.mu. Renewal decision table: ErrLeaseExpired ends the primary; any other error retries only while time.Since(RenewedAt)+timeout <= TTL and otherwise returns ErrLeaseExpired; and RenewedAt moves only on a successful renewal (Consul lease). Candidate: Leaser.Acquire is called only in acquireLeaseOrPrimaryInfo, only when there is no primary and the node is a candidate; the candidate flag is written only at construction. Cluster: the acquire/handoff branch of monitorLease is entered only when the leaser's cluster id is empty or equals the node's; the replica's frame loop only when the stream's cluster id equals the node's. Handoff: lease.Handoff only for a connected subscriber with the same node id while a lease is held; the lease id is sent only after a successful final renewal to exactly that subscriber; AcquireExisting only with the id received in a handoff frame. Recovery after both roles. Consul mapping: Acquire = session + KV acquire, session closed when not acquired; nil renew entry = ErrLeaseExpired; Close = KV release + session destroy; empty key = ErrNoPrimary; SetClusterID refuses an existing id. The replication stream is primary-scoped: its wait loop and streamDB use only the server context and the PrimaryCtx-wrapped request context. Consul Lease.Close attempts Session.Destroy on every exit.",
		NotDecided: "durations (renew every TTL/2 in wall-clock time, 'for a full TTL'), behaviour of a real Consul, scheduling of the election loop.",
		Assumptions: []string{"go/ssa faithfully represents the source", "Leaser/Lease implementations outside the repository honour the interface contract"},
	})
}

func c08(c *Ctx) {
	c.clientStatusFamily("client", "Handoff", "Promote")
	c.primaryOnlyHandlers("primary-only")
	c.NoDiscardedErrors("errors/none-dropped", []string{"consul"}, discardLease, 1)
	p := c.P
	mp := "litefs.(*Store).monitorLeaseAsPrimary"
	ml := "litefs.(*Store).monitorLease"
	al := "litefs.(*Store).acquireLeaseOrPrimaryInfo"
	setLease := p.Calls("litefs.(*Store).setLease")

	// ---- lease-owner ----
	c.OnlyIn("lease-owner/field", p.Writes("litefs.Store.lease"), []string{pat("litefs.(*Store).setLease")}, 1, "Store.lease is written only by setLease", "")
	c.OnlyIn("lease-owner/setLease-callers", setLease, []string{pat(mp), pat(mp) + `\$\d+`}, 2, "setLease is called only by monitorLeaseAsPrimary and its deferred clean-up", "a node acts as primary only between acquiring a lease and losing it")
	{
		var args []string
		for _, in := range InstrsDeep(c.F(mp), setLease) {
			args = append(args, c.argR(in, 1))
		}
		c.ExpectAll("lease-owner/setLease-args", args, "p2|nil", 2, "the lease installed is the function's own lease parameter; the only other value is nil", "")
	}
	c.OnlyIn("lease-owner/primary-callers", p.Calls(mp), []string{pat(ml)}, 1, "monitorLeaseAsPrimary is called only from the election loop", "")
	c.ExpectAll("lease-owner/lease-origin", c.CallArgs(ml, p.PlainCalls(mp), 2), pat("phi(litefs.Leaser.AcquireExisting(p0.Leaser, p1, @@)#0|"+al+"(p0, p1)#0)")+"|"+pat("phi("+al+"(p0, p1)#0|litefs.Leaser.AcquireExisting(p0.Leaser, p1, @@)#0)"), 1, "the lease monitored comes from Leaser.AcquireExisting or acquireLeaseOrPrimaryInfo", "")
	c.Guarded("lease-owner/non-nil", ml, p.PlainCalls(mp), gs(G(`\(nil == phi\(.*\)\)|\(phi\(.*\) == nil\)`, false)), 1, "monitorLeaseAsPrimary is entered only with a non-nil lease", "")
	{
		var rets []string
		for _, in := range Instrs(c.F(al), IsReturn) {
			r := in.(*ssa.Return)
			if v := p.Render(returnedValue(r, 0)); v != "nil" && !(r.Block().Index != 0 && len(r.Block().Preds) == 0) {
				rets = append(rets, v)
			}
		}
		c.ExpectAll("lease-owner/acquire-origin", rets, pat("litefs.Leaser.Acquire(p0.Leaser, p1)#0"), 1, "the only lease acquireLeaseOrPrimaryInfo returns is the one Leaser.Acquire returned", "")
	}
	c.GuardedPaths("lease-owner/acquire-success", al, func(in ssa.Instruction) bool {
		r, ok := in.(*ssa.Return)
		return ok && p.Render(returnedValue(r, 0)) != "nil" && !(r.Block().Index != 0 && len(r.Block().Preds) == 0)
	}, [][]*Guard{{GP("(litefs.Leaser.Acquire(p0.Leaser, p1)#1 == nil)", true)}, {GP("(litefs.ErrPrimaryExists == litefs.Leaser.Acquire(p0.Leaser, p1)#1)", false)}}, 1, "... and only when Acquire returned no error", "")

	// ---- always-clear ----
	clearCl := ""
	for _, an := range c.F(mp).AnonFuncs {
		for _, in := range Instrs(an, setLease) {
			if c.argR(in, 1) == "nil" {
				clearCl = p.FuncName(an)
			}
		}
	}
	install := func(in ssa.Instruction) bool { return setLease(in) && c.argR(in, 1) != "nil" }
	if clearCl == "" {
		c.fail("always-clear/deferred", "K3 After (deferred)", "a deferred closure of monitorLeaseAsPrimary calls setLease(nil)", "when the lease is lost the node stops being primary and cancels primary-scoped contexts", "no closure calls setLease(nil)", 0)
	} else {
		deferClear := func(in ssa.Instruction) bool {
			d, ok := in.(*ssa.Defer)
			return ok && p.FuncName(p.calleeFunc(d)) == clearCl
		}
		c.After("always-clear/deferred", mp, install, deferClear, IsReturn, 1, "every exit of monitorLeaseAsPrimary after the lease was installed has registered the deferred setLease(nil)", "when the lease is lost the node stops being primary and cancels primary-scoped contexts")
		c.Before("always-clear/under-mutex", clearCl, setLease, p.PlainCalls("sync.(*Mutex).Lock"), 1, "the clean-up takes Store.mu", "")
		c.OnlyGuards("always-clear/unconditional", clearCl, setLease, nil, 1, "the clean-up clears the lease unconditionally", "")
	}
	c.Before("always-clear/install-under-mutex", mp, install, p.PlainCalls("sync.(*Mutex).Lock"), 1, "the lease is installed under Store.mu", "")
	{
		// the lease is destroyed on exit unless the flag says it was handed off
		fn := c.F(mp)
		key, rule := "always-clear/destroy-unless-handed-off", "K2/K6 (captured flag: stores vs handoff success)"
		desc := "the deferred Lease.Close is skipped only through a captured variable, and every store of a 'preserve' value to it is dominated by processHandoff having returned nil"
		why := "when it stops being primary the node destroys the lease - except when it was handed off; a lease preserved for nobody keeps the cluster without a primary until the TTL runs out"
		closeCl := c.anonWith(mp, p.Calls("litefs.Lease.Close"))
		if closeCl == "" {
			c.fail(key, rule, desc, why, "no closure of monitorLeaseAsPrimary calls Lease.Close", 0)
		} else {
			cfn := c.F(closeCl)
			// free variables the close decision depends on
			var flags []*ssa.FreeVar
			for _, b := range cfn.Blocks {
				if len(b.Instrs) == 0 {
					continue
				}
				iff, ok := b.Instrs[len(b.Instrs)-1].(*ssa.If)
				if !ok {
					continue
				}
				// only branches that decide about the Close call
				reach0 := (&Search{P: p, Fn: cfn, Tgt: p.Calls("litefs.Lease.Close")}).runFromBlock(b.Succs[0]) != nil
				reach1 := (&Search{P: p, Fn: cfn, Tgt: p.Calls("litefs.Lease.Close")}).runFromBlock(b.Succs[1]) != nil
				if reach0 == reach1 {
					continue
				}
				var walk func(v ssa.Value, d int)
				walk = func(v ssa.Value, d int) {
					if d > 4 {
						return
					}
					switch x := v.(type) {
					case *ssa.UnOp:
						if fv, ok := x.X.(*ssa.FreeVar); ok {
							flags = append(flags, fv)
						} else {
							walk(x.X, d+1)
						}
					case *ssa.BinOp:
						walk(x.X, d+1)
						walk(x.Y, d+1)
					}
				}
				walk(iff.Cond, 0)
			}
			// bind to parent allocs
			var allocs []*ssa.Alloc
			for _, in := range Instrs(fn, func(in ssa.Instruction) bool { _, ok := in.(*ssa.MakeClosure); return ok }) {
				mc := in.(*ssa.MakeClosure)
				if mc.Fn != ssa.Value(cfn) {
					continue
				}
				for i, fv := range cfn.FreeVars {
					for _, fl := range flags {
						if fl == fv {
							if al, ok := mc.Bindings[i].(*ssa.Alloc); ok {
								allocs = append(allocs, al)
							}
						}
					}
				}
			}
			bad := ""
			n := 0
			succEdge := p.EdgesAsserting(GP("(litefs.(*Store).processHandoff(@@) == nil)", true))
			ph := p.PlainCalls("litefs.(*Store).processHandoff")
			for _, al := range allocs {
				first := true
				for _, b := range fn.Blocks {
					for _, in := range b.Instrs {
						st, ok := in.(*ssa.Store)
						if !ok || st.Addr != ssa.Value(al) {
							continue
						}
						n++
						if b.Index == 0 && first {
							first = false
							continue // initialisation in the entry block
						}
						stt := in
						isSt := func(i ssa.Instruction) bool { return i == stt }
						// (a) not reachable without a handoff having been processed
						if f := (&Search{P: p, Fn: fn, Avoid: ph, Tgt: isSt}).Run(); f != nil {
							bad = "the flag is changed at " + c.where(in) + " on a path without a processed handoff: " + p.TraceString(f.Trace)
						}
						// (b) after processHandoff, not reachable except through its success edge
						for _, call := range Instrs(fn, ph) {
							if f := (&Search{P: p, Fn: fn, From: []ssa.Instruction{call}, Block: succEdge, Avoid: ph, Tgt: isSt}).Run(); f != nil {
								bad = "the flag is changed at " + c.where(in) + " although processHandoff may have failed; path " + p.TraceString(f.Trace)
							}
						}
					}
				}
			}
			if len(allocs) == 0 {
				bad = "the Close decision of " + closeCl + " does not depend on a captured local variable"
			}
			if bad != "" {
				c.fail(key, rule, desc, why, bad, n)
			} else {
				c.ok(key, rule, desc, n)
			}
		}
	}

	// ---- primary channel ----
	sl := "litefs.(*Store).setLease"
	closeCh := p.PlainCalls("builtin.close")
	c.Guarded("primary-ch/close-on-loss", sl, closeCh, gs(GP("(nil == p1)", true)), 1, "setLease closes primaryCh only when the new lease is nil", "primary-scoped contexts are cancelled exactly when the lease is lost")
	c.Guarded("primary-ch/close-on-transition", sl, closeCh, gs(G(`\(\(.*p0\.lease.*\) == \(.*p1.*\)\)|\(\(.*p1.*\) == \(.*p0\.lease.*\)\)`, false)), 1, "... and only on a transition (held -> not held)", "closing twice panics; not closing leaves primary contexts alive on a replica")
	c.ExpectAll("primary-ch/closes-own-channel", c.CallArgs(sl, closeCh, 0), pat("p0.primaryCh"), 1, "the channel closed is Store.primaryCh", "")
	c.Guarded("primary-ch/fresh-on-gain", sl, p.Writes("litefs.Store.primaryCh"), gs(GP("(nil == p1)", false)), 1, "a fresh primaryCh is made only when a lease is gained", "")
	c.OnlyIn("primary-ch/writers", p.Writes("litefs.Store.primaryCh"), []string{pat(sl), pat("litefs.NewStore")}, 2, "primaryCh is written only by NewStore (closed channel) and setLease", "")
	c.Before("primary-ch/store-after-channel", sl, p.Writes("litefs.Store.lease"), func(in ssa.Instruction) bool { _, ok := in.(*ssa.If); return ok }, 1, "the transition test precedes the assignment of the new lease", "testing after the assignment compares the lease with itself: the channel is never closed")
	c.ExpectAll("primary-ch/ctx-source", c.CallArgs("litefs.(*Store).primaryCtx", p.PlainCalls("litefs.newPrimaryCtx"), 1), pat("p0.primaryCh"), 1, "primary contexts watch Store.primaryCh", "")
	c.Before("primary-ch/ctx-under-mutex", "litefs.(*Store).PrimaryCtx", p.PlainCalls("litefs.(*Store).primaryCtx"), p.PlainCalls("sync.(*Mutex).Lock"), 1, "PrimaryCtx reads primaryCh under Store.mu", "")
	c.Expect("primary-ch/err", joinS(c.returnsOf("litefs.(*primaryCtx).Err")), pat("litefs.ErrLeaseExpired;context.Context.Err(p0.parent)"), "a primary context reports ErrLeaseExpired once primaryCh is closed, else the parent's error", "")
	{
		// NewStore starts with a closed channel: a node that never was primary has cancelled primary contexts
		fn := c.F("litefs.NewStore")
		ok := false
		if fn != nil {
			for _, in := range Instrs(fn, closeCh) {
				if strings.Contains(c.argR(in, 0), "make(chan struct{}") {
					ok = true
				}
			}
		}
		d := "NewStore installs an already closed primaryCh (a node that is not primary has no live primary context)"
		if !ok {
			c.fail("primary-ch/initially-closed", "K6 Origin", d, "", "no close(make(chan struct{})) in NewStore", 0)
		} else {
			c.ok("primary-ch/initially-closed", "K6 Origin", d, 1)
		}
	}

	// ---- renew ----
	renew := "litefs.Lease.Renew(p2, @@)" // the context argument is decided by renew/bounded-by-lease
	over := GP("(litefs.Lease.TTL(p2) < (time.Since(litefs.Lease.RenewedAt(p2)) + 1000000000))", true)
	c.EdgeReturns("renew/expired-ends", mp, GP("(litefs.ErrLeaseExpired == "+renew+")", true), pat(renew), 1, "a renewal that reports ErrLeaseExpired ends the primary with that error", "")
	c.EdgeReturns("renew/ttl-exceeded-ends", mp, over, pat("litefs.ErrLeaseExpired"), 1, "when the next renewal would exceed the TTL the primary ends with ErrLeaseExpired", "renewals have failed for a full TTL")
	c.Guarded("renew/retry-only-within-ttl", mp, p.CallWhere("log.Printf", "lease renewal error"), gs(GP("(litefs.Lease.TTL(p2) < (time.Since(litefs.Lease.RenewedAt(p2)) + 1000000000))", false)), 1, "the retry branch is taken only while time.Since(RenewedAt)+timeout <= TTL", "")
	c.Guarded("renew/ttl-test-on-error", mp, p.PlainCalls("time.Since"), gs(GP("("+renew+" == nil)", false)), 1, "the TTL test is made for every renewal error other than ErrLeaseExpired", "")
	{
		// after a failed renewal there is no way back into the loop except through the TTL test
		fn := c.F(mp)
		key, rule := "renew/error-reaches-ttl-test", "K1 Before (from edge)"
		desc := "every renewal error other than ErrLeaseExpired reaches the TTL test before the loop continues"
		if c.need(key, rule, desc, fn, mp) {
			n, bad := 0, ""
			g := GP("("+renew+" == nil)", false)
			for _, b := range fn.Blocks {
				for i, sb := range b.Succs {
					if !p.EdgeAsserts(Edge{b, i}, g) {
						continue
					}
					n++
					if f := (&Search{P: p, Fn: fn, Avoid: p.PlainCalls("time.Since"), Tgt: Any(p.PlainCalls("litefs.Lease.Renew"), func(in ssa.Instruction) bool { _, ok := in.(*ssa.Select); return ok })}).runFromBlock(sb); f != nil {
						bad = "the loop continues at " + c.where(f.Instr) + " without the TTL test"
					}
				}
			}
			if bad != "" || n == 0 {
				c.fail(key, rule, desc, "a primary whose renewals keep failing must give up before the TTL", bad, n)
			} else {
				c.ok(key, rule, desc, n)
			}
		}
	}
	// RenewedAt moves only on success (all Lease implementations in the repository)
	cr := "consul.(*Lease).Renew"
	c.GuardedPaths("renew/consul/renewedAt-on-success", cr, p.Writes("consul.Lease.renewedAt"), [][]*Guard{
		{G(`\(.*Session\)\.Renew\(.*\)#2 == nil\)|\(nil == .*Session\)\.Renew\(.*\)#2\)`, true)},
		{G(`\(nil == .*Session\)\.Renew\(.*\)#0\)|\(.*Session\)\.Renew\(.*\)#0 == nil\)`, false)},
	}, 1, "the Consul lease moves RenewedAt only after a renewal that returned no error and a live session", "a failed attempt that resets RenewedAt makes 'renewals have failed for a full TTL' unreachable: the node stays primary for ever while Consul has invalidated its session")
	c.OnlyIn("renew/consul/renewedAt-writers", p.Writes("consul.Lease.renewedAt"), []string{pat(cr), pat("consul.newLease")}, 2, "RenewedAt is written only at creation and in Renew", "")
	c.Expect("renew/consul/renewedAt-read", joinS(c.returnsOf("consul.(*Lease).RenewedAt")), pat("p0.renewedAt"), "RenewedAt() returns the stored time", "")
	c.EdgeReturns("renew/consul/gone-is-expired", cr, G(`\(nil == .*Session\)\.Renew\(.*\)#0\)|\(.*Session\)\.Renew\(.*\)#0 == nil\)`, true), pat("litefs.ErrLeaseExpired"), 1, "a nil session entry is reported as ErrLeaseExpired", "")
	c.ErrHandled("renew/consul/error-returned", cr, p.CallsRe(`.*api\.\(\*Session\)\.Renew`), p.Writes("consul.Lease.renewedAt"), 1, "a renewal error is returned and does not touch RenewedAt", "")

	// ---- candidate ----
	acq := p.Calls("litefs.Leaser.Acquire")
	c.OnlyInScope("candidate/acquire-callers", []string{"litefs", "http", "fuse", "main"}, acq, []string{pat(al)}, 1, "Leaser.Acquire is called only in acquireLeaseOrPrimaryInfo", "")
	c.GuardedPaths("candidate/only-candidates-acquire", al, acq, [][]*Guard{{GP("p0.candidate", true)}, {GP("(litefs.ErrNoPrimary == litefs.Leaser.PrimaryInfo(p0.Leaser, p1)#1)", true)}}, 1, "Acquire is attempted only by a candidate and only when the leaser reports no primary", "a non-candidate node never tries to acquire a free lease")
	c.OnlyIn("candidate/flag-writers", p.Writes("litefs.Store.candidate"), []string{pat("litefs.NewStore")}, 1, "the candidate flag is set only at construction", "")
	c.GuardedPaths("candidate/loop-retries", ml, p.PlainCalls(mp), [][]*Guard{{GP("("+al+"(p0, p1)#2 == nil)", true), G(`\("" == (phi\(.*\)|litefs\.\(\*Store\)\.monitorLeaseAsReplica\(.*\)#0)\)`, false)}}, 1, "the election loop becomes primary only when acquireLeaseOrPrimaryInfo returned no error (or a handed-off lease id is pending)", "")

	// ---- cluster ----
	c.ErrHandled("cluster/local-id/read-error", "litefs.(*Store).readClusterID", p.PlainCalls("litefs.OS.ReadFile", "litefs.ValidateClusterID"), p.Writes("litefs.Store.clusterID"), 2,
		"the stored cluster id counts as absent only when the file does not exist: any other read error, and an invalid id, is an error", "a node whose clusterid file cannot be read would start with no id, pass every 'different cluster' test, adopt a foreign cluster's id and overwrite its own file")
	c.ErrHandled("cluster/local-id/open-refuses", "litefs.(*Store).Open", p.PlainCalls("litefs.(*Store).readClusterID"), p.PlainCalls("litefs.(*Store).openDatabases"), 1,
		"Store.Open does not go on when the stored cluster id could not be read", "")
	lc := "litefs.Leaser.ClusterID(p0.Leaser, p1)#0"
	sc := "litefs.(*Store).ClusterID(p0)"
	eqC := G(`\(`+pat(lc)+` == `+pat(sc)+`\)|\(`+pat(sc)+` == `+pat(lc)+`\)`, true)
	c.GuardedPaths("cluster/acquire-same-cluster", ml, Any(p.PlainCalls(al), p.Calls("litefs.Leaser.AcquireExisting")), [][]*Guard{
		{GP("(litefs.Leaser.ClusterID(p0.Leaser, p1)#1 == nil)", true)},
		{GP("(\"\" == "+lc+")", true), eqC, GP("(\"\" == "+sc+")", true)},
	}, 2, "a lease is acquired (or taken over) only when the leaser's cluster id could be read and is empty or equal to the node's", "no node becomes primary for a cluster whose cluster ID differs from its own stored ID")
	c.GuardedPaths("cluster/primary-same-cluster", mp, install, [][]*Guard{
		{GP("(litefs.Leaser.ClusterID(p0.Leaser, p1)#1 == nil)", true)},
		{GP("(\"\" == "+lc+")", true), eqC},
	}, 1, "after the lease was acquired the node installs it (becomes primary) only when the leaser's cluster id, read again, is still empty or equals the node's own",
		"F59: the id is compared before the lease is attempted; another cluster's primary can initialise it and go away in between, and the node was primary for a cluster whose id differs from its stored one")
	{
		// with a non-empty leaser id and an empty local id no lease is attempted at all
		fn := c.F(ml)
		key, rule := "cluster/no-local-id-no-acquire", "K4 NoPath (under assumed branch)"
		desc := "with a leaser cluster id set and no local id the node never attempts a lease (it can only join as a replica)"
		if c.need(key, rule, desc, fn, ml) {
			blk := func(e Edge) bool {
				return p.EdgeAsserts(e, GP("(\"\" == "+lc+")", true)) || p.EdgeAsserts(e, GP("(\"\" == "+sc+")", false))
			}
			if f := (&Search{P: p, Fn: fn, Block: blk, Tgt: Any(p.PlainCalls(al), p.Calls("litefs.Leaser.AcquireExisting"), p.PlainCalls(mp))}).Run(); f != nil && !passesBackEdge(f.Trace) {
				c.fail(key, rule, desc, "", "reaches "+c.where(f.Instr)+" via "+p.TraceString(f.Trace), 1)
			} else {
				c.ok(key, rule, desc, 1)
			}
		}
	}
	mr := "litefs.(*Store).monitorLeaseAsReplica"
	stc := "litefs.Stream.ClusterID(litefs.Client.Stream(@@)#0)"
	c.Guarded("cluster/replica-same-cluster", mr, p.PlainCalls("litefs.ReadStreamFrame"), gs(G(`\(`+pat(sc)+` == `+pat(stc)+`\)|\(`+pat(stc)+` == `+pat(sc)+`\)`, true)), 1, "frames are read only from a stream whose cluster id equals the node's", "no node replicates from a cluster whose cluster ID differs from its own")
	c.Guarded("cluster/adopt-only-when-empty", mr, p.PlainCalls("litefs.(*Store).setClusterID"), gs(GP("(\"\" == "+sc+")", true)), 1, "a replica adopts the stream's cluster id only when it has none", "")
	c.ErrHandled("cluster/adopt-error", mr, p.PlainCalls("litefs.(*Store).setClusterID"), p.PlainCalls("litefs.ReadStreamFrame"), 1, "a failed adoption ends the replica session", "")
	c.Guarded("cluster/leaser-id-set-when-empty", mp, p.Calls("litefs.Leaser.SetClusterID"), gs(GP("(\"\" == "+lc+")", true)), 1, "the primary sets the leaser's cluster id only when the leaser has none", "")
	c.Before("cluster/leaser-id-before-primary", mp, install, p.Calls("litefs.Leaser.ClusterID"), 1, "the cluster id is settled before the node marks itself primary", "")
	c.ErrHandled("cluster/set-errors", mp, Any(p.Calls("litefs.Leaser.ClusterID"), p.Calls("litefs.Leaser.SetClusterID"), p.PlainCalls("litefs.(*Store).setClusterID")), install, 3, "any failure to settle the cluster id ends the attempt before the node becomes primary", "")

	// ---- handoff ----
	ho := "litefs.(*Store).Handoff"
	lh := p.Calls("litefs.Lease.Handoff")
	{
		// F52: a renewal is bounded by the time the lease has left, and the Consul lease honours that bound
		mp := "litefs.(*Store).monitorLeaseAsPrimary"
		renew := func(in ssa.Instruction) bool {
			cc := callCommon(in)
			return cc != nil && cc.IsInvoke() && cc.Method.Name() == "Renew" && strings.HasSuffix(p.CalleeName(cc), "litefs.Lease.Renew")
		}
		c.ExpectAll("renew/bounded-by-lease", c.CallArgs(mp, renew, 1), pat("context.WithDeadline(p1, time.(Time).Add(litefs.Lease.RenewedAt(p2), (litefs.Lease.TTL(p2) - @@)))#0")+"|"+pat("context.WithTimeout(p1, @@litefs.Lease.TTL(p2)@@)#0"), 1,
			"the monitor renews under a context whose deadline is derived from the lease's own TTL (last renewal + TTL - margin)",
			"F52: with the monitor's own context a renewal that is never answered blocks the monitor inside Renew: the TTL test is never reached and the node stays primary")
		c.ExpectAll("renew/consul/context-passed", c.CallArgs("consul.(*Lease).Renew", p.PlainCalls("github.com/hashicorp/consul/api.(*Session).Renew"), 2), pat("github.com/hashicorp/consul/api.(*WriteOptions).WithContext(@@, p1)"), 1,
			"the Consul lease passes the caller's context to the session renewal (the API client has no time-out of its own)", "")
		// F53: the wait for the write lock on behalf of a halt request ends with the lease
		c.ExpectAll("halt/acquire-under-primary-context", c.CallArgs("http.(*Server).handlePostHalt", p.PlainCalls("litefs.(*DB).AcquireHaltLock"), 1), pat("litefs.(*Store).PrimaryCtx(p0.store, net/http.(*Request).Context(@@))"), 1,
			"POST /halt waits for the write lock under the primary-lease context", "F53: a node demoted while the request waited still granted the halt lock once the lock became free")
	}
	{
		// the backup stream runs under the primary context: after its batching wait it starts another round
		// only when that context is still alive
		sb := "litefs.(*Store).streamBackup"
		next := p.PlainCalls("litefs.(*ChangeSetSubscriber).DirtySet")
		done := G(`^\(0 == select#0\)$`, true)
		c.Guarded("primary-ctx/backup/next-round-after-select", sb, next, gs(G(`^\(0 == select#0\)$`, false)), 1,
			"the batching wait of the backup stream is a select: the next round's dirty set is taken only on a branch other than the first case", "")
		c.Before("primary-ctx/backup/select-watches-context", sb, next, p.PlainCalls("context.Context.Done"), 1, "... and the select watches the (primary) context", "")
		c.NoPathFromEdge("primary-ctx/backup/no-round-after-context-ended", sb, done, Any(next, p.PlainCalls("litefs.(*Store).streamBackupDB", "litefs.BackupClient.PosMap", "litefs.(*Store).restoreDBFromBackup")), 2,
			"once the context has ended no further round runs: no position map is fetched, no database is pushed or restored", "a node that lost the lease would push to the backup - or restore from it - once more, and the lease is only destroyed after this goroutine has finished")
	}
	c.Guarded("handoff/request/node-id-nonzero", "http.(*Server).handlePostHandoff", p.PlainCalls("litefs.(*Store).Handoff"), gs(G(`^\(0 == litefs\.ParseNodeID\(.*"nodeID"\)\)#0\)$`, false)), 1,
		"the handoff endpoint never asks the store to hand off to node id 0", "F51: a stream opened without a node id is recorded as node 0; a handoff to it gives the lease to a client that cannot take it and demotes the primary")
	c.ExpectAll("handoff/same-node", c.CallArgs(ho, lh, 2), "p2", 1, "the node handed to is the requested one", "")
	{
		cl := c.anonWith(ho, p.Calls("litefs.(*Store).changeSetSubscriberByNodeID"))
		if cl == "" {
			c.fail("handoff/validated", "K2", "Store.Handoff validates lease and target inside a closure under Store.mu", "", "no closure of Handoff looks up the subscriber", 0)
		} else {
			c.ExpectAll("handoff/target-lookup", c.CallArgs(cl, p.Calls("litefs.(*Store).changeSetSubscriberByNodeID"), 1), "p2", 1, "the subscriber looked up is the requested node", "a handoff transfers the lease only to the requested, currently connected replica")
			c.GuardedPaths("handoff/validated", cl, func(in ssa.Instruction) bool {
				r, ok := in.(*ssa.Return)
				return ok && p.Render(returnedValue(r, 0)) == "nil" && !(r.Block().Index != 0 && len(r.Block().Preds) == 0)
			}, [][]*Guard{{GP("(nil == p0.lease)", false)}, {GP("(litefs.(*Store).changeSetSubscriberByNodeID(p0, p2) == nil)", false)}}, 1, "the validation succeeds only when a lease is held and the target is connected", "")
			c.Before("handoff/under-mutex", cl, p.Calls("litefs.(*Store).changeSetSubscriberByNodeID"), p.PlainCalls("sync.(*Mutex).Lock"), 1, "lease and subscriber are examined under Store.mu", "")
			c.Guarded("handoff/only-after-validation", ho, lh, gs(G(`\(litefs\.\(\*Store\)\.Handoff\$1\(.*\) == nil\)|\(nil == litefs\.\(\*Store\)\.Handoff\$1\(.*\)\)|\(.*\$\d+\(.*\) == nil\)`, true)), 1, "lease.Handoff is called only when the validation returned nil", "")
		}
	}
	lk := "litefs.(*Store).changeSetSubscriberByNodeID"
	c.GuardedPaths("handoff/lookup-exact", lk, func(in ssa.Instruction) bool {
		r, ok := in.(*ssa.Return)
		return ok && len(r.Results) == 1 && p.Render(returnedValue(r, 0)) != "nil" && !(r.Block().Index != 0 && len(r.Block().Preds) == 0)
	}, [][]*Guard{{G(`\(litefs\.\(\*ChangeSetSubscriber\)\.NodeID\(.*\) == p1\)|\(p1 == litefs\.\(\*ChangeSetSubscriber\)\.NodeID\(.*\)\)`, true)}}, 1,
		"the subscriber lookup returns a subscriber only when its node id equals the requested one (nil otherwise)", "a handoff transfers the lease only to the requested, currently connected replica: a lookup that falls back to 'some subscriber' hands the lease to the wrong node")
	ph := "litefs.(*Store).processHandoff"
	send := func(in ssa.Instruction) bool { _, ok := in.(*ssa.Select); return ok }
	c.Guarded("handoff/process/still-connected", ph, send, gs(GP("(litefs.(*Store).SubscriberByNodeID(p0, p2) == nil)", false)), 1, "the lease id is sent only when the target is still connected", "")
	c.Guarded("handoff/process/renewed", ph, send, gs(GP("(litefs.Lease.Renew(p3, p1) == nil)", true)), 1, "... and only after a final successful renewal", "handing off a lease that is already gone makes the target primary without a lease")
	{
		var got []string
		for _, in := range Instrs(c.F(ph), send) {
			for _, st := range in.(*ssa.Select).States {
				if st.Send != nil {
					got = append(got, p.Render(st.Chan)+" <- "+p.Render(st.Send))
				}
			}
		}
		c.ExpectAll("handoff/process/sends-lease-id", got, pat("litefs.(*ChangeSetSubscriber).HandoffCh(litefs.(*Store).SubscriberByNodeID(p0, p2)) <- litefs.Lease.ID(p3)"), 1, "the id sent is this lease's, on the requested node's subscription", "")
	}
	c.ExpectAll("handoff/process/args", c.CallArgs(mp, p.PlainCalls(ph), 2), pat("select#@@"), 1, "the node processed is the one received on the lease's handoff channel", "")
	c.ExpectAll("handoff/existing-id-origin", c.CallArgs(ml, p.Calls("litefs.Leaser.AcquireExisting"), 2), pat("phi(@@litefs.(*Store).monitorLeaseAsReplica(p0, p1, @@)#0@@)"), 1, "AcquireExisting is called only with the lease id the replica session returned (from a handoff frame)", "")
	c.Expect("handoff/frame-origin", joinS(c.returnsMatchingIdx(mr, 0)), pat("\"\";litefs.ReadStreamFrame(@@)#0.(*litefs.HandoffStreamFrame)#0.LeaseID"), "the only non-empty lease id monitorLeaseAsReplica returns is the one in a HandoffStreamFrame", "")

	// ---- recover ----
	rec := p.PlainCalls("litefs.(*Store).Recover")
	c.After("recover/after-primary", ml, p.PlainCalls(mp), rec, Any(p.PlainCalls(al), p.Calls("litefs.Leaser.ClusterID"), IsReturn), 1, "after the primary role ends, Store.Recover runs before the next election round", "role-change recovery: pending journal/WAL state of the old role must not survive into the new one")
	c.After("recover/after-replica", ml, p.PlainCalls(mr), rec, Any(p.PlainCalls(al), p.Calls("litefs.Leaser.ClusterID"), IsReturn), 1, "after a replica session ends, Store.Recover runs before the next election round", "")

	// ---- the replication stream is primary-scoped ----
	hs := "http.(*Server).handlePostStream"
	{
		var dones []string
		for _, in := range Instrs(c.F(hs), p.Calls("context.Context.Done")) {
			dones = append(dones, c.argR(in, 0))
		}
		c.ExpectAll("stream/wait-on-primary-ctx", dones, pat("p0.ctx")+"|"+pat("@@litefs.(*Store).PrimaryCtx(p0.store, @@)@@"), 2, "the stream's wait loop watches only the server context and the primary-scoped request context", "a stream that is already open must end when the node loses its lease: watching the plain request context keeps the ex-primary streaming")
		c.ExpectAll("stream/streamDB-primary-ctx", c.CallArgs(hs, p.PlainCalls("http.(*Server).streamDB"), 1), pat("@@litefs.(*Store).PrimaryCtx(p0.store, @@)@@"), 1, "databases are streamed under the primary-scoped context", "")
		c.Guarded("stream/refused-when-not-primary", hs, p.PlainCalls("litefs.(*Store).SubscribeChangeSet"), gs(G(`\(nil == context\.Context\.Err\(.*PrimaryCtx.*\)\)|\(context\.Context\.Err\(.*PrimaryCtx.*\) == nil\)`, true)), 1, "a stream is accepted only while the primary-scoped context is live", "serves the replication stream only between acquiring a lease and losing it")
	}

	// ---- consul mapping ----
	ca := "consul.(*Leaser).Acquire"
	kvAcq := p.CallsRe(`.*api\.\(\*KV\)\.Acquire`)
	c.Before("consul/session-before-lock", ca, kvAcq, p.CallsRe(`.*api\.\(\*Session\)\.CreateNoChecks`), 1, "Acquire creates a session, then locks the key with it", "")
	c.EdgeReturns("consul/not-acquired", ca, G(`.*api\.\(\*KV\)\.Acquire\(.*\)#0`, false), pat("litefs.ErrPrimaryExists"), 1, "a lock that was not obtained is reported as ErrPrimaryExists", "")
	{
		cl := c.anonWith(ca, p.Calls("consul.(*Lease).Close"))
		if cl == "" {
			c.fail("consul/session-closed-on-failure", "K3 (deferred)", "a failed Acquire closes the session it created", "a leaked session holds nothing but lives for a TTL; with Behavior=delete a later lock under it would vanish", "no closure of Acquire closes the lease", 0)
		} else {
			c.Guarded("consul/session-closed-on-failure", cl, p.Calls("consul.(*Lease).Close"), gs(G(`\(nil == .*\)|\(.* == nil\)`, false)), 1, "the deferred clean-up of Acquire closes the session exactly when an error is returned", "")
			c.Before("consul/cleanup-registered", ca, kvAcq, func(in ssa.Instruction) bool {
				d, ok := in.(*ssa.Defer)
				return ok && p.FuncName(p.calleeFunc(d)) == cl
			}, 1, "the clean-up is registered before the lock attempt", "")
		}
	}
	cc := "consul.(*Lease).Close"
	c.Before("consul/close-release-then-destroy", cc, p.CallsRe(`.*api\.\(\*Session\)\.Destroy`), p.CallsRe(`.*api\.\(\*KV\)\.(Release|Delete|DeleteCAS)`), 1, "Lease.Close releases the key, then destroys the session", "")
	c.Before("consul/close-always-destroys", cc, IsReturn, p.CallsRe(`.*api\.\(\*Session\)\.Destroy`), 1, "every exit of Lease.Close has attempted to destroy the session (a failed key release does not skip it)", "destroys the lease: a surviving session keeps the lock and the stale primary info until the TTL runs out")
	{
		n := len(Instrs(c.F(cc), p.CallsRe(`.*api\.\(\*Session\)\.Destroy`)))
		if n == 0 {
			c.fail("consul/close-destroys", "K5", "Lease.Close destroys the Consul session", "destroys the lease", "no Session.Destroy call in Lease.Close", 0)
		} else {
			c.ok("consul/close-destroys", "K5", "Lease.Close destroys the Consul session", n)
		}
	}
	cp := "consul.(*Leaser).PrimaryInfo"
	c.GuardedPaths("consul/no-key-no-primary", cp, func(in ssa.Instruction) bool {
		r, ok := in.(*ssa.Return)
		return ok && p.Render(returnedValue(r, 1)) == "litefs.ErrNoPrimary"
	}, [][]*Guard{{G(`\(nil == .*\)|\(0 == builtin\.len\(.*\)\)|\(.* == nil\)`, true)}}, 1, "a missing or empty key is reported as ErrNoPrimary", "")
	c.Guarded("consul/primary-info-decoded", cp, p.SuccessReturn, gs(G(`\(encoding/json\.Unmarshal\(.*\) == nil\)|\(nil == encoding/json\.Unmarshal\(.*\)\)`, true)), 1, "primary info is returned only when it decoded", "")
	cs := "consul.(*Leaser).SetClusterID"
	c.Guarded("consul/cluster-id-once", cs, p.CallsRe(`.*api\.\(\*KV\)\.Put`), gs(GP("(\"\" == consul.(*Leaser).ClusterID(p0, p1)#0)", true)), 1, "the cluster id is written only when none exists", "the cluster ID can only be set once")
	c.ErrHandled("consul/cluster-id-read-error", cs, p.PlainCalls("consul.(*Leaser).ClusterID"), p.CallsRe(`.*api\.\(\*KV\)\.Put`), 1, "a failed read never overwrites", "")
	{
		// the blocking send on handoffCh is the only proof that the target's stream handler took the lease id
		fn := c.F("litefs.newChangeSetSubscriber")
		d := "ChangeSetSubscriber.handoffCh is created unbuffered"
		got := ""
		if fn != nil {
			for _, b := range fn.Blocks {
				for _, in := range b.Instrs {
					st, ok := in.(*ssa.Store)
					if !ok {
						continue
					}
					fa, ok := st.Addr.(*ssa.FieldAddr)
					if !ok || fieldName(fa.X.Type(), fa.Field) != "handoffCh" {
						continue
					}
					if mc, ok := st.Val.(*ssa.MakeChan); ok {
						got = "make(chan, " + p.Render(mc.Size) + ")"
					} else {
						got = p.Render(st.Val)
					}
				}
			}
		}
		c.Expect("handoff/channel-unbuffered", got, pat("make(chan, 0)"), d, "with a buffer the send succeeds although nobody receives: the primary gives up the lease to a replica that never got the id, and neither destroys nor hands off the lease")
		c.OnlyIn("handoff/channel-writers", p.Writes("litefs.ChangeSetSubscriber.handoffCh"), []string{pat("litefs.newChangeSetSubscriber")}, 1, "the channel is only ever set at construction", "")
	}
	cx := "consul.(*Leaser).AcquireExisting"
	for _, f := range []struct{ fn, short string }{{ca, "acquire"}, {cx, "existing"}} {
		c.Guarded("consul/"+f.short+"/lease-only-when-locked", f.fn, p.SuccessReturn, gs(G(`.*api\.\(\*KV\)\.Acquire\(.*\)#0`, true)), 1, f.short+": a lease is returned only when Consul answered that the key is locked by this session", "a node that treats 'not acquired' as success becomes primary while Consul names another")
	}
	c.EdgeReturns("consul/existing-not-acquired", cx, G(`.*api\.\(\*KV\)\.Acquire\(.*\)#0`, false), pat("litefs.ErrPrimaryExists"), 1, "a handed-off lock that could not be re-taken is reported as ErrPrimaryExists", "")
	c.Before("consul/existing-renewed-first", cx, kvAcq, p.PlainCalls("consul.(*Lease).Renew"), 1, "a handed-off session is renewed (proving it is alive) before the key is re-locked", "")
	c.ErrHandled("consul/existing-renew-error", cx, p.PlainCalls("consul.(*Lease).Renew"), kvAcq, 1, "a dead session is not re-locked", "")
	_ = fmt.Sprint
}

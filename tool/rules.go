package main

// Rule kinds K7 (error discipline) and helpers shared by property files.

import (
	"fmt"
	"go/token"
	"go/types"
	"regexp"
	"sort"
	"strings"

	"golang.org/x/tools/go/ssa"
)

// pat converts a literal pattern with "@@" wildcards into a regexp source.
func pat(s string) string {
	parts := strings.Split(s, "@@")
	for i, p := range parts {
		parts[i] = regexp.QuoteMeta(p)
	}
	return strings.Join(parts, ".*")
}

// GP is G(pat(s), val).
func GP(s string, val bool) *Guard { return G(pat(s), val) }

// errValue returns the error-typed result of a call: the call value itself or
// the Extract of the last tuple component; nil when the result is not bound.
func errValue(call *ssa.Call) (ssa.Value, bool) {
	sig := call.Call.Signature()
	n := sig.Results().Len()
	if n == 0 || !isErrorType(sig.Results().At(n-1).Type()) {
		return nil, false
	}
	if n == 1 {
		return call, true
	}
	if call.Referrers() == nil {
		return nil, true
	}
	for _, r := range *call.Referrers() {
		if ex, ok := r.(*ssa.Extract); ok && ex.Index == n-1 {
			return ex, true
		}
	}
	return nil, true
}

// errAliases returns the local cells the error value is stored into.
func errAliases(e ssa.Value) map[ssa.Value]bool {
	al := map[ssa.Value]bool{}
	if e.Referrers() == nil {
		return al
	}
	for _, r := range *e.Referrers() {
		if st, ok := r.(*ssa.Store); ok && st.Val == e {
			switch st.Addr.(type) {
			case *ssa.Alloc, *ssa.FreeVar:
				al[st.Addr] = true
			}
		}
	}
	return al
}

type errCtx struct {
	e  ssa.Value
	al map[ssa.Value]bool
}

// loadSeesStore reports whether the load u of an alias cell reads the value
// stored from e: the store of e precedes it in the same block with no other
// store to the cell in between.
func (x *errCtx) loadSeesStore(u *ssa.UnOp) bool {
	b := u.Block()
	if b == nil {
		return false
	}
	seen := false
	for _, in := range b.Instrs {
		if in == ssa.Instruction(u) {
			return seen
		}
		if st, ok := in.(*ssa.Store); ok && st.Addr == u.X {
			seen = st.Val == x.e
		}
	}
	return false
}

func (x *errCtx) is(v ssa.Value) bool {
	v = stripIface(v)
	if v == x.e {
		return true
	}
	if u, ok := v.(*ssa.UnOp); ok && u.Op == token.MUL && x.al[u.X] {
		return x.loadSeesStore(u)
	}
	if ph, ok := v.(*ssa.Phi); ok {
		for _, ed := range ph.Edges {
			if x.is(ed) {
				return true
			}
		}
	}
	return false
}

func isNilConst(v ssa.Value) bool {
	c, ok := v.(*ssa.Const)
	return ok && c.Value == nil
}

// edgeKind classifies an If edge with respect to error value x:
// 1 = nil edge (error absent), 2 = handled edge (sentinel / IsNotExist /
// errors.Is / errors.As true), 0 = other.
func (p *Prog) errEdgeKind(e Edge, x *errCtx) int {
	if len(e.From.Instrs) == 0 {
		return 0
	}
	iff, ok := e.From.Instrs[len(e.From.Instrs)-1].(*ssa.If)
	if !ok {
		return 0
	}
	cond := iff.Cond
	taken := e.Succ == 0
	for {
		u, ok := cond.(*ssa.UnOp)
		if !ok || u.Op != token.NOT {
			break
		}
		cond = u.X
		taken = !taken
	}
	switch c := cond.(type) {
	case *ssa.BinOp:
		if c.Op != token.EQL && c.Op != token.NEQ {
			return 0
		}
		eq := (c.Op == token.EQL) == taken // edge asserts equality
		var other ssa.Value
		switch {
		case x.is(c.X):
			other = c.Y
		case x.is(c.Y):
			other = c.X
		default:
			return 0
		}
		if isNilConst(other) {
			if eq {
				return 1
			}
			return 0
		}
		if eq {
			return 2 // equal to a sentinel value: handled marker
		}
	case *ssa.Call:
		switch p.CalleeName(&c.Call) {
		case "os.IsNotExist", "errors.Is", "errors.As":
			if len(c.Call.Args) > 0 && x.is(c.Call.Args[0]) && taken {
				return 2
			}
		}
	}
	return 0
}

// ErrHandled (K7): for every plain call in fname matching m whose last result
// is an error, the error is bound and every path on which it is non-nil and
// not a tolerated marker reaches a failure exit without passing an
// instruction matching forbid (the publish point) and without reaching a
// success exit.
func (c *Ctx) ErrHandled(key, fname string, m IM, forbid IM, min int, desc, why string) {
	c.errHandled(key, fname, m, forbid, min, desc, why, false)
}

// ErrStops (K7, handlers without an error result): on every path on which the
// error is non-nil no instruction matching forbid is reached; plain returns
// are fine (the handler has answered).
func (c *Ctx) ErrStops(key, fname string, m IM, forbid IM, min int, desc, why string) {
	c.errHandled(key, fname, m, forbid, min, desc, why, true)
}

// ErrStrict (K7): like ErrHandled, but no sentinel / IsNotExist / errors.Is
// branch counts as handling: only the nil edge ends the tracking.
func (c *Ctx) ErrStrict(key, fname string, m IM, forbid IM, min int, desc, why string) {
	c.strictErr = true
	defer func() { c.strictErr = false }()
	c.errHandled(key, fname, m, forbid, min, desc, why, false)
}

func (c *Ctx) errHandled(key, fname string, m IM, forbid IM, min int, desc, why string, stopsOnly bool) {
	rule := "K7 ErrHandled"
	fn := c.F(fname)
	if !c.need(key, rule, desc, fn, fname) {
		return
	}
	n := 0
	for _, in := range Instrs(fn, m) {
		call, ok := in.(*ssa.Call)
		if !ok {
			continue
		}
		e, isErr := errValue(call)
		if !isErr {
			continue
		}
		n++
		if e == nil {
			c.fail(key, rule, desc, why, fmt.Sprintf("error result of %s at %s is discarded", c.P.CalleeName(&call.Call), c.where(call)), n)
			return
		}
		x := &errCtx{e: e, al: errAliases(e)}
		strict := c.strictErr
		block := func(ed Edge) bool {
			k := c.P.errEdgeKind(ed, x)
			if strict {
				return k == 1
			}
			return k != 0
		}
		tgt := func(i ssa.Instruction) bool {
			if forbid != nil && forbid(i) {
				return true
			}
			r, ok := i.(*ssa.Return)
			if !ok || stopsOnly {
				return false
			}
			if c.P.ClassifyReturn(r) == retFailure {
				return false
			}
			// propagated: the returned error is this error
			res := r.Parent().Signature.Results()
			if res.Len() > 0 && isErrorType(res.At(res.Len()-1).Type()) {
				if x.is(returnedValue(r, res.Len()-1)) {
					return false
				}
			}
			return true
		}
		// a store of another value into an alias cell ends the tracking of e
		avoid := func(i ssa.Instruction) bool {
			if st, ok := i.(*ssa.Store); ok && x.al[st.Addr] && st.Val != e {
				return false
			}
			return false
		}
		s := &Search{P: c.P, Fn: fn, From: []ssa.Instruction{call}, Avoid: avoid, Block: block, Tgt: tgt}
		if f := s.Run(); f != nil {
			c.fail(key, rule, desc, why, fmt.Sprintf("error of %s at %s can be non-nil on a path that reaches %s (not a failure exit); path %s", c.P.CalleeName(&call.Call), c.where(call), c.where(f.Instr), c.P.TraceString(f.Trace)), n)
			return
		}
	}
	if n < min {
		c.fail(key, rule, desc, why, fmt.Sprintf("only %d error-returning call(s) matched in %s, expected >= %d", n, fname, min), n)
		return
	}
	c.ok(key, rule, desc, n)
}

// callVals returns receiver+args of a call instruction.
func callVals(in ssa.Instruction) []ssa.Value {
	cc := callCommon(in)
	if cc == nil {
		return nil
	}
	if cc.IsInvoke() {
		return append([]ssa.Value{cc.Value}, cc.Args...)
	}
	return cc.Args
}

// argR renders argument i of a call instruction ("" if absent).
func (c *Ctx) argR(in ssa.Instruction, i int) string {
	v := callVals(in)
	if i >= len(v) {
		return ""
	}
	return c.P.Render(v[i])
}

// typeIs reports whether t is the named type pkg.Name (pointer stripped).
func typeIs(t types.Type, short string) bool { return typeStr(deref(t)) == short }

// discardedErrors lists every call in the given packages (short names) whose
// error result is dropped: never extracted, or extracted and never used, or the
// call is deferred / started as a goroutine. Keyed "caller -> callee".
func (c *Ctx) discardedErrors(pkgs []string) map[string][]ssa.Instruction {
	p := c.P
	out := map[string][]ssa.Instruction{}
	used := func(v ssa.Value) bool {
		if v.Referrers() == nil {
			return false
		}
		for _, r := range *v.Referrers() {
			if _, dbg := r.(*ssa.DebugRef); !dbg {
				return true
			}
		}
		return false
	}
	for _, fn := range p.SrcFuncs() {
		if !c.inScope(fn, pkgs) {
			continue
		}
		for _, b := range fn.Blocks {
			for _, in := range b.Instrs {
				cc := callCommon(in)
				if cc == nil {
					continue
				}
				sig := cc.Signature()
				if sig == nil {
					continue
				}
				res := sig.Results()
				idx := -1
				for i := 0; i < res.Len(); i++ {
					if isErrorType(res.At(i).Type()) {
						idx = i
					}
				}
				if idx < 0 {
					continue
				}
				dropped := false
				switch x := in.(type) {
				case *ssa.Defer, *ssa.Go:
					dropped = true
				case *ssa.Call:
					if res.Len() == 1 {
						dropped = !used(x)
					} else {
						dropped = true
						if x.Referrers() != nil {
							for _, r := range *x.Referrers() {
								if e, ok := r.(*ssa.Extract); ok && e.Index == idx && used(e) {
									dropped = false
								}
							}
						}
					}
				}
				if dropped {
					k := p.FuncName(topFunc(fn)) + " -> " + p.CalleeName(cc)
					out[k] = append(out[k], in)
				}
			}
		}
	}
	return out
}

// NoDiscardedErrors (K7, repository-wide): an error result is dropped only at
// the confirmed (caller -> callee) pairs of the table.
func (c *Ctx) NoDiscardedErrors(key string, pkgs []string, allowed map[string]string, min int) {
	rule := "K7 no discarded error (whole packages, frozen exception table)"
	desc := "in packages " + strings.Join(pkgs, ", ") + " an error result is dropped only at the confirmed caller/callee pairs (close of a read handle, removal of a temp file, best-effort notifications)"
	why := "an error that is dropped on a storage, replication or lease call lets the operation report success although the step it depends on did not happen"
	got := c.discardedErrors(pkgs)
	n := 0
	var bad []string
	for k, ins := range got {
		n += len(ins)
		if _, ok := allowed[k]; !ok {
			bad = append(bad, k+" at "+c.where(ins[0]))
		}
	}
	sort.Strings(bad)
	if len(bad) > 0 {
		c.fail(key, rule, desc, why, "error dropped at a pair that is not in the table: "+strings.Join(bad, "; "), n)
		return
	}
	if n < min {
		c.fail(key, rule, desc, why, fmt.Sprintf("only %d dropped-error site(s) recognised, expected >= %d (matcher no longer recognises the construct)", n, min), n)
		return
	}
	c.ok(key, rule, desc, n)
}

package main

// Origin rendering (rule kind K6): every SSA value is rendered to a canonical,
// position-free, local-name-free expression over parameters (p0, p1, ...),
// fields, constants, calls and operators. Loads of local cells are resolved by
// a backward reaching-stores search, so the rendering is flow-sensitive for
// locals and symbolic for heap fields (p0.wal.offset).

import (
	"fmt"
	"go/constant"
	"go/token"
	"go/types"
	"sort"
	"strings"

	"golang.org/x/tools/go/ssa"
)

const maxRenderDepth = 48

type renderer struct {
	p      *Prog
	active map[ssa.Value]bool
	memo   map[ssa.Value]string
	env    map[*ssa.Phi]ssa.Value // per-path phi resolution (nil: none)
	cells  []cellEntry            // per-path log of stores to local cells (latest last)
}

// cellEntry records a store to a local cell along a path; v == nil means the
// cell escaped into a call and its contents are unknown from here on.
type cellEntry struct {
	l loc
	v ssa.Value
}

// Render renders the origin of v.
func (p *Prog) Render(v ssa.Value) string {
	r := &renderer{p: p, active: map[ssa.Value]bool{}, memo: map[ssa.Value]string{}}
	return r.val(v, 0)
}

func (r *renderer) val(v ssa.Value, d int) string {
	if v == nil {
		return "nil"
	}
	if d > maxRenderDepth {
		return "…"
	}
	if s, ok := r.memo[v]; ok {
		return s
	}
	if r.active[v] {
		return "↺"
	}
	r.active[v] = true
	s := r.val1(v, d)
	delete(r.active, v)
	if !strings.Contains(s, "↺") && r.env == nil {
		r.memo[v] = s
	}
	return s
}

func constStr(c *ssa.Const) string {
	if c.Value == nil {
		if _, ok := c.Type().Underlying().(*types.Struct); ok {
			return "zero"
		}
		return "nil"
	}
	if c.Value.Kind() == constant.String {
		return fmt.Sprintf("%q", constant.StringVal(c.Value))
	}
	return c.Value.ExactString()
}

func paramIndex(v *ssa.Parameter) int {
	for i, q := range v.Parent().Params {
		if q == v {
			return i
		}
	}
	return -1
}

func (r *renderer) val1(v ssa.Value, d int) string {
	switch v := v.(type) {
	case *ssa.Const:
		return constStr(v)
	case *ssa.Parameter:
		return fmt.Sprintf("p%d", paramIndex(v))
	case *ssa.FreeVar:
		if b := freeVarBinding(v); b != nil {
			return r.val(b, d+1)
		}
		return "fv"
	case *ssa.Alloc:
		return "&new(" + typeStr(deref(v.Type())) + ")"
	case *ssa.Global:
		return "&" + globalName(v)
	case *ssa.Function:
		return r.p.FuncName(v)
	case *ssa.Builtin:
		return "builtin." + v.Name()
	case *ssa.FieldAddr:
		return "&" + r.lvalue(v, d)
	case *ssa.IndexAddr:
		return "&" + r.lvalue(v, d)
	case *ssa.Field:
		return r.val(v.X, d+1) + "." + fieldName(v.X.Type(), v.Field)
	case *ssa.Index:
		return r.val(v.X, d+1) + "[" + r.val(v.Index, d+1) + "]"
	case *ssa.Lookup:
		s := r.val(v.X, d+1) + "[" + r.val(v.Index, d+1) + "]"
		return s
	case *ssa.UnOp:
		switch v.Op {
		case token.MUL:
			return r.load(v, d)
		case token.NOT:
			return "!" + r.val(v.X, d+1)
		case token.ARROW:
			return "<-" + r.val(v.X, d+1)
		default:
			return v.Op.String() + r.val(v.X, d+1)
		}
	case *ssa.BinOp:
		return "(" + r.val(v.X, d+1) + " " + v.Op.String() + " " + r.val(v.Y, d+1) + ")"
	case *ssa.Call:
		return r.call(&v.Call, d)
	case *ssa.Extract:
		if nx, ok := v.Tuple.(*ssa.Next); ok {
			if rg, ok := nx.Iter.(*ssa.Range); ok {
				switch v.Index {
				case 1:
					return "rangekey(" + r.val(rg.X, d+1) + ")"
				case 2:
					return "rangeval(" + r.val(rg.X, d+1) + ")"
				}
				return "rangeok(" + r.val(rg.X, d+1) + ")"
			}
		}
		return r.val(v.Tuple, d+1) + "#" + fmt.Sprint(v.Index)
	case *ssa.Phi:
		if r.env != nil {
			if e, ok := r.env[v]; ok {
				return r.val(e, d+1)
			}
		}
		set := map[string]bool{}
		for _, e := range v.Edges {
			set[r.val(e, d+1)] = true
		}
		delete(set, "↺")
		return "phi(" + joinSet(set) + ")"
	case *ssa.Convert:
		return r.val(v.X, d)
	case *ssa.ChangeType:
		return r.val(v.X, d)
	case *ssa.ChangeInterface:
		return r.val(v.X, d)
	case *ssa.MakeInterface:
		return r.val(v.X, d)
	case *ssa.SliceToArrayPointer:
		return r.val(v.X, d)
	case *ssa.Slice:
		if al, ok := v.X.(*ssa.Alloc); ok && v.Low == nil && v.High == nil {
			if at, ok := deref(al.Type()).Underlying().(*types.Array); ok && at.Len() <= 16 {
				elems := make([]string, at.Len())
				for i := range elems {
					elems[i] = "_"
				}
				if al.Referrers() != nil {
					for _, ref := range *al.Referrers() {
						ia, ok := ref.(*ssa.IndexAddr)
						if !ok || ia.Referrers() == nil {
							continue
						}
						k, ok := ia.Index.(*ssa.Const)
						if !ok || k.Value == nil {
							continue
						}
						idx := int(k.Int64())
						for _, r2 := range *ia.Referrers() {
							if st, ok := r2.(*ssa.Store); ok && st.Addr == ssa.Value(ia) && idx < len(elems) {
								elems[idx] = r.val(st.Val, d+1)
							}
						}
					}
				}
				return "[" + strings.Join(elems, ", ") + "]"
			}
		}
		lo, hi := "", ""
		if v.Low != nil {
			lo = r.val(v.Low, d+1)
		}
		if v.High != nil {
			hi = r.val(v.High, d+1)
		}
		x := r.val(v.X, d+1)
		x = strings.TrimPrefix(x, "&")
		return x + "[" + lo + ":" + hi + "]"
	case *ssa.MakeSlice:
		return "make(" + typeStr(v.Type()) + ", " + r.val(v.Len, d+1) + ")"
	case *ssa.MakeMap:
		if v.Reserve != nil {
			return "make(" + typeStr(v.Type()) + ", " + r.val(v.Reserve, d+1) + ")"
		}
		return "make(" + typeStr(v.Type()) + ")"
	case *ssa.MakeChan:
		return "make(" + typeStr(v.Type()) + ")"
	case *ssa.MakeClosure:
		return "closure(" + r.p.FuncName(v.Fn.(*ssa.Function)) + ")"
	case *ssa.TypeAssert:
		return r.val(v.X, d+1) + ".(" + typeStr(v.AssertedType) + ")"
	case *ssa.Next:
		return "next(" + r.val(v.Iter, d+1) + ")"
	case *ssa.Range:
		return "range(" + r.val(v.X, d+1) + ")"
	case *ssa.Select:
		return "select"
	}
	return fmt.Sprintf("?%T", v)
}

func joinSet(set map[string]bool) string {
	var a []string
	for k := range set {
		a = append(a, k)
	}
	sort.Strings(a)
	return strings.Join(a, "|")
}

func deref(t types.Type) types.Type {
	if p, ok := t.Underlying().(*types.Pointer); ok {
		return p.Elem()
	}
	return t
}

func globalName(g *ssa.Global) string {
	if g.Pkg != nil && g.Pkg.Pkg != nil {
		return shortPkg(g.Pkg.Pkg.Path()) + "." + g.Name()
	}
	return g.Name()
}

func fieldName(t types.Type, i int) string {
	t = deref(t)
	if st, ok := t.Underlying().(*types.Struct); ok && i < st.NumFields() {
		return st.Field(i).Name()
	}
	return fmt.Sprintf("f%d", i)
}

// freeVarBinding finds the value bound to a free variable at the (unique)
// MakeClosure site of its function.
func freeVarBinding(fv *ssa.FreeVar) ssa.Value {
	fn := fv.Parent()
	parent := fn.Parent()
	if parent == nil {
		return nil
	}
	idx := -1
	for i, f := range fn.FreeVars {
		if f == fv {
			idx = i
		}
	}
	if idx < 0 {
		return nil
	}
	for _, b := range parent.Blocks {
		for _, in := range b.Instrs {
			if mc, ok := in.(*ssa.MakeClosure); ok && mc.Fn == fn && idx < len(mc.Bindings) {
				return mc.Bindings[idx]
			}
		}
	}
	return nil
}

// lvalue renders an address expression without the leading '&'.
func (r *renderer) lvalue(a ssa.Value, d int) string {
	switch a := a.(type) {
	case *ssa.FieldAddr:
		return r.lbase(a.X, d) + "." + fieldName(a.X.Type(), a.Field)
	case *ssa.IndexAddr:
		return r.lbase(a.X, d) + "[" + r.val(a.Index, d+1) + "]"
	case *ssa.Global:
		return globalName(a)
	}
	s := r.val(a, d+1)
	if strings.HasPrefix(s, "&") {
		return s[1:]
	}
	return "*" + s
}

func (r *renderer) lbase(x ssa.Value, d int) string {
	switch x := x.(type) {
	case *ssa.FieldAddr, *ssa.IndexAddr, *ssa.Global:
		return r.lvalue(x, d)
	}
	s := r.val(x, d+1)
	return strings.TrimPrefix(s, "&")
}

func (r *renderer) call(c *ssa.CallCommon, d int) string {
	name := r.p.CalleeName(c)
	var args []string
	if c.IsInvoke() {
		args = append(args, r.val(c.Value, d+1))
	}
	for _, a := range c.Args {
		args = append(args, r.val(a, d+1))
	}
	return name + "(" + strings.Join(args, ", ") + ")"
}

// CalleeName names the callee of a call: the short function name for static
// calls, "Iface.Method" for interface calls, "dyn:Struct.field" for calls of a
// function-valued field, "builtin.x" for builtins and "dyn" otherwise.
func (p *Prog) CalleeName(c *ssa.CallCommon) string {
	if c.IsInvoke() {
		return typeStr(c.Value.Type()) + "." + c.Method.Name()
	}
	if fn := c.StaticCallee(); fn != nil {
		if fn.Parent() != nil || fn.Object() == nil {
			if fn.Pkg != nil && strings.HasPrefix(fn.Pkg.Pkg.Path(), modPath) {
				return p.FuncName(fn)
			}
			if fn.Object() == nil {
				// instantiated generic or synthetic: use origin
				if o := fn.Origin(); o != nil && o.Object() != nil {
					return objFuncName(o.Object(), o)
				}
				return fn.String()
			}
		}
		return objFuncName(fn.Object(), fn)
	}
	switch v := c.Value.(type) {
	case *ssa.Builtin:
		return "builtin." + v.Name()
	case *ssa.MakeClosure:
		return p.FuncName(v.Fn.(*ssa.Function))
	case *ssa.UnOp:
		if fa, ok := v.X.(*ssa.FieldAddr); ok && v.Op == token.MUL {
			return "dyn:" + fieldPathOf(fa)
		}
	}
	return "dyn"
}

// fieldPathOf names a field by its owning named struct and path, e.g.
// "litefs.DB.wal.offset".
func fieldPathOf(fa *ssa.FieldAddr) string {
	name := fieldName(fa.X.Type(), fa.Field)
	t := deref(fa.X.Type())
	if nt, ok := t.(*types.Named); ok {
		pk := ""
		if nt.Obj().Pkg() != nil {
			pk = shortPkg(nt.Obj().Pkg().Path()) + "."
		}
		return pk + nt.Obj().Name() + "." + name
	}
	if inner, ok := fa.X.(*ssa.FieldAddr); ok {
		return fieldPathOf(inner) + "." + name
	}
	return typeStr(t) + "." + name
}

// ---- loads and reaching stores ----

// loc is a memory location rooted at a local cell.
type loc struct {
	base *ssa.Alloc
	path []int
}

// addrLoc decomposes an address into (local cell, field path); ok=false when
// the address is not rooted at a local cell through FieldAddr only.
func addrLoc(a ssa.Value) (loc, bool) {
	var path []int
	for {
		switch x := a.(type) {
		case *ssa.Alloc:
			// reverse path
			for i, j := 0, len(path)-1; i < j; i, j = i+1, j-1 {
				path[i], path[j] = path[j], path[i]
			}
			return loc{x, path}, true
		case *ssa.FieldAddr:
			path = append(path, x.Field)
			a = x.X
		case *ssa.FreeVar:
			b := freeVarBinding(x)
			if b == nil {
				return loc{}, false
			}
			a = b
		default:
			return loc{}, false
		}
	}
}

func isPrefix(a, b []int) bool {
	if len(a) > len(b) {
		return false
	}
	for i := range a {
		if a[i] != b[i] {
			return false
		}
	}
	return true
}

func (r *renderer) load(u *ssa.UnOp, d int) string {
	switch x := u.X.(type) {
	case *ssa.Global:
		return globalName(x)
	case *ssa.IndexAddr:
		return r.lvalue(x, d)
	}
	l, ok := addrLoc(u.X)
	if !ok {
		return r.lvalue(u.X, d)
	}
	if r.cells != nil {
	scan:
		for i := len(r.cells) - 1; i >= 0; i-- {
			e := r.cells[i]
			if e.l.base != l.base {
				continue
			}
			switch {
			case e.v == nil:
				break scan // escaped: unknown
			case isPrefix(e.l.path, l.path):
				s := r.val(e.v, d+1)
				if s == "zero" {
					return "zero"
				}
				t := deref(l.base.Type())
				for _, f := range e.l.path {
					if st, ok := t.Underlying().(*types.Struct); ok && f < st.NumFields() {
						t = st.Field(f).Type()
					}
				}
				for _, f := range l.path[len(e.l.path):] {
					s += "." + fieldName(t, f)
					if st, ok := t.Underlying().(*types.Struct); ok && f < st.NumFields() {
						t = st.Field(f).Type()
					}
				}
				return s
			case isPrefix(l.path, e.l.path):
				break scan // partially overwritten: fall back
			}
		}
	}
	// struct-valued whole load: render as literal of reaching field stores
	if st, ok := deref(u.X.Type()).Underlying().(*types.Struct); ok && u.Block() != nil && u.Parent() == l.base.Parent() {
		if whole := r.reaching(u, l, d); len(whole) == 1 && !strings.HasPrefix(whole[0], "⟨partial⟩") {
			return whole[0]
		}
		var parts []string
		for i := 0; i < st.NumFields(); i++ {
			fl := loc{l.base, append(append([]int{}, l.path...), i)}
			vals := r.reaching(u, fl, d)
			s := strings.Join(vals, "|")
			if len(vals) > 1 {
				s = "{" + s + "}"
			}
			if s == "zero" || s == "0" || s == "nil" || s == `""` || s == "false" {
				continue
			}
			parts = append(parts, st.Field(i).Name()+": "+s)
		}
		return typeStr(deref(u.X.Type())) + "{" + strings.Join(parts, ", ") + "}"
	}
	vals := r.reaching(u, l, d)
	if len(vals) == 1 {
		return vals[0]
	}
	return "{" + strings.Join(vals, "|") + "}"
}

// storeEffect describes what an instruction writes to location q.
// kind: 0 none, 1 covering store (value given), 2 partial (a sub-field of q).
func (r *renderer) storeEffect(in ssa.Instruction, q loc, d int) (kind int, val string) {
	switch in := in.(type) {
	case *ssa.Store:
		s, ok := addrLoc(in.Addr)
		if !ok || s.base != q.base {
			return 0, ""
		}
		if isPrefix(s.path, q.path) {
			v := r.val(in.Val, d+1)
			t := deref(in.Addr.Type())
			for _, f := range q.path[len(s.path):] {
				if v == "zero" {
					break
				}
				v += "." + fieldName(t, f)
				if st, ok := t.Underlying().(*types.Struct); ok && f < st.NumFields() {
					t = st.Field(f).Type()
				}
			}
			return 1, v
		}
		if isPrefix(q.path, s.path) {
			return 2, ""
		}
		return 0, ""
	case ssa.CallInstruction:
		if _, isDefer := in.(*ssa.Defer); isDefer {
			return 0, ""
		}
		c := in.Common()
		vals := c.Args
		if c.IsInvoke() {
			vals = append([]ssa.Value{c.Value}, vals...)
		}
		for i, a := range vals {
			if mi, ok := a.(*ssa.MakeInterface); ok {
				a = mi.X
			}
			s, ok := addrLoc(a)
			if !ok || s.base != q.base {
				continue
			}
			if _, isPtr := a.Type().Underlying().(*types.Pointer); !isPtr {
				continue
			}
			if !(isPrefix(s.path, q.path) || isPrefix(q.path, s.path)) {
				continue
			}
			pi := i
			if c.IsInvoke() {
				pi = -1 // unknown implementation
			}
			if pi >= 0 && !r.p.mayWriteParam(c.StaticCallee(), pi, 3) {
				continue
			}
			v := "out:" + r.call(c, d+1)
			if isPrefix(s.path, q.path) {
				t := deref(a.Type())
				for _, f := range q.path[len(s.path):] {
					v += "." + fieldName(t, f)
					if st, ok := t.Underlying().(*types.Struct); ok && f < st.NumFields() {
						t = st.Field(f).Type()
					}
				}
				return 1, v
			}
			return 2, ""
		}
	}
	return 0, ""
}

// mayWriteParam reports whether fn may write through its i'th parameter
// (a pointer): a store to an address derived from it, or passing it on to a
// callee that may write (bounded depth). Unknown bodies are assumed to write.
func (p *Prog) mayWriteParam(fn *ssa.Function, i int, depth int) bool {
	if fn == nil || len(fn.Blocks) == 0 || i >= len(fn.Params) {
		return true
	}
	if depth == 0 {
		return true
	}
	if _, isIface := fn.Params[i].Type().Underlying().(*types.Interface); isIface {
		return true // written through reflection / type switches: not tracked
	}
	key := fmt.Sprintf("%p/%d", fn, i)
	if p.writeMemo == nil {
		p.writeMemo = map[string]int{}
	}
	switch p.writeMemo[key] {
	case 1:
		return true
	case 2:
		return false
	case 3:
		return false // recursion: assume no additional writes
	}
	p.writeMemo[key] = 3
	derived := map[ssa.Value]bool{fn.Params[i]: true}
	changed := true
	for changed {
		changed = false
		for _, b := range fn.Blocks {
			for _, in := range b.Instrs {
				v, ok := in.(ssa.Value)
				if !ok || derived[v] {
					continue
				}
				switch x := in.(type) {
				case *ssa.FieldAddr:
					if derived[x.X] {
						derived[v] = true
						changed = true
					}
				case *ssa.IndexAddr:
					if derived[x.X] {
						derived[v] = true
						changed = true
					}
				case *ssa.Phi:
					for _, e := range x.Edges {
						if derived[e] {
							derived[v] = true
							changed = true
						}
					}
				case *ssa.ChangeType:
					if derived[x.X] {
						derived[v] = true
						changed = true
					}
				case *ssa.MakeInterface:
					if derived[x.X] {
						derived[v] = true
						changed = true
					}
				case *ssa.TypeAssert:
					if derived[x.X] {
						derived[v] = true
						changed = true
					}
				case *ssa.Extract:
					if derived[x.Tuple] {
						derived[v] = true
						changed = true
					}
				}
			}
		}
	}
	res := false
outer:
	for _, b := range fn.Blocks {
		for _, in := range b.Instrs {
			switch x := in.(type) {
			case *ssa.Store:
				if derived[x.Addr] {
					res = true
					break outer
				}
			case *ssa.MapUpdate:
			case ssa.CallInstruction:
				c := x.Common()
				vals := c.Args
				if c.IsInvoke() {
					for _, a := range append([]ssa.Value{c.Value}, vals...) {
						if derived[a] {
							res = true
							break outer
						}
					}
					continue
				}
				for j, a := range vals {
					if derived[a] {
						if p.mayWriteParam(c.StaticCallee(), j, depth-1) {
							res = true
							break outer
						}
					}
				}
			}
		}
	}
	if res {
		p.writeMemo[key] = 1
	} else {
		p.writeMemo[key] = 2
	}
	return res
}

// reaching returns the rendered values of all stores to q that may reach the
// instruction at (they are not overwritten on the way), "zero" for the
// initial value.
func (r *renderer) reaching(at ssa.Instruction, q loc, d int) []string {
	set := map[string]bool{}
	fn := q.base.Parent()
	if at.Parent() != fn {
		// load inside a closure: flow-insensitive over the defining function
		r.allStores(fn, q, d, set)
		if len(set) == 0 {
			set["zero"] = true
		}
		return sortedKeys(set)
	}
	// closures of fn that write q make the answer imprecise
	for _, an := range fn.AnonFuncs {
		tmp := map[string]bool{}
		r.allStoresIn(an, q, d, tmp)
		for k := range tmp {
			set["closure:"+k] = true
		}
	}
	visited := map[*ssa.BasicBlock]bool{}
	var walk func(b *ssa.BasicBlock, from int)
	walk = func(b *ssa.BasicBlock, from int) {
		for i := from; i >= 0; i-- {
			in := b.Instrs[i]
			if in == ssa.Instruction(q.base) {
				set["zero"] = true
				return
			}
			k, v := r.storeEffect(in, q, d)
			if k == 1 {
				set[v] = true
				return
			}
			if k == 2 {
				set["⟨partial⟩"] = true
			}
		}
		if len(b.Preds) == 0 {
			set["zero"] = true
			return
		}
		for _, pb := range b.Preds {
			if visited[pb] {
				continue
			}
			visited[pb] = true
			walk(pb, len(pb.Instrs)-1)
		}
	}
	idx := indexOf(at)
	walk(at.Block(), idx-1)
	return sortedKeys(set)
}

func indexOf(in ssa.Instruction) int {
	for i, x := range in.Block().Instrs {
		if x == in {
			return i
		}
	}
	return -1
}

func sortedKeys(m map[string]bool) []string {
	var a []string
	for k := range m {
		a = append(a, k)
	}
	sort.Strings(a)
	return a
}

func (r *renderer) allStores(fn *ssa.Function, q loc, d int, set map[string]bool) {
	r.allStoresIn(fn, q, d, set)
	for _, an := range fn.AnonFuncs {
		r.allStores(an, q, d, set)
	}
}

func (r *renderer) allStoresIn(fn *ssa.Function, q loc, d int, set map[string]bool) {
	for _, b := range fn.Blocks {
		for _, in := range b.Instrs {
			if k, v := r.storeEffect(in, q, d); k == 1 {
				set[v] = true
			}
		}
	}
	for _, an := range fn.AnonFuncs {
		if an.Parent() == fn {
			r.allStoresIn(an, q, d, set)
		}
	}
}

// ---- conditions ----

// Cond renders the condition of an If in canonical form: the returned string
// uses only '==' and '<' comparisons with sorted '==' operands; neg tells
// whether the If's condition is the negation of the canonical string.
func (p *Prog) Cond(v ssa.Value) (canon string, neg bool) {
	r := &renderer{p: p, active: map[ssa.Value]bool{}, memo: map[ssa.Value]string{}}
	return r.cond(v)
}

func (r *renderer) cond(v ssa.Value) (string, bool) {
	switch x := v.(type) {
	case *ssa.UnOp:
		if x.Op == token.NOT {
			s, n := r.cond(x.X)
			return s, !n
		}
	case *ssa.BinOp:
		a, b := r.val(x.X, 1), r.val(x.Y, 1)
		switch x.Op {
		case token.EQL, token.NEQ:
			if b < a {
				a, b = b, a
			}
			return "(" + a + " == " + b + ")", x.Op == token.NEQ
		case token.LSS:
			return "(" + a + " < " + b + ")", false
		case token.GTR:
			return "(" + b + " < " + a + ")", false
		case token.GEQ:
			return "(" + a + " < " + b + ")", true
		case token.LEQ:
			return "(" + b + " < " + a + ")", true
		}
	}
	return r.val(v, 1), false
}

// StructFields returns, for a struct value loaded from a local cell, the
// rendered origin of each field at the point of the load (nil otherwise).
func (p *Prog) StructFields(v ssa.Value) map[string]string {
	u, ok := v.(*ssa.UnOp)
	if !ok || u.Op != token.MUL {
		return nil
	}
	l, ok := addrLoc(u.X)
	if !ok {
		return nil
	}
	st, ok := deref(u.X.Type()).Underlying().(*types.Struct)
	if !ok {
		return nil
	}
	r := &renderer{p: p, active: map[ssa.Value]bool{}, memo: map[ssa.Value]string{}}
	out := map[string]string{}
	for i := 0; i < st.NumFields(); i++ {
		fl := loc{l.base, append(append([]int{}, l.path...), i)}
		vals := r.reaching(u, fl, 0)
		s := strings.Join(vals, "|")
		if len(vals) > 1 {
			s = "{" + s + "}"
		}
		out[st.Field(i).Name()] = s
	}
	return out
}

// FieldsAt is StructFields for a pointer to a local struct cell (e.g. the
// argument &T{...} of a call): field origins as they reach instruction at.
func (p *Prog) FieldsAt(ptr ssa.Value, at ssa.Instruction) map[string]string {
	if mi, ok := ptr.(*ssa.MakeInterface); ok {
		ptr = mi.X
	}
	l, ok := addrLoc(ptr)
	if !ok {
		return nil
	}
	st, ok := deref(ptr.Type()).Underlying().(*types.Struct)
	if !ok {
		return nil
	}
	r := &renderer{p: p, active: map[ssa.Value]bool{}, memo: map[ssa.Value]string{}}
	out := map[string]string{}
	for i := 0; i < st.NumFields(); i++ {
		fl := loc{l.base, append(append([]int{}, l.path...), i)}
		vals := r.reaching(at, fl, 0)
		s := strings.Join(vals, "|")
		if len(vals) > 1 {
			s = "{" + s + "}"
		}
		out[st.Field(i).Name()] = s
	}
	return out
}

package main

import (
	"strings"

	"golang.org/x/tools/go/ssa"
)

func init() {
	register(&Property{
		ID:    "C16",
		Level: "other",
		Run:   c16,
		Explanation: "Structural necessary conditions of atomic import / exact export, decided on every path. Import: primary gate, then the full write lock (released by defer), then journal invalidation and WAL truncation, then importToLTX, then the fatal apply of exactly the file importToLTX published; every step's error ends the import before the next. importToLTX: header provenance (TXID = previous+1, pre-checksum = previous post-checksum, page size and commit from the image's own header), pages 1..PageN in order from the reader, the lock page skipped, at page 1 the change counter (bytes 24-27) and schema cookie (bytes 40-43) zeroed before the page is encoded AND before it is checksummed, post-apply checksum accumulated over exactly the encoded bytes, a short read ends before the rename, the temp/fsync/rename/dir-fsync protocol (shared with C05). Validate-before-publish: every input-dependent failure of the fatal apply must be excluded before the LTX file is created: creation and rename are dominated by 'page size unknown or equal to the image's'. Export: the lock-set typestate of the capture/read protocol (shared with C10: capture of position, size, page size and overlay under SHARED and the WAL WRITE lock; page reads under SHARED+READ0-4+CKPT+RECOVER; offsets from the copied overlay), bytes written = the page buffer just read, for pgno 1..captured page count. HTTP: import runs under the primary-lease context, export answers 404 for an unknown database before writing; both handlers test the name first. Import discards the local journal and WAL only after the whole image was read into a published LTX file (a failed import changes nothing) and before the apply; the image's page size is used as a divisor only after the encoder validated it; DB.pageSize is written only where a header teaches it; the PERSIST invalidation zeroes at least the bytes the journal reader requires to be zero.",
		NotDecided: "byte equality of export(import(x)) and x, and replicas reaching the identical image (run-time values).",
		Assumptions: []string{"go/ssa faithfully represents the source", "ltx.Encoder rejects invalid headers and pages (vendored dependency)"},
	})
}

func c16(c *Ctx) {
	c.noPrematureTest("stream/page-size-never-refuses-a-snapshot", "litefs.(*Store).processLTXStreamFrame", `(?i)pagesize`, gs(GP("ltx.(*Header).IsSnapshot(@@)", false)),
		"the replica's stream path tests the page size of an incoming file, if at all, only once the file is known not to be a snapshot", "a node holding the database with another page size (imported anew on the primary) is sent a snapshot: refusing it for its page size makes the node reconnect for ever")
	c.pageLoopsComplete("complete", "importToLTX", "Export", "ApplyLTXNoLock")
	c.clientStatusFamily("http/client", "Import", "Export")
	p := c.P
	im := "litefs.(*DB).Import"
	il := "litefs.(*DB).importToLTX"

	// ---- import order ----
	acq := p.PlainCalls("litefs.(*DB).AcquireWriteLock")
	inv := p.PlainCalls("litefs.(*DB).invalidateJournal")
	tw := p.PlainCalls("litefs.(*DB).TruncateWAL")
	toLTX := p.PlainCalls(il)
	apply := p.PlainCalls("litefs.(*DB).ApplyLTXNoLock")
	c.Guarded("import/primary-gate", im, Any(acq, inv, tw, toLTX, apply), gs(GP("litefs.(*Store).IsPrimary(p0.store)", true)), 4, "Import does nothing unless the node is primary", "")
	c.Before("import/lock-first", im, Any(inv, tw, toLTX, apply), acq, 4, "journal invalidation, WAL truncation, LTX construction and apply all run after AcquireWriteLock", "C11")
	c.ErrHandled("import/lock-error", im, acq, Any(inv, tw, toLTX, apply), 1, "a failed lock acquisition ends the import", "")
	c.Before("import/unlock-deferred", im, Any(inv, tw, toLTX, apply), func(in ssa.Instruction) bool {
		d, ok := in.(*ssa.Defer)
		return ok && p.CalleeName(d.Common()) == "litefs.(*GuardSet).Unlock"
	}, 4, "the release of the write lock is deferred before the first change", "")
	c.Before("import/discard-after-image-validated/journal", im, inv, toLTX, 1, "a pending journal is invalidated only after the whole image was read into a published LTX file", "an import that cannot be applied fails without changing the database: the journal and WAL hold state the image on disk depends on")
	c.Before("import/discard-after-image-validated/wal", im, tw, toLTX, 1, "the WAL is truncated only after the whole image was read into a published LTX file", "committed transactions that live only in the WAL would be lost by a failed import while the position stays the same")
	c.ErrHandled("import/ltx-error-discards-nothing", im, toLTX, Any(inv, tw, apply), 1, "a failed importToLTX (malformed, truncated, wrong page size) ends the import before anything local is discarded or applied", "an import that cannot be applied fails without changing the database")
	c.Before("import/journal-before-apply", im, apply, inv, 1, "a pending journal is invalidated before the import transaction is applied", "with or without a pending local journal: a hot journal left behind would roll the imported image back")
	c.ErrHandled("import/journal-error", im, inv, apply, 1, "a failed journal invalidation ends the import before the apply", "")
	c.ErrHandled("import/wal-error", im, tw, apply, 1, "a failed WAL truncation ends the import before the apply", "")
	{
		// the WAL is emptied before the apply whenever a WAL file exists
		fn := c.F(im)
		key, rule := "import/wal-before-apply", "K1 Before (under assumed branch)"
		desc := "when a WAL file exists it is truncated before the import transaction is applied"
		if c.need(key, rule, desc, fn, im) {
			noWAL := p.EdgesAsserting(G(`\(litefs\.OS\.Stat\(.*"IMPORT:WAL".*\)#1 == nil\)`, false))
			if f := (&Search{P: p, Fn: fn, Avoid: tw, Block: noWAL, Tgt: apply}).Run(); f != nil {
				c.fail(key, rule, desc, "with or without a pending local WAL: frames left in the WAL override the imported pages for every reader", "the apply is reachable with a WAL present and not truncated; path "+p.TraceString(f.Trace), 1)
			} else if len(Instrs(fn, tw)) == 0 {
				c.fail(key, rule, desc, "", "no TruncateWAL call in Import", 0)
			} else {
				c.ok(key, rule, desc, 1)
			}
		}
	}
	c.ExpectAll("import/truncate-to-zero", c.CallArgs(im, tw, 2), "0", 1, "the WAL is truncated to zero length", "")
	c.Before("import/ltx-before-apply", im, apply, toLTX, 1, "the apply follows importToLTX", "")
	c.ExpectAll("import/applies-own-file", c.CallArgs(im, apply, 1), pat("litefs.(*DB).LTXPath(p0, "+il+"(p0, p1, p2)#0.TXID, "+il+"(p0, p1, p2)#0.TXID)"), 1, "the file applied is the one importToLTX published (its returned TXID)", "")
	c.Expect("import/returns-apply-error", strings.Join(c.returnsMatchingIdxOK(im, 0), ";"), pat("litefs.(*DB).ApplyLTXNoLock(@@)"), "Import returns the apply's error", "")
	c.OnlyInScope("import/callers", []string{"litefs", "http", "fuse"}, p.Calls(im), []string{pat("http.(*Server).handlePostImport")}, 1, "Import is reached only through the HTTP import endpoint", "")

	// ---- importToLTX ----
	c.ltxHeaders(il)
	c.ltxPublication(il)
	hdr := "litefs.readSQLiteDatabaseHeader(p2)#0"
	pgno := "phi((↺ + 1)|1)"
	enc := p.PlainCalls("ltx.(*Encoder).EncodePage")
	rd := p.PlainCalls("io.ReadFull")
	c.Guarded("ltx/pages-bounded", il, rd, gs(GP("("+hdr+".PageN < "+pgno+")", false)), 1, "pages 1..PageN (from the image's header) are read, one per iteration", "")
	c.ExpectAll("ltx/reads-from-image", c.CallArgs(il, rd, 0), pat("io.MultiReader([bytes.NewReader(litefs.readSQLiteDatabaseHeader(p2)#1), p2])"), 1, "pages are read from the header bytes followed by the rest of the reader (nothing skipped)", "")
	c.ExpectAll("ltx/page-buffer", c.CallArgs(il, rd, 1), pat("make([]byte, "+hdr+".PageSize)"), 1, "each read fills one page of the image's page size", "")
	c.ErrStrict("ltx/short-read", il, rd, Any(p.PlainCalls("litefs.OS.Rename"), enc), 1, "a short or failed read ends the import before anything is published", "truncated or garbage input")
	c.Guarded("ltx/lock-page-skipped", il, enc, gs(GP("(ltx.LockPgno("+hdr+".PageSize) == "+pgno+")", false)), 1, "the lock page is never encoded", "")
	c.ExpectAll("ltx/pgno", c.structFieldOfArg(il, enc, 1, "Pgno"), pat(pgno), 1, "the page is encoded under the loop's page number", "")
	c.ExpectAll("ltx/encodes-buffer", c.CallArgs(il, enc, 2), pat("make([]byte, "+hdr+".PageSize)"), 1, "the bytes encoded are the buffer just read", "")
	put := p.PlainCalls("encoding/binary.(bigEndian).PutUint32")
	{
		var got []string
		for _, in := range Instrs(c.F(il), put) {
			got = append(got, c.argR(in, 1)+"="+c.argR(in, 2))
		}
		c.Expect("ltx/reset-fields", strings.Join(got, " ; "), pat("make([]byte, "+hdr+".PageSize)[24:]=0 ; make([]byte, "+hdr+".PageSize)[40:]=0"), "bytes 24-27 (file change counter) and 40-43 (schema cookie) of the buffer are zeroed", "open connections must reload: same counter + same cookie lets a connection keep a stale schema and page cache")
	}
	c.Guarded("ltx/reset-only-page1", il, put, gs(GP("(1 == "+pgno+")", true)), 2, "the reset touches page 1 only", "")
	{
		fn := c.F(il)
		key, rule := "ltx/reset-before-encode", "K1 Before (under assumed branch)"
		desc := "for page 1 both resets precede EncodePage and ChecksumPage"
		if c.need(key, rule, desc, fn, il) {
			notP1 := p.EdgesAsserting(GP("(1 == "+pgno+")", false))
			bad := ""
			puts := Instrs(fn, put)
			for _, pi := range puts {
				pi := pi
				if f := (&Search{P: p, Fn: fn, Avoid: func(in ssa.Instruction) bool { return in == pi }, Block: notP1, Tgt: Any(enc, p.PlainCalls("ltx.ChecksumPage"))}).Run(); f != nil {
					// only a violation when reached with page 1: the assumed branch cuts the other case; the
					// loop back edge re-enters with pgno > 1, which the search cannot distinguish, so start
					// from the first iteration only
					if !passesBackEdge(f.Trace) {
						bad = "page 1 reaches " + c.where(f.Instr) + " without the reset at " + c.where(pi)
					}
				}
			}
			if bad != "" || len(puts) < 2 {
				c.fail(key, rule, desc, "the checksum must describe the bytes the replicas receive", bad, len(puts))
			} else {
				c.ok(key, rule, desc, len(puts))
			}
		}
	}
	c.ExpectAll("ltx/checksum-of-encoded", c.CallArgs(il, p.PlainCalls("ltx.ChecksumPage"), 1), pat("make([]byte, "+hdr+".PageSize)"), 1, "the page checksum is computed over the same buffer that was encoded", "")
	c.ExpectAll("ltx/checksum-pgno", c.CallArgs(il, p.PlainCalls("ltx.ChecksumPage"), 0), pat(pgno), 1, "... under the same page number", "")
	c.Before("ltx/checksum-after-encode", il, p.PlainCalls("ltx.ChecksumPage"), enc, 1, "a page contributes to the checksum only after it was encoded (skipped lock page contributes nothing)", "")
	c.ExpectAll("ltx/post-checksum", c.CallArgs(il, p.PlainCalls("ltx.(*Encoder).SetPostApplyChecksum"), 1), pat("{(9223372036854775808 | ({0|↺} ^ ltx.ChecksumPage("+pgno+", make([]byte, "+hdr+".PageSize))))|0}"), 1, "the post-apply checksum is ChecksumFlag | XOR of the page checksums, starting from 0", "as one new transaction that replicas apply to reach the identical image")
	c.Expect("ltx/returns-pos", strings.Join(c.returnsMatchingIdxOK(il, 0), ";"), pat("ltx.Pos{TXID: (litefs.(*DB).Pos(p0).TXID + 1), PostApplyChecksum: @@}"), "importToLTX returns TXID previous+1 (the file it published)", "")

	c.journalInvalidation("import/journal")
	c.pageSizeOwners("validate/page-size-owners")
	c.Guarded("validate/page-size-validated-before-use", il, p.Calls("ltx.LockPgno"), gs(GP("(ltx.(*Encoder).EncodeHeader(@@) == nil)", true)), 1, "the image's page size is used as a divisor (ltx.LockPgno) only after the encoder accepted the header (the only place that validates it)", "a page-size field of 0 in an otherwise well-formed image divides by zero inside the handler: the client gets no response and the write lock is held by a dead request")

	// ---- validate before publish ----
	sizeOK := [][]*Guard{{GP("(0 == p0.pageSize)", true), GP("("+hdr+".PageSize == p0.pageSize)", true)}}
	c.GuardedPaths("validate/page-size-before-create", il, p.PlainCalls("litefs.OS.Create"), sizeOK, 1, "the LTX file is created only when the database's page size is unknown or equals the image's", "an image with another page size is published, the fatal apply fails in writeDatabasePage, the node exits and recovery re-applies the same file on every start")
	c.GuardedPaths("validate/page-size-before-rename", il, p.PlainCalls("litefs.OS.Rename"), sizeOK, 1, "... and renamed into place only then", "")
	c.ErrHandled("validate/header-error", il, p.PlainCalls("litefs.readSQLiteDatabaseHeader"), p.PlainCalls("litefs.OS.Create"), 1, "an unreadable or non-SQLite header ends the import before anything is created", "truncated or garbage input")
	c.Expect("validate/header-magic", strings.Join(c.returnsMatchingIdx("litefs.readSQLiteDatabaseHeader", 2), ";"), pat("litefs.errInvalidDatabaseHeader;io.ReadFull(p0, @@)#1"), "the header reader fails on a short file, a read error and a wrong magic", "")
	c.GuardedPaths("validate/header-magic-tested", "litefs.readSQLiteDatabaseHeader", p.SuccessReturn, [][]*Guard{{GP("bytes.Equal(@@)", true)}}, 1, "success only when the magic string matched", "")

	// ---- export ----
	c.captureFamily("litefs.(*DB).Export", true)
	c.exportSelfCheck("export-selfcheck")
	c.walCacheFamily("wal-cache")
	ex := "litefs.(*DB).Export"
	wr := p.Calls("io.Writer.Write")
	c.ExpectAll("export/writes-page-buffer", c.CallArgs(ex, wr, 1), pat("make([]byte, p0.pageSize)"), 1, "Export writes the page buffer (one page of the captured page size)", "")
	c.ExpectAll("export/destination", c.CallArgs(ex, wr, 0), "p2", 1, "to the destination writer", "")
	c.Before("export/read-before-write", ex, wr, p.PlainCalls("io.ReadFull"), 1, "every write is preceded by a page read", "")
	c.ErrStrict("export/read-error", ex, p.PlainCalls("io.ReadFull"), wr, 2, "a failed page read ends the export without writing the stale buffer", "")
	c.ErrHandled("export/write-error", ex, wr, nil, 1, "a failed write ends the export with an error", "")
	c.Guarded("export/bounded", ex, wr, gs(G(`\(litefs\.\(\*DB\)\.PageN\(p0\) < phi\(.*\)\)`, false)), 1, "pages 1..captured page count are written", "export returns exactly the current committed image")
	{
		var reads []string
		for _, in := range Instrs(c.F(ex), p.PlainCalls("io.ReadFull")) {
			reads = append(reads, c.argR(in, 1))
		}
		c.ExpectAll("export/read-buffer", reads, pat("make([]byte, p0.pageSize)"), 2, "both page sources fill the same buffer that is written", "")
	}

	// ---- http ----
	pi := "http.(*Server).handlePostImport"
	c.importBodyBeforeCreate("http/import")
	c.shortDatabaseTolerated("restart")
	c.exportCommandFile("cli")
	// (http/import-ctx withdrawn after F55, see C07 import-ctx.)
	c.Guarded("http/import-name-required", pi, p.PlainCalls("litefs.(*Store).CreateDBIfNotExists"), gs(G(`\("" == .*\)`, false)), 1, "an empty name is refused before a database is created", "")
	c.ErrStops("http/import-create-error", pi, p.PlainCalls("litefs.(*Store).CreateDBIfNotExists"), p.PlainCalls(im), 1, "a failed create ends the request", "")
	c.ExpectAll("http/import-body", c.CallArgs(pi, p.PlainCalls(im), 2), pat("net/http.(*Request).WithContext(p2, @@).Body")+"|"+pat("p2.Body")+"|"+pat("bufio.NewReader@@(net/http.(*Request).WithContext(p2, @@).Body@@)")+"|"+pat("bufio.NewReader@@(p2.Body@@)"), 1, "the image imported is the request body (directly or through a buffered reader over it)", "")
	ge := "http.(*Server).handleGetExport"
	{
		// the handler itself reads nothing that belongs to the snapshot and announces no length
		var bad []string
		for _, in := range InstrsDeep(c.F(ge), func(in ssa.Instruction) bool { return callCommon(in) != nil }) {
			n := p.CalleeName(callCommon(in))
			switch {
			case n == "litefs.(*DB).PageN" || n == "litefs.(*DB).Pos" || n == "litefs.(*DB).PageSize" || n == "litefs.(*DB).Mode":
				bad = append(bad, n+" at "+c.where(in))
			case n == "net/http.(Header).Set" || n == "net/http.(Header).Add":
				if strings.Contains(c.argR(in, 1), "Content-Length") {
					bad = append(bad, "Content-Length set at "+c.where(in))
				}
			}
		}
		d := "handleGetExport reads no database size/position of its own and announces no Content-Length: everything about the image comes from the one capture inside Export"
		if len(bad) > 0 {
			c.fail("http/export-no-size-outside-capture", "K5 who-may-call", d, "a size computed before Export took its locks belongs to an earlier position: net/http cuts the newer, larger image at the announced length and the client receives a 200 that is no position's image", strings.Join(bad, "; "), len(bad))
		} else {
			c.ok("http/export-no-size-outside-capture", "K5 who-may-call", d, 1)
		}
	}
	c.NilGuardedUses("http/export-unknown-db", ge, p.PlainCalls("litefs.(*Store).DB"), 1, "export of an unknown database answers 404 before calling Export", "")
	c.ExpectAll("http/export-dest", c.CallArgs(ge, p.PlainCalls(ex), 2), "p1", 1, "the image is written to the response", "")
}

// passesBackEdge reports whether a block trace revisits a block index lower
// than its predecessor after having advanced (a loop back edge).
func passesBackEdge(tr []*ssa.BasicBlock) bool {
	seen := map[*ssa.BasicBlock]bool{}
	for _, b := range tr {
		if seen[b] {
			return true
		}
		seen[b] = true
	}
	return false
}

// structFieldOfArg renders field f of the struct literal passed as argument idx.
func (c *Ctx) structFieldOfArg(fname string, m IM, idx int, f string) []string {
	var out []string
	for _, in := range Instrs(c.F(fname), m) {
		if flds := c.structArgFields(in, idx); flds != nil {
			out = append(out, flds[f])
		}
	}
	return out
}

// pageSizeOwners: DB.pageSize is learned from a database/journal/LTX header and never reset.
func (c *Ctx) pageSizeOwners(key string) {
	p := c.P
	c.OnlyIn(key, p.Writes("litefs.DB.pageSize"), []string{pat("litefs.(*DB).initFromDatabaseHeader"), pat("litefs.(*DB).initDatabaseFile"), pat("litefs.(*DB).WriteDatabaseAt"), pat("litefs.(*DB).WriteJournalAt"), pat("litefs.(*DB).ApplyLTXNoLock"), pat("litefs.(*DB).readWALPageOffsets")}, 6,
		"DB.pageSize is written only where a header teaches it (database header at open, first page write, journal header, LTX header, WAL header when the database file has none yet) - never reset, in particular not by Drop", "the page-size guard of the import relies on the remembered size; replicas keep theirs, so a primary that forgets it accepts an import that stops every replica")
	var vals []string
	for _, fn := range p.SrcFuncs() {
		for _, in := range Instrs(fn, p.Writes("litefs.DB.pageSize")) {
			vals = append(vals, fieldStoreVal(p, in))
		}
	}
	c.ExpectAll(key+"/values", vals, `.*(PageSize|encoding/binary\.\(bigEndian\)\.Uint32).*`, 6, "every value written is a header's page-size field", "")
}

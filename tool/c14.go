package main

import (
	"go/constant"
	"regexp"
	"strings"

	"golang.org/x/tools/go/ssa"
)

func init() {
	register(&Property{
		ID:    "C14",
		Level: "other",
		Run:   c14,
		Explanation: "TXIDs and checksums are touched only through comparisons, so the per-database sync decision of streamBackupDB is a finite decision table; it is extracted by enumerating every feasible path (phis, local cells and the closure-written position resolved) and compared row by row: no local database / service ahead / same TXID with another checksum / missing LTX file / service reports a mismatch -> PosMismatchError (which streamBackup turns into restoreDBFromBackup, never into another upload); local empty or in sync -> nothing; service empty -> snapshot; otherwise a compaction of the files remote+1, remote+2, ... (at most MaxBackupLTXFileN, contiguous, in order) whose own header/trailer give the position recorded for the next round. High-water mark: SetHWM is called only with the value BackupClient.WriteTx returned and only when it returned no error (shared family with C09). Restore: lock, recover, write, apply, position re-read. Position map: entries are replaced only by the position the sync returned, a zero position deletes the entry, the periodic full sync discards the map. Service side (FileBackupClient): rename dominated by the contiguity test and by verification of the written file, temp-file protocol; lfsc client: non-2xx is an error, EPOSMISMATCH maps to PosMismatchError, the mark returned is parsed from the Litefs-Hwm header. A snapshot upload reports the uploaded snapshot's own position (handed over from the snapshot goroutine), and a restore creates the local database only after the snapshot was fetched.",
		NotDecided: "byte-identity of a restored database, behaviour of the remote LiteFS Cloud service, eventual convergence of repeated syncs (liveness).",
		Assumptions: []string{"go/ssa faithfully represents the source", "ltx.Compactor emits header/trailer of the range it compacted (vendored dependency)"},
	})
}

func c14(c *Ctx) {
	c.NoDiscardedErrors("errors/none-dropped", []string{"lfsc"}, discardBackup, 1)
	p := c.P
	sb := "litefs.(*Store).streamBackupDB"
	db := "litefs.(*Store).DB(p0, p2)"
	local := "litefs.(*DB).Pos(" + db + ")"
	mm := pat("zero | ltx.NewPosMismatchError(p3)")
	retR := func(at ssa.Instruction, r PathRender, facts []PathFact) string {
		ret := at.(*ssa.Return)
		return r(returnedValue(ret, 0)) + " | " + r(returnedValue(ret, 1))
	}
	live := func(in ssa.Instruction) bool {
		r, ok := in.(*ssa.Return)
		return ok && !(r.Block().Index != 0 && len(r.Block().Preds) == 0)
	}
	wt := "litefs.BackupClient.WriteTx(p0.BackupClient, @@)"
	c.PathTable("table/streamBackupDB", sb, live, retR, []Row{
		{Name: "no local database", When: gs(GP("("+db+" == nil)", true)), Expect: mm},
		{Name: "nothing written locally, nothing on the service", When: gs(GP("ltx.(Pos).IsZero("+local+")", true), GP("ltx.(Pos).IsZero(p3)", true)), Expect: pat(local + " | nil")},
		{Name: "service has nothing", When: gs(GP("ltx.(Pos).IsZero(p3)", true)), Expect: pat("litefs.(*Store).streamBackupDBSnapshot(p0, p1, " + db + ")#0 | litefs.(*Store).streamBackupDBSnapshot(p0, p1, " + db + ")#1")},
		{Name: "service ahead", When: gs(GP("("+local+".TXID < p3.TXID)", true)), Expect: mm},
		{Name: "same TXID, other checksum", When: gs(GP("("+local+".TXID == p3.TXID)", true), GP("("+local+".PostApplyChecksum == p3.PostApplyChecksum)", false)), Expect: mm},
		{Name: "in sync", When: gs(GP("("+local+".TXID == p3.TXID)", true)), Expect: pat(local + " | nil")},
		{Name: "LTX file missing", When: gs(GP("os.IsNotExist(litefs.(*DB).OpenLTXFile(@@)#1)", true)), Expect: mm},
		{Name: "LTX file unreadable", When: gs(GP("(litefs.(*DB).OpenLTXFile(@@)#1 == nil)", false)), Expect: pat("zero | fmt.Errorf(@@)")},
		{Name: "service reports mismatch", When: gs(GP("errors.As("+wt+"#1, @@)", true)), Expect: pat("zero | out:errors.As(@@)")},
		{Name: "upload failed", When: gs(GP("("+wt+"#1 == nil)", false)), Expect: pat("zero | fmt.Errorf(@@)")},
		{Name: "uploaded", When: nil, Expect: pat("ltx.Pos{TXID: {closure:@@ltx.(*Compactor).Header(@@).MaxTXID@@|zero}, PostApplyChecksum: {closure:@@ltx.(*Compactor).Trailer(@@).PostApplyChecksum@@|zero}} | nil")},
	}, 11, "streamBackupDB decides per database: mismatch error (-> restore) when there is no local copy, the service is ahead (also of a local database that has nothing written yet), forked, a file is missing or the service refuses; nothing when both sides are empty or in sync; snapshot when the service is empty; otherwise upload and report the position of the compacted file that was uploaded",
		"the primary adopts the service's snapshot instead of overwriting it; the position remembered for the next round is what the service actually received (a batch is cut at 256 files)")

	// the batch: remote+1, +1, ..., bounded, in order, all into the compactor that feeds the upload
	open := p.PlainCalls("litefs.(*DB).OpenLTXFile")
	c.ExpectAll("batch/starts-after-remote", c.CallArgs(sb, open, 1), pat("phi((p3.TXID + 1)|(↺ + 1))"), 1, "the files opened are remote.TXID+1, then +1 each", "the service holds a contiguous chain: a skipped or repeated TXID is refused (or worse, accepted by a lenient service)")
	c.Guarded("batch/bounded-by-local", sb, open, gs(GP("("+local+".TXID < phi((p3.TXID + 1)|(↺ + 1)))", false)), 1, "no file beyond the local position is requested", "")
	c.Guarded("batch/bounded-by-limit", sb, open, gs(G(`\(phi\(\(↺ \+ 1\)\|0\) < \d+\)`, true)), 1, "the batch is cut at MaxBackupLTXFileN files", "")
	{
		v, ok := p.ConstInt("litefs", "MaxBackupLTXFileN")
		if !ok || v < 1 || v > 4096 {
			c.fail("batch/limit-constant", "K8 constant", "MaxBackupLTXFileN is a positive bound", "an unbounded batch exhausts file descriptors; zero uploads nothing for ever", "MaxBackupLTXFileN unresolved or out of range", 0)
		} else {
			c.ok("batch/limit-constant", "K8 constant", "MaxBackupLTXFileN is a positive bound", 1)
		}
	}
	cl := c.anonWith(sb, p.Calls("ltx.NewCompactor"))
	if cl == "" {
		c.fail("batch/compactor", "K6 Origin", "the upload is produced by an ltx.Compactor over the opened files", "", "no closure of streamBackupDB calls ltx.NewCompactor", 0)
	} else {
		c.ExpectAll("batch/compactor", c.CallArgs(cl, p.Calls("ltx.NewCompactor"), 1), pat("builtin.append(@@, [litefs.(*DB).OpenLTXFile("+db+", phi((p3.TXID + 1)|(↺ + 1)))#0])"), 1, "the compactor reads exactly the files opened, in the order opened", "")
		c.ExpectAll("batch/pipe", []string{strings.Join(c.CallArgs(cl, p.Calls("ltx.NewCompactor"), 0), ";") + " -> " + strings.Join(c.CallArgs(sb, p.PlainCalls("litefs.BackupClient.WriteTx"), 3), ";")}, pat("io.Pipe()#1 -> io.Pipe()#0"), 1, "the compactor writes into the pipe whose read end is uploaded", "")
		if len(Instrs(c.F(cl), p.Calls("ltx.NewPos"))) > 0 {
			c.Guarded("batch/pos-only-on-success", cl, p.Calls("ltx.NewPos"), gs(GP("(ltx.(*Compactor).Compact(@@) == nil)", true)), 1, "the uploaded position is recorded only when compaction succeeded", "")
			{
				fn := c.F(cl)
				key, rule := "batch/pos-published-before-eof", "K1 Before (from edge)"
				desc := "on the success path the position is written before the pipe is closed (the close is what lets WriteTx return: happens-before for the reader of the position)"
				g := GP("(ltx.(*Compactor).Compact(@@) == nil)", true)
				n, bad := 0, ""
				for _, b := range fn.Blocks {
					for i, sb2 := range b.Succs {
						if !p.EdgeAsserts(Edge{b, i}, g) {
							continue
						}
						n++
						s := &Search{P: p, Fn: fn, Avoid: p.Calls("ltx.NewPos"), Tgt: p.Calls("io.(*PipeWriter).Close", "io.(*PipeWriter).CloseWithError")}
						if f := s.runFromBlock(sb2); f != nil {
							bad = "pipe closed at " + c.where(f.Instr) + " before the position is written; path " + p.TraceString(f.Trace)
						}
					}
				}
				if bad != "" || n == 0 {
					c.fail(key, rule, desc, "a reader that sees EOF first reads a zero position: the database is dropped from the position map", bad, n)
				} else {
					c.ok(key, rule, desc, n)
				}
			}
		}
		c.After("batch/compact-error-propagates", cl, p.Calls("ltx.(*Compactor).Compact"), p.Calls("io.(*PipeWriter).CloseWithError", "io.(*PipeWriter).Close"), IsReturn, 1, "the pipe is always closed (with the compaction error, if any) so the upload ends", "")
		if p.CountGuardEdges(c.F(cl), GP("(ltx.(*Compactor).Compact(@@) == nil)", false)) > 0 {
			c.NoPathFromEdge("batch/compact-error-not-clean-close", cl, GP("(ltx.(*Compactor).Compact(@@) == nil)", false), p.Calls("io.(*PipeWriter).Close"), 1, "a failed compaction never closes the pipe cleanly", "a truncated upload that ends with a clean EOF looks complete to the service")
		} else {
			c.ExpectAll("batch/compact-error-not-clean-close", c.CallArgs(cl, p.Calls("io.(*PipeWriter).CloseWithError", "io.(*PipeWriter).Close"), 1), pat("ltx.(*Compactor).Compact(@@)"), 1, "the pipe is closed with the compaction's own result (nil = clean EOF)", "a truncated upload that ends with a clean EOF looks complete to the service")
		}
	}

	// ---- restore ----
	st := "litefs.(*Store).streamBackup"
	sbCall := "litefs.(*Store).streamBackupDB(@@)"
	c.Guarded("restore/on-mismatch-only", st, p.PlainCalls("litefs.(*Store).restoreDBFromBackup"), gs(GP("errors.As("+sbCall+"#1, @@)", true)), 1, "restoreDBFromBackup runs only when the sync returned a PosMismatchError", "overwriting the local database for any other error loses committed transactions")
	{
		fn := c.F(st)
		key := "restore/mismatch-restores"
		desc := "after a PosMismatchError the position map is updated only through restoreDBFromBackup"
		why := "the backup is authoritative: recording a position (or uploading again) without adopting the snapshot lets the primary overwrite the service's history"
		if c.need(key, "K1 Before (from edge)", desc, fn, st) {
			n, bad := 0, ""
			g := GP("errors.As("+sbCall+"#1, @@)", true)
			for _, b := range fn.Blocks {
				for i, sb2 := range b.Succs {
					if !p.EdgeAsserts(Edge{b, i}, g) {
						continue
					}
					n++
					s := &Search{P: p, Fn: fn, Avoid: p.PlainCalls("litefs.(*Store).restoreDBFromBackup"), Tgt: func(in ssa.Instruction) bool {
						_, isU := in.(*ssa.MapUpdate)
						return isU || p.PlainCalls("litefs.(*Store).streamBackupDB")(in) || p.SuccessReturn(in)
					}}
					if f := s.runFromBlock(sb2); f != nil {
						bad = "reaches " + c.where(f.Instr) + " without restoring; path " + p.TraceString(f.Trace)
					}
				}
			}
			if bad != "" || n == 0 {
				c.fail(key, "K1 Before (from edge)", desc, why, bad, n)
			} else {
				c.ok(key, "K1 Before (from edge)", desc, n)
			}
		}
	}
	c.ErrHandled("restore/error-stops", st, p.PlainCalls("litefs.(*Store).restoreDBFromBackup"), func(in ssa.Instruction) bool { _, ok := in.(*ssa.MapUpdate); return ok }, 1, "a failed restore ends the sync", "")
	{
		// other errors end the sync as errors
		g := GP("("+sbCall+"#1 == nil)", false)
		c.EdgeReturns("restore/other-error-stops", st, g, `fmt\.Errorf\(.*`, 1, "any other sync error ends the round with an error", "")
	}
	rs := "litefs.(*Store).restoreDBFromBackup"
	// (the order "fetch, then create the local database" is no longer required: since F35 an empty local
	// database left behind by a failed download is replaced on the next sync like any database that is behind.)
	c.pageSizeBeforeCreate("restore")
	{
		alive := G(`^\(context\.Context\.Err\(p1\) == nil\)$|^\(nil == context\.Context\.Err\(p1\)\)$`, true)
		rsf := "litefs.(*Store).restoreDBFromBackup"
		c.GuardedFrom("restore/role-rechecked-under-the-lock", rsf, p.PlainCalls("litefs.(*DB).AcquireWriteLock"), p.PlainCalls("litefs.(*DB).recover", "litefs.(*DB).WriteLTXFileAt", "litefs.(*DB).ApplyLTXNoLock"), gs(alive), 3,
			"between taking the write lock and recovering, publishing or applying anything, the restore consults its (primary-scoped) context again", "F61: AcquireWriteLock tries the lock before it looks at the context and the file backup client never looks at it: a node demoted while a restore was in flight still published the service's snapshot and moved its position without being primary")
	}
	c.Before("restore/lock-first", rs, p.PlainCalls("litefs.(*DB).recover", "litefs.(*DB).WriteLTXFileAt", "litefs.(*DB).ApplyLTXNoLock"), p.PlainCalls("litefs.(*DB).AcquireWriteLock"), 3, "recover, write and apply run under the write lock", "C11")
	c.Before("restore/recover-before-write", rs, p.PlainCalls("litefs.(*DB).WriteLTXFileAt"), p.PlainCalls("litefs.(*DB).recover"), 1, "pending journal/WAL state is cleared before the snapshot is written", "")
	c.Before("restore/write-before-apply", rs, p.PlainCalls("litefs.(*DB).ApplyLTXNoLock"), p.PlainCalls("litefs.(*DB).WriteLTXFileAt"), 1, "the snapshot is published as an LTX file before it is applied", "")
	c.ExpectAll("restore/applies-written-file", c.CallArgs(rs, p.PlainCalls("litefs.(*DB).ApplyLTXNoLock"), 1), pat("litefs.(*DB).WriteLTXFileAt(@@)#0"), 1, "the file applied is the one written", "")
	c.ExpectAll("restore/source", c.CallArgs(rs, p.PlainCalls("litefs.(*DB).WriteLTXFileAt"), 2), pat("litefs.BackupClient.FetchSnapshot(p0.BackupClient, p1, p2)#0"), 1, "the snapshot written is the one fetched from the service for this database", "")
	for _, e := range []string{"litefs.BackupClient.FetchSnapshot", "litefs.(*DB).AcquireWriteLock", "litefs.(*DB).recover", "litefs.(*DB).WriteLTXFileAt", "litefs.(*DB).ApplyLTXNoLock"} {
		c.ErrHandled("restore/err/"+e[strings.LastIndex(e, ".")+1:], rs, p.PlainCalls(e), nil, 1, "restore: an error of "+e+" is returned", "")
	}
	c.Expect("restore/returns-new-pos", strings.Join(c.returnsMatchingIdxOK(rs, 0), ";"), pat("litefs.(*DB).Pos(litefs.(*Store).CreateDBIfNotExists(p0, p2)#0)"), "on success the position returned is re-read from the database after the apply", "")
	c.Before("restore/pos-after-apply", rs, p.SuccessReturn, p.PlainCalls("litefs.(*DB).ApplyLTXNoLock"), 1, "success only after the apply", "")

	// ---- posmap ----
	{
		fn := c.F(st)
		var ups []string
		if fn != nil {
			for _, in := range Instrs(fn, func(in ssa.Instruction) bool { _, ok := in.(*ssa.MapUpdate); return ok }) {
				mu := in.(*ssa.MapUpdate)
				if !strings.Contains(p.Render(mu.Map), "PosMap(") {
					continue
				}
				ups = append(ups, p.Render(mu.Value))
			}
		}
		c.ExpectAll("posmap/updated-from-result", ups, pat("phi(litefs.(*Store).restoreDBFromBackup(@@)#0|litefs.(*Store).streamBackupDB(@@)#0)"), 1, "a position-map entry is replaced only by the position the sync (or restore) returned", "a remembered position the service does not hold makes the next round skip or fork")
	}
	{
		pm := "litefs.(*FileBackupClient).PosMap"
		upd := func(in ssa.Instruction) bool { _, ok := in.(*ssa.MapUpdate); return ok }
		c.Guarded("posmap/file/no-transaction-file-no-entry", pm, upd, gs(GP("ltx.(Pos).IsZero(litefs.(*FileBackupClient).pos(@@)#0)", false)), 1,
			"the file client lists a database only when its directory holds a transaction file (a non-zero position)",
			"F50: a directory left by a failed first upload (temporary file only) was reported at position zero; a primary without that database then tried to restore it and every sync failed")
		c.ExpectAll("posmap/file/entry-is-computed-position", func() []string {
			var out []string
			for _, in := range Instrs(c.F(pm), upd) {
				mu := in.(*ssa.MapUpdate)
				out = append(out, p.Render(mu.Value))
			}
			return out
		}(), pat("litefs.(*FileBackupClient).pos(@@)#0"), 1, "the entry stored is the position computed from the directory", "")
	}
	c.Guarded("posmap/zero-deletes", st, p.PlainCalls("builtin.delete"), gs(GP("ltx.(Pos).IsZero(@@)", true)), 1, "an entry is deleted only for a zero position", "")
	c.Guarded("posmap/nonzero-updates", st, func(in ssa.Instruction) bool {
		mu, ok := in.(*ssa.MapUpdate)
		return ok && strings.Contains(p.Render(mu.Map), "PosMap(")
	}, gs(GP("ltx.(Pos).IsZero(@@)", false)), 1, "an entry is stored only for a non-zero position", "")
	c.ExpectAll("posmap/remote-pos-arg", c.CallArgs(st, p.PlainCalls("litefs.(*Store).streamBackupDB"), 3), pat("phi(litefs.BackupClient.PosMap(p0.BackupClient, p1)#0|phi(nil))[rangekey(@@)]"), 1, "the remote position passed to the per-database sync is the position-map entry of that database", "")
	c.ErrHandled("posmap/fetch-error", st, p.PlainCalls("litefs.BackupClient.PosMap"), p.PlainCalls("litefs.(*Store).streamBackupDB"), 1, "a failed position-map fetch ends the round", "")

	// ---- hwm ----
	c.hwmFamily("hwm")
	ss := "litefs.(*Store).streamBackupDBSnapshot"
	c.ErrHandled("snapshot/upload-error", ss, p.PlainCalls("litefs.BackupClient.WriteTx"), p.PlainCalls("litefs.(*DB).SetHWM"), 1, "a failed snapshot upload sets no mark and is returned", "")
	{
		cl2 := c.anonWith(ss, p.Calls("litefs.(*DB).WriteSnapshotTo"))
		if cl2 == "" {
			c.fail("snapshot/source", "K6 Origin", "the snapshot upload is produced by DB.WriteSnapshotTo", "", "no closure of streamBackupDBSnapshot calls WriteSnapshotTo", 0)
		} else {
			c.ExpectAll("snapshot/source", c.CallArgs(cl2, p.Calls("litefs.(*DB).WriteSnapshotTo"), 0), "p2", 1, "the snapshot is taken of the database being synced", "")
			c.ExpectAll("snapshot/close-with-error", c.CallArgs(cl2, p.Calls("io.(*PipeWriter).CloseWithError"), 1), pat("litefs.(*DB).WriteSnapshotTo(@@)#2"), 1, "the pipe is closed with the snapshot's error (nil = clean EOF)", "a failed snapshot must not look complete")
		}
	}

	{
		// the position remembered for a snapshot upload is the snapshot's own header/trailer, not a later db.Pos()
		ret := strings.Join(c.returnsMatchingIdxOK(ss, 0), ";")
		snapPos := pat("ltx.NewPos(litefs.(*DB).WriteSnapshotTo(@@)#0.MaxTXID, litefs.(*DB).WriteSnapshotTo(@@)#1.PostApplyChecksum)")
		ok := false
		detail := "returned position originates from " + ret
		if strings.Contains(ret, "WriteSnapshotTo(") && !strings.Contains(ret, "litefs.(*DB).Pos(") {
			ok = true
		} else if ret == "sync/atomic.(*Value).Load(&new(sync/atomic.Value)).(ltx.Pos)" {
			cl2 := c.anonWith(ss, p.Calls("litefs.(*DB).WriteSnapshotTo"))
			if cl2 != "" {
				for _, a := range c.CallArgs(cl2, p.Calls("sync/atomic.(*Value).Store"), 1) {
					if regexpMatch(snapPos, a) {
						ok = true
					} else {
						detail = "the snapshot goroutine publishes " + a
					}
				}
			}
		}
		d := "streamBackupDBSnapshot reports the position of the snapshot it uploaded (MaxTXID of its header, post-apply checksum of its trailer), handed over from the snapshot goroutine"
		if !ok {
			c.fail("snapshot/returns-uploaded-pos", "K6 Origin", d, "a commit that lands between the snapshot and the acknowledgement must not be recorded as uploaded: the service would be believed to hold a transaction it never received", detail, 1)
		} else {
			c.ok("snapshot/returns-uploaded-pos", "K6 Origin", d, 1)
		}
	}

	{
		// the producer of the snapshot holds the database's locks while it writes into the pipe:
		// the consumer side must be closed on every exit, or a client that stops reading early
		// (position mismatch) leaves the producer blocked with those locks held
		closes := p.Calls("io.(*PipeReader).Close", "io.(*PipeReader).CloseWithError")
		cl3 := c.anonWith(ss, closes)
		reg := func(in ssa.Instruction) bool {
			if closes(in) {
				return true // a direct or deferred call in the function itself
			}
			d, ok := in.(*ssa.Defer)
			return ok && cl3 != "" && p.FuncName(p.calleeFunc(d)) == cl3
		}
		c.Before("snapshot/pipe-closed-on-exit", ss, IsReturn, reg, 2, "every exit of streamBackupDBSnapshot has closed (or registered the close of) the read side of the snapshot pipe", "a refused upload is followed by the restore from backup, which needs the write lock: a snapshot goroutine left blocked in the pipe keeps its read locks for ever and the primary never adopts the service's state")
	}

	// ---- service side: file client ----
	fw := "litefs.(*FileBackupClient).WriteTx"
	rename := p.PlainCalls("os.Rename")
	c.Guarded("contig/file/txid", fw, rename, gs(GP("((litefs.(*FileBackupClient).pos(p0, p1, p2)#0.TXID + 1) == @@.MinTXID)", true)), 1, "the file client publishes only a file whose MinTXID is its position's TXID+1", "the service always holds a contiguous chain")
	c.Guarded("contig/file/checksum", fw, rename, gs(G(`\(.*PreApplyChecksum == litefs\.\(\*FileBackupClient\)\.pos\(p0, p1, p2\)#0\.PostApplyChecksum\)|\(litefs\.\(\*FileBackupClient\)\.pos\(p0, p1, p2\)#0\.PostApplyChecksum == .*PreApplyChecksum\)`, true)), 1, "... and whose pre-apply checksum is the position's checksum", "")
	c.Guarded("contig/file/verified", fw, rename, gs(GP("(ltx.(*Decoder).Verify(@@) == nil)", true)), 1, "... after the written file passed verification", "")
	c.Before("contig/file/synced", fw, rename, p.PlainCalls("os.(*File).Sync"), 1, "... and was synced", "")
	c.Before("contig/file/mutex", fw, p.PlainCalls("litefs.(*FileBackupClient).pos"), p.PlainCalls("sync.(*Mutex).Lock"), 1, "position check and publication are one critical section", "two concurrent writers would both pass the contiguity test")
	c.EdgeReturns("contig/file/mismatch-error", fw, G(`\(\(litefs\.\(\*FileBackupClient\)\.pos\(p0, p1, p2\)#0\.TXID \+ 1\) == .*\.MinTXID\)`, false), `ltx\.NewPosMismatchError\(litefs\.\(\*FileBackupClient\)\.pos\(p0, p1, p2\)#0\)`, 1, "a non-contiguous file is refused with a PosMismatchError carrying the service's position", "")
	c.Expect("contig/file/returns-max", strings.Join(c.returnsMatchingIdxOK(fw, 0), ";"), pat("@@.MaxTXID"), "the mark acknowledged is the published file's MaxTXID", "")
	for _, e := range []string{"litefs.(*FileBackupClient).pos", "io.ReadFull", "io.Copy", "os.(*File).Sync", "os.Rename", "internal.Sync"} {
		c.ErrHandled("contig/file/err/"+e[strings.LastIndex(e, ".")+1:], fw, p.PlainCalls(e), nil, 1, "file client: an error of "+e+" is returned", "")
	}

	// ---- service side: lfsc client ----
	{
		nr := p.PlainCalls("lfsc.(*BackupClient).newRequest")
		c.OnlyIn("lfsc/cluster-param/requesters", nr, []string{pat("lfsc.(*BackupClient).PosMap"), pat("lfsc.(*BackupClient).WriteTx"), pat("lfsc.(*BackupClient).FetchSnapshot")}, 3,
			"requests to the service are built by PosMap, WriteTx and FetchSnapshot", "the three must address the same cluster")
		for _, short := range []string{"PosMap", "WriteTx", "FetchSnapshot"} {
			fn := c.F("lfsc.(*BackupClient)." + short)
			// the query value handed to newRequest
			var qv ssa.Value
			for _, in := range Instrs(fn, nr) {
				if v := callVals(in); len(v) > 3 {
					qv = v[3]
				}
			}
			setCluster := func(in ssa.Instruction) bool {
				if !p.PlainCalls("net/url.(Values).Set")(in) {
					return false
				}
				v := callVals(in)
				return len(v) == 3 && qv != nil && v[0] == qv && p.Render(v[1]) == "\"cluster\"" && p.Render(v[2]) == "p0.Cluster"
			}
			c.BeforeG("lfsc/cluster-param/"+short, "lfsc.(*BackupClient)."+short, nr, setCluster, gs(GP("(\"\" == p0.Cluster)", true)), 1,
				short+" puts the configured cluster into the very query it sends (unless none is configured)",
				"positions read from and uploads sent to cluster C, but the snapshot to adopt requested from the default cluster: every sync fails with 404, or the primary adopts another cluster's database of the same name")
		}
	}
	lw := "lfsc.(*BackupClient).WriteTx"
	c.ErrHandled("lfsc/request-error", lw, p.PlainCalls("lfsc.(*BackupClient).doRequest"), p.PlainCalls("ltx.ParseTXID"), 1, "a failed request yields no mark", "")
	c.ExpectAll("lfsc/hwm-from-header", c.CallArgs(lw, p.PlainCalls("ltx.ParseTXID"), 0), pat("net/http.(Header).Get(lfsc.(*BackupClient).doRequest(@@)#0.Header, \"Litefs-Hwm\")"), 1, "the mark is parsed from the response's Litefs-Hwm header", "")
	c.ErrHandled("lfsc/hwm-parse-error", lw, p.PlainCalls("ltx.ParseTXID"), nil, 1, "an unparsable mark is an error", "")
	dr := "lfsc.(*BackupClient).doRequest"
	c.Guarded("lfsc/non-2xx-is-error", dr, func(in ssa.Instruction) bool {
		r, ok := in.(*ssa.Return)
		return ok && len(r.Results) == 2 && p.Render(returnedValue(r, 0)) != "nil" && !(r.Block().Index != 0 && len(r.Block().Preds) == 0)
	}, gs(GP("lfsc.isSuccessfulStatusCode(@@.StatusCode)", true)), 1, "doRequest succeeds only for a 2xx status", "a refused upload must not be recorded as acknowledged")
	c.Expect("lfsc/2xx-def", strings.Join(c.returnsOf("lfsc.isSuccessfulStatusCode"), ";"), pat("phi((p0 < 300)|false)"), "2xx means 200 <= code < 300", "")
	c.GuardedPaths("lfsc/posmismatch-mapping", "lfsc.readResponseError", func(in ssa.Instruction) bool {
		r, ok := in.(*ssa.Return)
		return ok && strings.HasPrefix(p.Render(returnedValue(r, 0)), "ltx.NewPosMismatchError(")
	}, [][]*Guard{{GP("(\"EPOSMISMATCH\" == @@.Code)", true)}}, 1, "EPOSMISMATCH (and only it) maps to ltx.PosMismatchError", "")
	{
		var non []string
		for _, in := range Instrs(c.F("lfsc.readResponseError"), IsReturn) {
			r := in.(*ssa.Return)
			if r.Block().Index != 0 && len(r.Block().Preds) == 0 {
				continue
			}
			if !p.knownNonNil(returnedValue(r, 0), r.Block()) && !strings.HasPrefix(p.Render(returnedValue(r, 0)), "io.ReadAll(") {
				non = append(non, p.Render(returnedValue(r, 0))+" at "+c.where(r))
			}
		}
		d := "readResponseError never returns nil for a non-2xx response"
		if len(non) > 0 {
			c.fail("lfsc/error-nonnil", "K7", d, "", strings.Join(non, "; "), len(non))
		} else {
			c.ok("lfsc/error-nonnil", "K7", d, 1)
		}
	}
}

// ConstInt resolves a package-level integer constant of the root package.
func (p *Prog) ConstInt(pkg, name string) (int64, bool) {
	pk := p.All[modPath]
	if pk == nil {
		return 0, false
	}
	k, ok := pk.Types.Scope().Lookup(name).(*typesConst)
	if !ok {
		return 0, false
	}
	v, exact := constant.Int64Val(k.Val())
	return v, exact
}

// returnsMatchingIdxOK renders result idx of the success returns.
func (c *Ctx) returnsMatchingIdxOK(fname string, idx int) []string {
	var out []string
	seen := map[string]bool{}
	for _, in := range Instrs(c.F(fname), c.P.SuccessReturn) {
		r := in.(*ssa.Return)
		if idx >= len(r.Results) {
			continue
		}
		s := c.P.Render(returnedValue(r, idx))
		if !seen[s] {
			seen[s] = true
			out = append(out, s)
		}
	}
	return out
}

func regexpMatch(re, s string) bool {
	return regexp.MustCompile("^(?:" + re + ")$").MatchString(s)
}

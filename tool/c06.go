package main

import (
	"regexp"
	"strings"

	"golang.org/x/tools/go/ssa"
)

func init() {
	register(&Property{
		ID:    "C06",
		Level: "other",
		Run:   c06,
		Explanation: "Transaction IDs and checksums are touched only through comparisons, so the divergence handling is a finite decision table; the tables are extracted from the code by enumerating every feasible path (phis and local struct cells resolved per path) and compared with the confirmed tables: primary side (streamDB: ahead or same-ID-different-checksum clears the client position, caught-up test on the possibly cleared position, next file requested from the possibly cleared position; streamLTX: TXID 1, missing file, failed verification, pre-checksum mismatch lead to a snapshot, an incremental frame is written only when all four pass), replica side (processLTXStreamFrame: non-snapshot files are accepted only at exactly (MinTXID-1, PreApplyChecksum), the position being read under the write lock; the refusing branch reaches no create/rename/apply), forwarding side (WriteLTXFileAt: sequential TXID and pre-checksum tests and file verification dominate the rename), and chain reset on snapshots.",
		NotDecided: "that a fork of arbitrary length is always detected (checksum collisions: the XOR/CRC design, not code shape); end-state byte identity after the snapshot.",
		Assumptions: []string{"go/ssa faithfully represents the source"},
	})
}

func c06(c *Ctx) {
	c.noPrematureTest("stream/page-size-never-refuses-a-snapshot", "litefs.(*Store).processLTXStreamFrame", `(?i)pagesize`, gs(GP("ltx.(*Header).IsSnapshot(@@)", false)),
		"the replica's stream path tests the page size of an incoming file, if at all, only once the file is known not to be a snapshot", "a node holding the database with another page size (imported anew on the primary) is sent a snapshot: refusing it for its page size makes the node reconnect for ever")
	p := c.P
	sd := "http.(*Server).streamDB"
	dbpos := "litefs.(*DB).Pos(litefs.(*Store).DB(p0.store, p3))"
	cl := "p4[p3]"
	ahead := GP("("+dbpos+".TXID < "+cl+".TXID)", true)
	sameTX := GP("("+dbpos+".TXID == "+cl+".TXID)", true)
	diffChk := GP("("+dbpos+".PostApplyChecksum == "+cl+".PostApplyChecksum)", false)
	sl := p.PlainCalls("http.(*Server).streamLTX")
	args := func(at ssa.Instruction, r PathRender, _ []PathFact) string {
		v := callVals(at)
		return r(v[4]) + " | " + r(v[5])
	}
	c.PathTable("streamdb/next-request", sd, sl, args, []Row{
		{Name: "client ahead of primary", When: gs(ahead), Expect: pat("(zero + 1) | zero")},
		{Name: "same TXID, different checksum", When: gs(sameTX, diffChk), Expect: pat("(zero + 1) | zero")},
		{Name: "on the primary's history and behind", When: nil, Expect: pat("(" + cl + ".TXID + 1) | " + cl + ".PostApplyChecksum")},
	}, 3, "streamDB asks streamLTX for TXID 1 (=> snapshot) when the client is ahead of the primary or at the same TXID with another checksum, otherwise for the client's TXID+1 with the client's checksum as expected pre-checksum",
		"a divergent or stale replica must be resnapshotted, never patched: requesting TXID+1 of a forked position applies the primary's increments on top of foreign data")
	caught := func(in ssa.Instruction) bool {
		r, ok := in.(*ssa.Return)
		if !ok || p.ClassifyReturn(r) != retSuccess {
			return false
		}
		// the caught-up return is the success return reached without writing a frame
		return !strings.Contains(p.Pos(r.Pos()), ":650")
	}
	_ = caught
	rxLess := regexp.MustCompile(`^\((.*) < ` + regexp.QuoteMeta(dbpos) + `\.TXID\)$`)
	which := func(at ssa.Instruction, r PathRender, facts []PathFact) string {
		out := "no-caught-up-test"
		for _, f := range facts {
			if m := rxLess.FindStringSubmatch(f.Cond); m != nil && !f.Val {
				out = m[1]
			}
		}
		return out
	}
	retNil := func(in ssa.Instruction) bool {
		r, ok := in.(*ssa.Return)
		if !ok || len(r.Results) != 1 || p.Render(returnedValue(r, 0)) != "nil" {
			return false
		}
		// exclude the "database unknown on the primary" branch, which writes a DropDB frame first
		for _, x := range r.Block().Instrs {
			if cc := callCommon(x); cc != nil && p.CalleeName(cc) == "builtin.delete" {
				return false
			}
		}
		return true
	}
	c.PathTable("streamdb/caught-up", sd, retNil, which, []Row{
		{Name: "client ahead of primary", When: gs(ahead), Expect: "zero"},
		{Name: "same TXID, different checksum", When: gs(sameTX, diffChk), Expect: "zero"},
		{Name: "otherwise", When: nil, Expect: pat(cl + ".TXID")},
	}, 3, "streamDB reports 'caught up' through clientPos.TXID >= dbPos.TXID evaluated on the possibly cleared position: a cleared position (TXID 0) is caught up only with an empty primary",
		"evaluating the caught-up test before the clearing statements treats a fork of equal length as in sync: the replica keeps serving the dead fork")
	c.GuardedPaths("streamdb/loop-until-caught-up", sd, retNil, [][]*Guard{{G(`\(.* < `+pat(dbpos)+`\.TXID\)`, false)}}, 1, "the only way out of the catch-up loop without error is the caught-up test", "")

	// ---- streamLTX snapshot triggers ----
	st := "http.(*Server).streamLTX"
	frame := p.CallWhere("litefs.WriteStreamFrame", `LTXStreamFrame`)
	body := p.PlainCalls("io.Copy")
	f := "litefs.(*DB).OpenLTXFile(p3, p4)"
	for _, tgt := range []struct {
		n string
		m IM
	}{{"frame", frame}, {"body", body}} {
		c.Guarded("snapshot-triggers/"+tgt.n+"/not-txid1", st, tgt.m, gs(GP("(1 == p4)", false)), 1, "an incremental LTX "+tgt.n+" is written only when the requested TXID is not 1", "C13: files that originated on the client are skipped by it, so starting from TXID 1 always needs a snapshot; and a cleared position requests TXID 1")
		c.Guarded("snapshot-triggers/"+tgt.n+"/file-exists", st, tgt.m, gs(GP("os.IsNotExist("+f+"#1)", false)), 1, "… only when the file exists (retention may have removed it)", "a gap the primary can no longer serve")
		c.Guarded("snapshot-triggers/"+tgt.n+"/open-ok", st, tgt.m, gs(GP("("+f+"#1 == nil)", true)), 1, "… only when the file opened", "")
		c.Guarded("snapshot-triggers/"+tgt.n+"/verified", st, tgt.m, gs(GP("(ltx.(*Decoder).Verify(ltx.NewDecoder("+f+"#0)) == nil)", true)), 1, "… only after the file passed verification", "a corrupt file must never be streamed")
		c.Guarded("snapshot-triggers/"+tgt.n+"/pre-checksum", st, tgt.m, gs(GP("(ltx.(*Decoder).Header(ltx.NewDecoder("+f+"#0)).PreApplyChecksum == p5)", true)), 1, "… only when the file's pre-apply checksum equals the client's checksum", "a pre-checksum that does not match the next file means the client is on another history")
	}
	snap := "http.(*Server).streamLTXSnapshot(p0, p1, p2, p3)"
	for _, e := range []struct {
		n string
		g *Guard
	}{
		{"txid1", GP("(1 == p4)", true)},
		{"missing-file", GP("os.IsNotExist("+f+"#1)", true)},
		{"pre-checksum-mismatch", GP("(ltx.(*Decoder).Header(ltx.NewDecoder("+f+"#0)).PreApplyChecksum == p5)", false)},
	} {
		c.EdgeReturns("snapshot-triggers/fallback/"+e.n, st, e.g, pat(snap+"#1"), 1, "the excluded case '"+e.n+"' ends in streamLTXSnapshot", "it receives a full snapshot and ends at the primary's position")
	}
	c.ExpectAll("snapshot-triggers/file-requested", c.CallArgs(st, p.PlainCalls("litefs.(*DB).OpenLTXFile"), 1), "p4", 1, "the file opened is the one for the requested TXID", "")
	c.Expect("snapshot-triggers/open-path", strings.Join(c.returnsOf("litefs.(*DB).OpenLTXFile"), ";"), pat(`litefs.OS.Open(p0.os, "OPENLTX", litefs.(*DB).LTXPath(p0, p1, p1))#0`), "OpenLTXFile opens the single-transaction file txID-txID", "")

	c.acceptFamily()
	c.chainResetFamily()
}

// acceptFamily: a received or forwarded file must extend the exact current position (C06, C09).
func (c *Ctx) acceptFamily() {
	p := c.P
	isSnap := "ltx.(*Header).IsSnapshot(&new(ltx.Header))"
	// ---- replica refuses ----
	pl := "litefs.(*Store).processLTXStreamFrame"
	db := "litefs.(*Store).CreateDBIfNotExists(p0, p2.Name)#0"
	hdr := "ltx.DecodeHeader(p3)#0"
	posEq := "(litefs.(*DB).Pos(" + db + ") == ltx.Pos{TXID: (" + hdr + ".MinTXID - 1), PostApplyChecksum: " + hdr + ".PreApplyChecksum})"
	for _, tgt := range []struct {
		n string
		m IM
	}{{"create", p.PlainCalls("litefs.OS.Create")}, {"rename", p.PlainCalls("litefs.OS.Rename")}, {"apply", p.PlainCalls("litefs.(*DB).ApplyLTXNoLock")}} {
		c.Guarded("replica-refuse/"+tgt.n, pl, tgt.m, gs(GP(isSnap, true), GP(posEq, true)), 1,
			"the received file is written/published/applied only if it is a snapshot or the database is exactly at (MinTXID-1, PreApplyChecksum)", "any file that does not extend the node's exact current (ID, checksum) is rejected without modifying database or position")
	}
	c.NoPathFromEdge("replica-refuse/mismatch-is-final", pl, GP(posEq, false), Any(p.PlainCalls("litefs.OS.Create"), p.PlainCalls("litefs.OS.Rename"), p.PlainCalls("litefs.(*DB).ApplyLTXNoLock"), p.PlainCalls("litefs.removeFilesExcept")), 1, "after a position mismatch nothing is created, renamed, removed or applied", "")
	c.EdgeReturns("replica-refuse/mismatch-errors", pl, GP(posEq, false), pat("fmt.Errorf(@@)"), 1, "a position mismatch is an error (the stream is dropped and re-established, leading to a snapshot)", "")
	// the position compared is read under the write lock
	fnp := c.F(pl)
	if fnp != nil {
		var posCalls []ssa.Instruction
		for _, b := range fnp.Blocks {
			for _, in := range b.Instrs {
				iff, ok := in.(*ssa.If)
				if !ok {
					continue
				}
				if canon, _ := p.Cond(iff.Cond); canon != posEq && !regexp.MustCompile("^"+pat(posEq)+"$").MatchString(canon) {
					continue
				}
				if bo, ok := iff.Cond.(*ssa.BinOp); ok {
					for _, op := range []ssa.Value{bo.X, bo.Y} {
						if sc := sourceCall(op, 6); sc != nil && p.CalleeName(&sc.Call) == "litefs.(*DB).Pos" {
							posCalls = append(posCalls, sc)
						}
					}
				}
			}
		}
		isPos := func(in ssa.Instruction) bool {
			for _, x := range posCalls {
				if x == in {
					return true
				}
			}
			return false
		}
		c.Before("replica-refuse/position-read-under-lock", pl, isPos, p.PlainCalls("litefs.(*DB).AcquireWriteLock"), 1,
			"the position compared with the incoming header is read after the write lock was acquired", "a position sampled before the lock can be stale when the lock holder (a forwarded commit, a restore, an import) moved the database: the increment would be applied onto data it does not extend")
	}

	// ---- forwarding side ----
	wl := "litefs.(*DB).WriteLTXFileAt"
	h2 := "out:ltx.(*Header).UnmarshalBinary(&new(ltx.Header), new([100]byte)[:100])"
	seq := GP("((litefs.(*DB).Pos(p0).TXID + 1) == "+h2+".MinTXID)", true)
	pre := GP("(litefs.(*DB).Pos(p0).PostApplyChecksum == "+h2+".PreApplyChecksum)", true)
	snapW := GP(isSnap, true)
	for _, tgt := range []struct {
		n string
		m IM
	}{{"create", p.PlainCalls("litefs.OS.Create")}, {"rename", p.PlainCalls("litefs.OS.Rename")}} {
		c.Guarded("forward-refuse/"+tgt.n+"/sequential", wl, tgt.m, gs(snapW, seq), 1, "a non-snapshot file is written only if MinTXID == current TXID + 1", "")
		c.Guarded("forward-refuse/"+tgt.n+"/pre-checksum", wl, tgt.m, gs(snapW, pre), 1, "a non-snapshot file is written only if its pre-apply checksum equals the current checksum", "")
	}
	c.Guarded("forward-refuse/verified-before-rename", wl, p.PlainCalls("litefs.OS.Rename"), gs(GP("(ltx.(*Decoder).Verify(ltx.NewDecoder(@@)) == nil)", true)), 1, "the file is renamed into place only after ltx verification succeeded", "a corrupt body offered to the forwarding endpoint must not enter the log")
	c.Before("forward-refuse/tmp-removed", wl, IsReturn, Any(func(in ssa.Instruction) bool {
		d, ok := in.(*ssa.Defer)
		return ok && len(Instrs(p.calleeFunc(d), p.Calls("litefs.OS.Remove"))) > 0
	}, p.FailureReturn), 1, "the temp file is removed on every exit (deferred)", "")
	c.Before("forward-refuse/header-read-first", wl, p.PlainCalls("litefs.(*DB).Pos"), p.PlainCalls("ltx.(*Header).UnmarshalBinary"), 1, "the header is decoded before the position is compared", "")

}

// chainResetFamily: a snapshot replaces the whole chain (C06, C09).
func (c *Ctx) chainResetFamily() {
	p := c.P
	isSnap := "ltx.(*Header).IsSnapshot(&new(ltx.Header))"
	pl := "litefs.(*Store).processLTXStreamFrame"
	wl := "litefs.(*DB).WriteLTXFileAt"
	db := "litefs.(*Store).CreateDBIfNotExists(p0, p2.Name)#0"
	hdr := "ltx.DecodeHeader(p3)#0"
	h2 := "out:ltx.(*Header).UnmarshalBinary(&new(ltx.Header), new([100]byte)[:100])"
	// ---- chain reset ----
	rmx := p.PlainCalls("litefs.removeFilesExcept")
	c.BeforeG("chain-reset/forward", wl, p.SuccessReturn, rmx, gs(GP(isSnap, false)), 1, "a snapshot written by WriteLTXFileAt has removed the other LTX files before success is reported", "C09: a received snapshot replaces the whole chain")
	for _, f := range []struct{ fn, short string }{{wl, "forward"}, {pl, "replica"}} {
		c.Before("chain-reset/"+f.short+"/publish-before-destroy", f.fn, rmx, p.PlainCalls("litefs.OS.Rename"), 1, f.short+": the other LTX files are removed only after the snapshot file was renamed into place", "removing first leaves the directory without any transaction file if the process dies or the rename fails: the restart reports position zero for a database that still has its pages")
		c.Guarded("chain-reset/"+f.short+"/publish-synced-before-destroy", f.fn, rmx, gs(G(`\(nil == internal\.Sync\(.*\)\)|\(internal\.Sync\(.*\) == nil\)`, true)), 1, f.short+": ... and the directory entry of the new file was synced", "")
	}
	for _, in := range Instrs(c.F(wl), rmx) {
		c.Expect("chain-reset/forward/excepted", c.argR(in, 2), pat("path/filepath.Split(litefs.(*DB).LTXPath(p0, "+h2+".MinTXID, "+h2+".MaxTXID))#1"), "the file kept is the published snapshot", "excepting any other name deletes the snapshot just published")
	}
	c.verifyBeforeDestroy("chain-reset/forward")
	c.BeforeG("chain-reset/replica", pl, p.PlainCalls("litefs.(*DB).ApplyLTXNoLock"), p.PlainCalls("litefs.removeFilesExcept"), gs(GP(isSnap, false)), 1, "a snapshot removes the other LTX files before it is applied (processLTXStreamFrame)", "Open recovers to the highest TXID on disk")
	for _, in := range Instrs(c.F(pl), p.PlainCalls("litefs.removeFilesExcept")) {
		c.Expect("chain-reset/replica/excepted", c.argR(in, 2), pat("path/filepath.Split(litefs.(*DB).LTXPath("+db+", "+hdr+".MinTXID, "+hdr+".MaxTXID))#1"), "the file kept is the published snapshot", "")
	}
	// a streamed file is validated before it is published (as WriteLTXFileAt does)
	tmpDec := pat("ltx.(*Decoder).Verify(ltx.NewDecoder(litefs.OS.Create(p0.OS, \"PROCESSLTX\", @@)#0))")
	verified := G(`\(nil == `+tmpDec+`\)|\(`+tmpDec+` == nil\)`, true)
	c.Guarded("accept/stream/verified-before-rename", pl, p.PlainCalls("litefs.OS.Rename"), gs(verified), 1, "processLTXStreamFrame renames a received file into the LTX directory only after ltx verification of that temporary file succeeded", "a file with a corrupt body is otherwise published, its pages are written into the database and only then the checksum failure stops the node, leaving the corrupt file as the newest transaction")
	c.Before("accept/stream/verify-after-copy", pl, p.CallWhere("ltx.(*Decoder).Verify", "PROCESSLTX"), p.PlainCalls("io.Copy"), 1, "... the verification reads the file after it was copied completely", "")
	c.forwardedExtends("accept/forwarded")
	c.snapshotPageSizeAdopted("resnapshot/page-size-adopted")
	rf := "litefs.removeFilesExcept"
	c.Guarded("chain-reset/keeps-excepted", rf, p.PlainCalls("litefs.OS.Remove"), gs(GP("(os.DirEntry.Name(@@) == p2)", false)), 1, "removeFilesExcept never removes the excepted name", "")
	c.OnlyGuards("chain-reset/removes-all-others", rf, p.PlainCalls("litefs.OS.Remove"), []*Guard{
		GP("(litefs.OS.ReadDir(p0, @@)#1 == nil)", true), G(`\(.* < builtin\.len\(.*\)\)`, true),
		GP("os.DirEntry.IsDir(@@)", false), GP("(os.DirEntry.Name(@@) == p2)", false), G(`\(nil == .*\)`, true), G(`\(nil == .*\)`, false),
	}, 1, "every other regular file of the directory is removed", "a stale file of the abandoned history left behind breaks the single chain")
}

// verifyBeforeDestroy: WriteLTXFileAt (the body of POST /tx and of a backup
// restore) removes the other LTX files of the database only after the incoming
// file was completely written, synced and verified.
func (c *Ctx) verifyBeforeDestroy(prefix string) {
	p := c.P
	wl := "litefs.(*DB).WriteLTXFileAt"
	rm := p.PlainCalls("litefs.removeFilesExcept")
	c.Guarded(prefix+"/destroy-after-verify", wl, rm, gs(GP("(ltx.(*Decoder).Verify(@@) == nil)", true)), 1,
		"the existing LTX files are removed only after the incoming snapshot passed ltx verification", "a truncated or corrupt body with a snapshot header must be rejected without touching the transaction log")
	c.Before(prefix+"/destroy-after-copy", wl, rm, p.PlainCalls("io.Copy"), 1, "... and only after the body was copied completely", "")
	c.Guarded(prefix+"/destroy-after-sync", wl, rm, gs(G(`\(nil == os\.\(\*File\)\.Sync\(.*\)\)|\(os\.\(\*File\)\.Sync\(.*\) == nil\)`, true)), 1, "... and synced", "")
	c.pageSizeBeforeCreate(prefix)
	c.Guarded(prefix+"/destroy-snapshot-only", wl, rm, gs(GP("ltx.(*Header).IsSnapshot(@@)", true)), 1, "only a snapshot (MinTXID 1) replaces the chain", "")
}

// pageSizeBeforeCreate: WriteLTXFileAt writes an incoming file only when its
// page size can be applied (also the part of the family that matters for POST
// /tx, whose handler refuses files that do not extend the position itself).
func (c *Ctx) pageSizeBeforeCreate(prefix string) {
	p := c.P
	wl := "litefs.(*DB).WriteLTXFileAt"
	c.Guarded(prefix+"/snapshot-not-refused-for-page-size", wl, func(in ssa.Instruction) bool {
		r, ok := in.(*ssa.Return)
		return ok && strings.Contains(p.Render(returnedValue(r, 1)), "page size")
	}, gs(GP("ltx.(*Header).IsSnapshot(@@)", false)), 1, "a file is refused for its page size only once it is known not to be a snapshot",
		"F54: the backup service's snapshot of another history with another page size could never be adopted; every sync failed")
	c.GuardedPaths(prefix+"/page-size-before-create", wl, p.PlainCalls("litefs.OS.Create"), [][]*Guard{{GP("(0 == p0.pageSize)", true), G(`\(.*\.PageSize == p0\.pageSize\)|\(p0\.pageSize == .*\.PageSize\)`, true), GP("ltx.(*Header).IsSnapshot(@@)", true)}}, 1,
		"the incoming file is written only when the database's page size is unknown or equals the file's, or the file is a snapshot (which replaces the database whatever its page size, F54)", "a file with another page size is published, the fatal apply fails in writeDatabasePage and the node exits (POST /tx from the lock holder, restore from backup)")
}

// forwardedExtends: POST /tx hands the body to WriteLTXFileAt only after the
// header it read from the body extends the database's current position
// exactly (WriteLTXFileAt itself exempts snapshot-shaped files, for restores).
func (c *Ctx) forwardedExtends(prefix string) {
	p := c.P
	tx := "http.(*Server).handlePostTx"
	wl := p.PlainCalls("litefs.(*DB).WriteLTXFileAt")
	hdr := "out:ltx.(*Header).UnmarshalBinary(&new(ltx.Header), new([100]byte)[:100])"
	pos := "litefs.(*DB).Pos(litefs.(*Store).DB(@@))"
	txid := G(pat("(("+pos+".TXID + 1) == "+hdr+".MinTXID)")+"|"+pat("("+hdr+".MinTXID == ("+pos+".TXID + 1))"), true)
	chk := G(pat("("+pos+".PostApplyChecksum == "+hdr+".PreApplyChecksum)")+"|"+pat("("+hdr+".PreApplyChecksum == "+pos+".PostApplyChecksum)"), true)
	why := "a file shaped like a snapshot (min TXID 1) is accepted by WriteLTXFileAt at any position: forwarded by the lock holder it replaces the primary's whole log and rewinds its position"
	c.Guarded(prefix+"/extends-txid", tx, wl, gs(txid), 1, "POST /tx copies the body only when the header's min TXID is the current TXID + 1", why)
	c.Guarded(prefix+"/extends-checksum", tx, wl, gs(chk), 1, "... and its pre-apply checksum is the current position's checksum", why)
	c.Guarded(prefix+"/header-decoded", tx, wl, gs(G(`\(nil == ltx\.\(\*Header\)\.UnmarshalBinary\(.*\)\)|\(ltx\.\(\*Header\)\.UnmarshalBinary\(.*\) == nil\)`, true)), 1, "... after the header was read and decoded", "")
	c.ExpectAll(prefix+"/same-bytes-forwarded", c.CallArgs(tx, wl, 2), pat("io.MultiReader([bytes.NewReader(new([100]byte)[:100]), p2.Body])"), 1, "the bytes handed on are the inspected header followed by the rest of the body", "")
}

package main

// Path engine over the go/ssa control-flow graph (rule kinds K1-K4) and
// instruction / edge matchers.

import (
	"fmt"
	"go/ast"
	"go/token"
	"go/types"
	"regexp"
	"strings"

	"golang.org/x/tools/go/ssa"
)

// IM matches instructions.
type IM func(ssa.Instruction) bool

// Edge identifies the i'th successor edge of a block.
type Edge struct {
	From *ssa.BasicBlock
	Succ int
}

// Search describes a reachability question inside one function.
type Search struct {
	P     *Prog
	Fn    *ssa.Function
	From  []ssa.Instruction // start after each of these; nil = function entry
	Avoid IM                // paths through such instructions are cut
	Block func(e Edge) bool // edges that may not be taken
	Tgt   IM
}

// Found is the result of a search: the reached target and the block trace.
type Found struct {
	Instr ssa.Instruction
	Trace []*ssa.BasicBlock
}

// Run reports the first target instruction reachable under the constraints.
func (s *Search) Run() *Found {
	type node struct {
		b    *ssa.BasicBlock
		from int
	}
	parent := map[*ssa.BasicBlock]*ssa.BasicBlock{}
	seen := map[*ssa.BasicBlock]bool{}
	var queue []node
	var starts []*ssa.BasicBlock
	if s.From == nil {
		if len(s.Fn.Blocks) == 0 {
			return nil
		}
		queue = append(queue, node{s.Fn.Blocks[0], 0})
		seen[s.Fn.Blocks[0]] = true
	} else {
		for _, in := range s.From {
			if in.Parent() != s.Fn {
				continue
			}
			queue = append(queue, node{in.Block(), indexOf(in) + 1})
			starts = append(starts, in.Block())
		}
	}
	trace := func(b *ssa.BasicBlock) []*ssa.BasicBlock {
		var t []*ssa.BasicBlock
		for x := b; x != nil; x = parent[x] {
			t = append([]*ssa.BasicBlock{x}, t...)
			if len(t) > 500 {
				break
			}
		}
		return t
	}
	for len(queue) > 0 {
		n := queue[0]
		queue = queue[1:]
		cut := false
		for i := n.from; i < len(n.b.Instrs); i++ {
			in := n.b.Instrs[i]
			if s.Avoid != nil && s.Avoid(in) {
				cut = true
				break
			}
			if s.Tgt != nil && s.Tgt(in) {
				return &Found{in, trace(n.b)}
			}
		}
		if cut {
			continue
		}
		for i, sb := range n.b.Succs {
			if s.Block != nil && s.Block(Edge{n.b, i}) {
				continue
			}
			if seen[sb] {
				continue
			}
			seen[sb] = true
			if _, ok := parent[sb]; !ok && sb != n.b {
				parent[sb] = n.b
			}
			queue = append(queue, node{sb, 0})
		}
	}
	_ = starts
	return nil
}

// TraceString renders a block trace with source positions.
func (p *Prog) TraceString(t []*ssa.BasicBlock) string {
	var parts []string
	for _, b := range t {
		pos := token.NoPos
		for _, in := range b.Instrs {
			if in.Pos().IsValid() {
				pos = in.Pos()
				break
			}
		}
		parts = append(parts, fmt.Sprintf("b%d@%s", b.Index, p.Pos(pos)))
	}
	if len(parts) > 24 {
		parts = append(parts[:12], append([]string{"…"}, parts[len(parts)-11:]...)...)
	}
	return strings.Join(parts, " → ")
}

// ---- instruction matchers ----

func callCommon(in ssa.Instruction) *ssa.CallCommon {
	if c, ok := in.(ssa.CallInstruction); ok {
		return c.Common()
	}
	return nil
}

// Calls matches call/defer/go instructions whose callee name is one of names.
func (p *Prog) Calls(names ...string) IM {
	set := map[string]bool{}
	for _, n := range names {
		set[n] = true
	}
	return func(in ssa.Instruction) bool {
		c := callCommon(in)
		return c != nil && set[p.CalleeName(c)]
	}
}

// CallsRe matches call instructions whose callee name matches the regexp.
func (p *Prog) CallsRe(re string) IM {
	rx := regexp.MustCompile("^(?:" + re + ")$")
	return func(in ssa.Instruction) bool {
		c := callCommon(in)
		return c != nil && rx.MatchString(p.CalleeName(c))
	}
}

// PlainCalls is Calls restricted to ordinary (non-defer, non-go) calls.
func (p *Prog) PlainCalls(names ...string) IM {
	m := p.Calls(names...)
	return func(in ssa.Instruction) bool {
		_, ok := in.(*ssa.Call)
		return ok && m(in)
	}
}

// calleeFunc resolves the repo function called by an instruction (static
// callee or directly invoked closure), else nil.
func (p *Prog) calleeFunc(in ssa.Instruction) *ssa.Function {
	c := callCommon(in)
	if c == nil || c.IsInvoke() {
		return nil
	}
	if fn := c.StaticCallee(); fn != nil {
		return fn
	}
	if mc, ok := c.Value.(*ssa.MakeClosure); ok {
		return mc.Fn.(*ssa.Function)
	}
	return nil
}

// Reaching matches an instruction matching m, or a call/defer/go of a repo
// function or closure whose body (to the given depth of static calls)
// contains an instruction matching m. This is the bounded wrapper summary
// ("the call performs effect e").
func (p *Prog) Reaching(depth int, m IM) IM {
	memo := map[*ssa.Function]int{} // 0 unknown, 1 yes, 2 no, 3 in progress
	var has func(fn *ssa.Function, d int) bool
	has = func(fn *ssa.Function, d int) bool {
		if fn == nil || len(fn.Blocks) == 0 {
			return false
		}
		if fn.Pkg == nil || !strings.HasPrefix(fn.Pkg.Pkg.Path(), modPath) {
			return false
		}
		switch memo[fn] {
		case 1:
			return true
		case 2, 3:
			return false
		}
		memo[fn] = 3
		res := false
	outer:
		for _, b := range fn.Blocks {
			for _, in := range b.Instrs {
				if m(in) {
					res = true
					break outer
				}
				if d > 0 {
					if cf := p.calleeFunc(in); cf != nil && has(cf, d-1) {
						res = true
						break outer
					}
				}
			}
		}
		if res {
			memo[fn] = 1
		} else {
			memo[fn] = 0 // depth dependent: do not cache negatives
		}
		return res
	}
	return func(in ssa.Instruction) bool {
		if m(in) {
			return true
		}
		if cf := p.calleeFunc(in); cf != nil {
			return has(cf, depth-1)
		}
		return false
	}
}

// Any matches if any of the matchers match.
func Any(ms ...IM) IM {
	return func(in ssa.Instruction) bool {
		for _, m := range ms {
			if m(in) {
				return true
			}
		}
		return false
	}
}

// CallWhere matches calls to name whose rendered call expression matches re.
func (p *Prog) CallWhere(name, re string) IM {
	rx := regexp.MustCompile(re)
	base := p.Calls(name)
	return func(in ssa.Instruction) bool {
		if !base(in) {
			return false
		}
		r := &renderer{p: p, active: map[ssa.Value]bool{}, memo: map[ssa.Value]string{}}
		return rx.MatchString(r.call(callCommon(in), 0))
	}
}

// RenderCall renders a call instruction.
func (p *Prog) RenderCall(in ssa.Instruction) string {
	c := callCommon(in)
	if c == nil {
		return ""
	}
	r := &renderer{p: p, active: map[ssa.Value]bool{}, memo: map[ssa.Value]string{}}
	return r.call(c, 0)
}

// fieldWriteTarget returns the field path written by the instruction, if any:
// plain stores to x.f, map updates of x.f[k], calls of mutating methods on
// &x.f (atomic.Value.Store, atomic.Uint32.Store, CompareAndSwap, Swap, Add)
// and sync/atomic.StoreT(&x.f, v).
func (p *Prog) fieldWriteTarget(in ssa.Instruction) (string, bool) {
	switch in := in.(type) {
	case *ssa.Store:
		if fa, ok := in.Addr.(*ssa.FieldAddr); ok {
			return fieldPathOf(fa), true
		}
		if ia, ok := in.Addr.(*ssa.IndexAddr); ok {
			if fp, ok := loadedField(ia.X); ok {
				return fp + "[]", true
			}
		}
	case *ssa.MapUpdate:
		if fp, ok := loadedField(in.Map); ok {
			return fp + "[]", true
		}
	case ssa.CallInstruction:
		c := in.Common()
		name := p.CalleeName(c)
		if c.IsInvoke() {
			return "", false
		}
		mutating := false
		switch {
		case strings.HasPrefix(name, "sync/atomic.(*") && (strings.HasSuffix(name, ").Store") || strings.HasSuffix(name, ").CompareAndSwap") || strings.HasSuffix(name, ").Swap") || strings.HasSuffix(name, ").Add")):
			mutating = true
		case strings.HasPrefix(name, "sync/atomic.Store") || strings.HasPrefix(name, "sync/atomic.Add") || strings.HasPrefix(name, "sync/atomic.Swap") || strings.HasPrefix(name, "sync/atomic.CompareAndSwap"):
			mutating = true
		}
		if mutating && len(c.Args) > 0 {
			if fa, ok := c.Args[0].(*ssa.FieldAddr); ok {
				return fieldPathOf(fa), true
			}
		}
		if name == "builtin.delete" && len(c.Args) > 0 {
			if fp, ok := loadedField(c.Args[0]); ok {
				return fp + "[]", true
			}
		}
	}
	return "", false
}

func loadedField(v ssa.Value) (string, bool) {
	if u, ok := v.(*ssa.UnOp); ok && u.Op == token.MUL {
		if fa, ok := u.X.(*ssa.FieldAddr); ok {
			return fieldPathOf(fa), true
		}
	}
	if fa, ok := v.(*ssa.FieldAddr); ok { // array field
		return fieldPathOf(fa), true
	}
	return "", false
}

// Writes matches instructions that write one of the given field paths
// ("litefs.DB.pos"; element writes are "litefs.DB.dirtyPageSet[]").
func (p *Prog) Writes(paths ...string) IM {
	set := map[string]bool{}
	for _, n := range paths {
		set[n] = true
	}
	return func(in ssa.Instruction) bool {
		fp, ok := p.fieldWriteTarget(in)
		return ok && set[fp]
	}
}

// IsReturn matches return instructions.
func IsReturn(in ssa.Instruction) bool { _, ok := in.(*ssa.Return); return ok }

// ---- return classification ----

type retClass int

const (
	retSuccess retClass = iota // last result is nil / true, or may be nil
	retFailure                 // last result is a definitely non-nil error / false
	retOther
)

// returnedValue finds the value of result i at a return, looking through the
// store/rundefers/load sequence generated for named results.
func returnedValue(ret *ssa.Return, i int) ssa.Value {
	if i >= len(ret.Results) {
		return nil
	}
	v := ret.Results[i]
	if u, ok := v.(*ssa.UnOp); ok && u.Op == token.MUL {
		if cell, ok := u.X.(*ssa.Alloc); ok {
			b := ret.Block()
			for j := indexOf(ret) - 1; j >= 0; j-- {
				if st, ok := b.Instrs[j].(*ssa.Store); ok && st.Addr == ssa.Value(cell) {
					return st.Val
				}
			}
		}
	}
	return v
}

func isErrorType(t types.Type) bool {
	return types.Identical(t, types.Universe.Lookup("error").Type())
}

// sameValue reports whether a and b denote the same runtime value: identical
// SSA values, or loads of the same local cell.
func sameValue(a, b ssa.Value) bool {
	if a == b {
		return true
	}
	ua, ok1 := a.(*ssa.UnOp)
	ub, ok2 := b.(*ssa.UnOp)
	if ok1 && ok2 && ua.Op == token.MUL && ub.Op == token.MUL && ua.X == ub.X {
		if _, ok := ua.X.(*ssa.Alloc); ok {
			return true
		}
		if _, ok := ua.X.(*ssa.FreeVar); ok {
			return true
		}
	}
	return false
}

func stripIface(v ssa.Value) ssa.Value {
	for {
		switch x := v.(type) {
		case *ssa.ChangeInterface:
			v = x.X
		case *ssa.ChangeType:
			v = x.X
		default:
			return v
		}
	}
}

// knownNonNil reports whether error value v is definitely non-nil at block b.
func (p *Prog) knownNonNil(v ssa.Value, b *ssa.BasicBlock) bool {
	v = stripIface(v)
	switch x := v.(type) {
	case *ssa.Const:
		return false
	case *ssa.MakeInterface:
		return true
	case *ssa.Call:
		switch p.CalleeName(&x.Call) {
		case "fmt.Errorf", "errors.New", "ltx.NewPosMismatchError", "litefs.contextErr":
			// litefs.contextErr: non-nil by the Context contract when called after Done() was
			// closed (decided separately: C12.blocking/contextErr). context.Cause is NOT in this
			// list: for contexts that do not track a cause it returns nil even when done.
			return true
		}
	case *ssa.UnOp:
		if g, ok := x.X.(*ssa.Global); ok && x.Op == token.MUL {
			_ = g
			return true // package-level sentinel errors are never nil
		}
	case *ssa.Phi:
		all := true
		for _, e := range x.Edges {
			if !p.knownNonNil(e, b) {
				all = false
			}
		}
		if all && len(x.Edges) > 0 {
			return true
		}
	}
	// dominated by the non-nil edge of a nil test on the same value
	for cur := b; cur != nil; cur = cur.Idom() {
		if len(cur.Preds) != 1 {
			continue
		}
		pr := cur.Preds[0]
		iff, ok := pr.Instrs[len(pr.Instrs)-1].(*ssa.If)
		if !ok {
			continue
		}
		bo, ok := iff.Cond.(*ssa.BinOp)
		if !ok || (bo.Op != token.EQL && bo.Op != token.NEQ) {
			continue
		}
		var other ssa.Value
		if c, ok := bo.Y.(*ssa.Const); ok && c.Value == nil {
			other = bo.X
		} else if c, ok := bo.X.(*ssa.Const); ok && c.Value == nil {
			other = bo.Y
		} else {
			continue
		}
		if !sameValue(stripIface(other), v) {
			continue
		}
		trueEdge := pr.Succs[0] == cur
		if pr.Succs[0] == pr.Succs[1] {
			continue
		}
		if (bo.Op == token.NEQ && trueEdge) || (bo.Op == token.EQL && !trueEdge) {
			return true
		}
	}
	return false
}

// ClassifyReturn classifies a return by its last result.
func (p *Prog) ClassifyReturn(ret *ssa.Return) retClass {
	fn := ret.Parent()
	res := fn.Signature.Results()
	if res.Len() == 0 {
		return retSuccess
	}
	last := res.Len() - 1
	v := returnedValue(ret, last)
	t := res.At(last).Type()
	switch {
	case isErrorType(t):
		if c, ok := stripIface(v).(*ssa.Const); ok && c.Value == nil {
			return retSuccess
		}
		if p.knownNonNil(v, ret.Block()) {
			return retFailure
		}
		return retSuccess // may be nil: treated as a success exit
	case types.Identical(t.Underlying(), types.Typ[types.Bool]):
		if c, ok := v.(*ssa.Const); ok && c.Value != nil {
			if c.Value.ExactString() == "true" {
				return retSuccess
			}
			return retFailure
		}
		return retSuccess
	case isPointerLike(t):
		if c, ok := v.(*ssa.Const); ok && c.Value == nil {
			return retFailure
		}
		return retSuccess
	}
	return retOther
}

func isPointerLike(t types.Type) bool {
	switch t.Underlying().(type) {
	case *types.Pointer:
		return true
	}
	return false
}

// SuccessReturn matches returns that are (possibly) success exits (the
// synthetic recover block is not an exit of the source function).
func (p *Prog) SuccessReturn(in ssa.Instruction) bool {
	r, ok := in.(*ssa.Return)
	if !ok {
		return false
	}
	if b := r.Block(); b.Index != 0 && len(b.Preds) == 0 {
		return false
	}
	return p.ClassifyReturn(r) != retFailure
}

// FailureReturn matches returns that are definitely failure exits.
func (p *Prog) FailureReturn(in ssa.Instruction) bool {
	r, ok := in.(*ssa.Return)
	return ok && p.ClassifyReturn(r) == retFailure
}

// ---- guards (edges) ----

// Guard describes a branch fact: the canonical condition matching Re has the
// truth value Val.
type Guard struct {
	Re  string
	Val bool
	rx  *regexp.Regexp
}

func G(re string, val bool) *Guard {
	return &Guard{Re: re, Val: val, rx: regexp.MustCompile("^(?:" + re + ")$")}
}

// EdgeAsserts reports whether taking edge e establishes guard g.
func (p *Prog) EdgeAsserts(e Edge, g *Guard) bool {
	if len(e.From.Instrs) == 0 {
		return false
	}
	iff, ok := e.From.Instrs[len(e.From.Instrs)-1].(*ssa.If)
	if !ok {
		return false
	}
	canon, neg := p.Cond(iff.Cond)
	if !g.rx.MatchString(canon) {
		return false
	}
	condTrue := e.Succ == 0
	canonVal := condTrue != neg
	return canonVal == g.Val
}

// EdgesAsserting returns a Block function that forbids edges establishing any
// of the guards (used to decide "every path to T passes one of these edges").
func (p *Prog) EdgesAsserting(gs ...*Guard) func(Edge) bool {
	memo := map[Edge]bool{}
	return func(e Edge) bool {
		if v, ok := memo[e]; ok {
			return v
		}
		res := false
		for _, g := range gs {
			if p.EdgeAsserts(e, g) {
				res = true
				break
			}
		}
		memo[e] = res
		return res
	}
}

// CountGuardEdges counts edges in fn that establish g (vacuity floor).
func (p *Prog) CountGuardEdges(fn *ssa.Function, g *Guard) int {
	n := 0
	for _, b := range fn.Blocks {
		for i := range b.Succs {
			if p.EdgeAsserts(Edge{b, i}, g) {
				n++
			}
		}
	}
	return n
}

// Instrs returns all instructions of fn matching m, in block order.
func Instrs(fn *ssa.Function, m IM) []ssa.Instruction {
	var out []ssa.Instruction
	if fn == nil {
		return nil
	}
	for _, b := range fn.Blocks {
		for _, in := range b.Instrs {
			if m(in) {
				out = append(out, in)
			}
		}
	}
	return out
}

// InstrsDeep is Instrs over fn and all its anonymous functions.
func InstrsDeep(fn *ssa.Function, m IM) []ssa.Instruction {
	out := Instrs(fn, m)
	if fn != nil {
		for _, an := range fn.AnonFuncs {
			out = append(out, InstrsDeep(an, m)...)
		}
	}
	return out
}

// enclosingReturnStmt is unused by decisions; kept for diagnostics.
func (p *Prog) enclosingReturnStmt(fn *ssa.Function, pos token.Pos) *ast.ReturnStmt {
	var found *ast.ReturnStmt
	if fn.Syntax() == nil {
		return nil
	}
	ast.Inspect(fn.Syntax(), func(n ast.Node) bool {
		if r, ok := n.(*ast.ReturnStmt); ok && r.Return == pos {
			found = r
		}
		return found == nil
	})
	return found
}

// ---- path enumeration with per-path phi resolution (K2, second stage) ----

// PathFact is a branch fact collected along a path: the canonical condition
// (phis resolved to the operand of the edge taken) and its truth value.
type PathFact struct {
	Cond string
	Val  bool
	v    ssa.Value // the (phi-resolved) condition value; identity decides contradictions
	gen  int       // how often the block defining v had been entered when the fact was recorded
	ops  []opGen   // for comparisons of stable operands: the operands and their generations
}

// opGen is one operand of a comparison with the generation of its defining block.
type opGen struct {
	v   ssa.Value
	gen int
}

// PathRender renders a value in the context of the current path.
type PathRender func(v ssa.Value) string

type pathEnum struct {
	p      *Prog
	fn     *ssa.Function
	target IM
	visit  func(facts []PathFact, trace []*ssa.BasicBlock, at ssa.Instruction)
	visitR func(facts []PathFact, trace []*ssa.BasicBlock, at ssa.Instruction, r PathRender)
	cap    int
	n      int
	over   bool
}

// EnumPaths enumerates the feasible paths from entry to instructions matching
// target (each block at most twice per path). Along a path a phi denotes the
// operand of the edge taken and an If whose condition resolves to a constant
// can only be left by the matching edge. Returns the number of paths and
// whether the cap was exceeded.
func (p *Prog) EnumPaths(fn *ssa.Function, target IM, cap int, visit func(facts []PathFact, trace []*ssa.BasicBlock, at ssa.Instruction)) (int, bool) {
	pe := &pathEnum{p: p, fn: fn, target: target, visit: visit, cap: cap}
	if len(fn.Blocks) == 0 {
		return 0, false
	}
	pe.walk(fn.Blocks[0], nil, map[*ssa.Phi]ssa.Value{}, nil, nil, nil, map[*ssa.BasicBlock]int{})
	return pe.n, pe.over
}

// EnumPathsR is EnumPaths whose callback also receives a renderer bound to
// the path (phis and local cells resolved to their values on this path).
func (p *Prog) EnumPathsR(fn *ssa.Function, target IM, cap int, visit func(facts []PathFact, trace []*ssa.BasicBlock, at ssa.Instruction, r PathRender)) (int, bool) {
	pe := &pathEnum{p: p, fn: fn, target: target, visitR: visit, cap: cap}
	if len(fn.Blocks) == 0 {
		return 0, false
	}
	pe.walk(fn.Blocks[0], nil, map[*ssa.Phi]ssa.Value{}, nil, nil, nil, map[*ssa.BasicBlock]int{})
	return pe.n, pe.over
}

func resolveEnv(env map[*ssa.Phi]ssa.Value, v ssa.Value) ssa.Value {
	for i := 0; i < 16; i++ {
		ph, ok := v.(*ssa.Phi)
		if !ok {
			return v
		}
		nv, ok := env[ph]
		if !ok {
			return v
		}
		v = nv
	}
	return v
}

func (pe *pathEnum) walk(b *ssa.BasicBlock, pred *ssa.BasicBlock, env map[*ssa.Phi]ssa.Value, cells []cellEntry, facts []PathFact, trace []*ssa.BasicBlock, seen map[*ssa.BasicBlock]int) {
	if pe.over {
		return
	}
	if seen[b] >= 2 {
		return
	}
	seen[b]++
	defer func() { seen[b]-- }()
	trace = append(trace, b)
	// resolve phis (parallel assignment)
	if pred != nil {
		idx := -1
		for i, pb := range b.Preds {
			if pb == pred {
				idx = i
			}
		}
		var upd []struct {
			ph *ssa.Phi
			v  ssa.Value
		}
		for _, in := range b.Instrs {
			ph, ok := in.(*ssa.Phi)
			if !ok {
				break
			}
			if idx >= 0 && idx < len(ph.Edges) {
				upd = append(upd, struct {
					ph *ssa.Phi
					v  ssa.Value
				}{ph, resolveEnv(env, ph.Edges[idx])})
			}
		}
		if len(upd) > 0 {
			ne := make(map[*ssa.Phi]ssa.Value, len(env)+len(upd))
			for k, v := range env {
				ne[k] = v
			}
			for _, u := range upd {
				ne[u.ph] = u.v
			}
			env = ne
		}
	}
	setCell := func(l loc, v ssa.Value) {
		cells = append(cells[:len(cells):len(cells)], cellEntry{l, v})
	}
	for _, in := range b.Instrs {
		if pe.target(in) {
			pe.n++
			if pe.n > pe.cap {
				pe.over = true
				return
			}
			// facts about values whose defining block has been re-entered since
			// (earlier loop iterations) say nothing about the current values
			live := make([]PathFact, 0, len(facts))
			for _, f := range facts {
				if ci, ok := f.v.(ssa.Instruction); ok && ci.Block() != nil && f.gen != seen[ci.Block()] {
					continue
				}
				live = append(live, f)
			}
			facts := live
			if pe.visitR != nil {
				envc, cellsc := env, cells
				pe.visitR(facts, trace, in, func(v ssa.Value) string {
					r := &renderer{p: pe.p, active: map[ssa.Value]bool{}, memo: map[ssa.Value]string{}, env: envc, cells: cellsc}
					return r.val(v, 0)
				})
			} else {
				pe.visit(facts, trace, in)
			}
			return
		}
		switch x := in.(type) {
		case *ssa.Store:
			if l, ok := addrLoc(x.Addr); ok && l.base.Parent() == pe.fn {
				setCell(l, resolveEnv(env, x.Val))
			}
		case ssa.CallInstruction:
			for _, a := range callVals(in) {
				if mi, ok := a.(*ssa.MakeInterface); ok {
					a = mi.X
				}
				if l, ok := addrLoc(a); ok && l.base.Parent() == pe.fn {
					if _, isPtr := a.Type().Underlying().(*types.Pointer); isPtr {
						setCell(loc{l.base, nil}, nil) // escapes into a call: forget
					}
				}
			}
		}
	}
	if len(b.Instrs) == 0 {
		return
	}
	switch last := b.Instrs[len(b.Instrs)-1].(type) {
	case *ssa.If:
		cond := last.Cond
		neg := false
		for {
			cond = resolveEnv(env, cond)
			u, ok := cond.(*ssa.UnOp)
			if !ok || u.Op != token.NOT {
				break
			}
			cond = u.X
			neg = !neg
		}
		if c, ok := cond.(*ssa.Const); ok && c.Value != nil {
			t := c.Value.ExactString() == "true"
			if neg {
				t = !t
			}
			if t {
				pe.walk(b.Succs[0], b, env, cells, facts, trace, seen)
			} else {
				pe.walk(b.Succs[1], b, env, cells, facts, trace, seen)
			}
			return
		}
		r := &renderer{p: pe.p, active: map[ssa.Value]bool{}, memo: map[ssa.Value]string{}, env: env, cells: cells}
		canon, cneg := r.cond(cond)
		if neg {
			cneg = !cneg
		}
		// a comparison of two literals (after phi resolution on this path) is decided
		if m := litCmpRx.FindStringSubmatch(canon); m != nil {
			truth := m[1] == m[2]
			g := 0
			if ci, ok := cond.(ssa.Instruction); ok && ci.Block() != nil {
				g = seen[ci.Block()]
			}
			nf := append(append([]PathFact{}, facts...), PathFact{Cond: canon, Val: truth, v: cond, gen: g})
			if truth != cneg {
				pe.walk(b.Succs[0], b, env, cells, nf, trace, seen)
			} else {
				pe.walk(b.Succs[1], b, env, cells, nf, trace, seen)
			}
			return
		}
		// generation of the condition value: a value is re-evaluated each time
		// its defining block is re-entered (loops), so an earlier fact about it
		// is only binding within the same generation
		gen := 0
		if ci, ok := cond.(ssa.Instruction); ok && ci.Block() != nil {
			gen = seen[ci.Block()]
		}
		ops := pe.p.stableOperands(cond, seen)
		for i, sb := range b.Succs {
			val := (i == 0) != cneg
			contra := false
			for _, f := range facts {
				if f.v == cond && f.gen == gen && f.Val != val {
					contra = true // the same evaluation cannot be both true and false on one path
				}
				// two comparisons (no CSE in go/ssa) of the same immutable operands in the
				// same generation have the same value
				if ops != nil && f.ops != nil && f.Cond == canon && f.Val != val && sameOps(ops, f.ops) {
					contra = true
				}
			}
			if contra {
				continue // contradicts an earlier fact on the same operands
			}
			// a re-evaluation supersedes the earlier fact with the same canonical text
			nf := make([]PathFact, 0, len(facts)+1)
			for _, f := range facts {
				if f.Cond == canon && f.v == cond && f.gen != gen {
					continue
				}
				nf = append(nf, f)
			}
			nf = append(nf, PathFact{canon, val, cond, gen, ops})
			pe.walk(sb, b, env, cells, nf, trace, seen)
		}
	default:
		for _, sb := range b.Succs {
			pe.walk(sb, b, env, cells, facts, trace, seen)
		}
	}
}


// MapUpdateOn matches map updates whose map operand renders to a string
// matching re (e.g. a local make(map[...]) or a field).
func (p *Prog) MapUpdateOn(re string) IM {
	rx := regexp.MustCompile("^(?:" + re + ")$")
	return func(in ssa.Instruction) bool {
		mu, ok := in.(*ssa.MapUpdate)
		return ok && rx.MatchString(p.Render(mu.Map))
	}
}

// IndexStoreOn matches stores to elements of a slice/array whose rendering
// matches re.
func (p *Prog) IndexStoreOn(re string) IM {
	rx := regexp.MustCompile("^(?:" + re + ")$")
	return func(in ssa.Instruction) bool {
		st, ok := in.(*ssa.Store)
		if !ok {
			return false
		}
		ia, ok := st.Addr.(*ssa.IndexAddr)
		return ok && rx.MatchString(p.Render(ia.X))
	}
}

// pureAccessors: functions whose result depends only on their (value) arguments.
var pureAccessors = map[string]bool{
	"ltx.(Pos).IsZero": true,
}

var litCmpRx = regexp.MustCompile(`^\(("(?:[^"\\]|\\.)*"|-?\d+) == ("(?:[^"\\]|\\.)*"|-?\d+)\)$`)

func sameOps(a, b []opGen) bool {
	if len(a) != len(b) {
		return false
	}
	for i := range a {
		if a[i].gen != b[i].gen {
			return false
		}
		ca, okA := a[i].v.(*ssa.Const)
		cb, okB := b[i].v.(*ssa.Const)
		if okA && okB {
			if ca.String() != cb.String() {
				return false
			}
			continue
		}
		if a[i].v != b[i].v {
			return false
		}
	}
	return true
}

// stableOperands returns the operands of an ==/!=/< comparison when both are
// immutable within a generation: SSA registers (calls, extracts, parameters,
// constants) or loads of package-level variables that are never stored to
// outside their package initialiser (sentinel errors). nil otherwise.
func (p *Prog) stableOperands(cond ssa.Value, seen map[*ssa.BasicBlock]int) []opGen {
	// a call of a function known to be pure (value receiver, no side effects), with
	// parameters or constants as arguments, yields the same answer every time
	// it is evaluated in the function: two such calls are one fact
	if call, ok := cond.(*ssa.Call); ok {
		fn := call.Call.StaticCallee()
		if fn == nil || !pureAccessors[p.CalleeName(&call.Call)] {
			return nil
		}
		out := []opGen{{fn, 0}}
		for _, a := range call.Call.Args {
			// a struct parameter is spilled to a local cell; a load of a cell that is
			// only ever stored the parameter is the parameter
			if u, ok := a.(*ssa.UnOp); ok && u.Op == token.MUL {
				if al, ok := u.X.(*ssa.Alloc); ok && al.Referrers() != nil {
					var src ssa.Value
					n := 0
					for _, r := range *al.Referrers() {
						if st, ok := r.(*ssa.Store); ok && st.Addr == ssa.Value(al) {
							n++
							src = st.Val
						}
					}
					if par, ok := src.(*ssa.Parameter); ok && n == 1 {
						a = par
					}
				}
			}
			switch a.(type) {
			case *ssa.Const, *ssa.Parameter:
				out = append(out, opGen{a, 0})
			default:
				return nil
			}
		}
		return out
	}
	b, ok := cond.(*ssa.BinOp)
	if !ok {
		return nil
	}
	var out []opGen
	for _, o := range []ssa.Value{b.X, b.Y} {
		for {
			if mi, ok := o.(*ssa.MakeInterface); ok {
				o = mi.X
				continue
			}
			if cv, ok := o.(*ssa.ChangeInterface); ok {
				o = cv.X
				continue
			}
			break
		}
		switch x := o.(type) {
		case *ssa.Const, *ssa.Parameter:
			out = append(out, opGen{o, 0})
		case *ssa.Call, *ssa.Extract, *ssa.Phi:
			g := 0
			if in, ok := o.(ssa.Instruction); ok && in.Block() != nil {
				g = seen[in.Block()]
			}
			out = append(out, opGen{o, g})
		case *ssa.UnOp:
			gl, ok := x.X.(*ssa.Global)
			if !ok || x.Op != token.MUL || !p.globalIsConstant(gl) {
				return nil
			}
			out = append(out, opGen{gl, 0})
		default:
			return nil
		}
	}
	return out
}

// globalIsConstant: the package-level variable is stored to only by its package's init.
func (p *Prog) globalIsConstant(g *ssa.Global) bool {
	if p.constGlobals == nil {
		p.constGlobals = map[*ssa.Global]bool{}
		written := map[*ssa.Global]bool{}
		for _, fn := range p.AllFuncs() {
			if fn.Name() == "init" && fn.Parent() == nil {
				continue
			}
			for _, b := range fn.Blocks {
				for _, in := range b.Instrs {
					if st, ok := in.(*ssa.Store); ok {
						if gg, ok := st.Addr.(*ssa.Global); ok {
							written[gg] = true
						}
					}
				}
			}
		}
		p.writtenGlobals = written
	}
	return !p.writtenGlobals[g]
}

package main

import (
	"fmt"
	"strings"
)

// Frozen decision tables of the journal reader (shared by C05 and C17): the
// complete set of branch facts under which a journal segment / record is
// accepted. Each fact was confirmed by reading against SQLite's rules; any
// added, removed or altered condition changes the canonical fact and fails.

func (c *Ctx) journalValidity(prefix string) {
	p := c.P
	nx := "litefs.(*JournalReader).Next"
	hdr := "new([28]byte)[:28]"
	u32 := func(off string) string {
		return "encoding/binary.(bigEndian).Uint32(encoding/binary.BigEndian, " + hdr + "[" + off + ":])"
	}
	rd := "internal.ReadFullAt(p0.f, " + hdr + ", p0.offset)#1"
	both := func(s string) []*Guard { return []*Guard{GP(s, true), GP(s, false)} }
	var allowed []*Guard
	allowed = append(allowed, both("(nil == p0.fi)")...)
	allowed = append(allowed, GP("(nil == os.(*File).Stat(p0.f)#1)", true))
	allowed = append(allowed, GP("(0 == p0.pageSize)", false))
	allowed = append(allowed, GP("("+rd+" == io.EOF)", false), GP("("+rd+" == io.ErrUnexpectedEOF)", false), GP("("+rd+" == nil)", true))
	allowed = append(allowed, GP("litefs.isByteSliceZero("+hdr+")", false))
	allowed = append(allowed, both("(0 < p0.offset)")...)
	allowed = append(allowed, GP("bytes.Equal("+hdr+`[:8], "\xd9\xd5\x05\xf9 \xa1c\xd7")`, true))
	allowed = append(allowed, both("(-1 == p0.frameN)")...)
	allowed = append(allowed, both("(0 == p0.frameN)")...)
	allowed = append(allowed, both("(0 == p0.offset)")...)
	allowed = append(allowed, GP("("+u32("20")+" < 32)", false), GP("(65536 < "+u32("20")+")", false), GP("(("+u32("20")+" & ("+u32("20")+" - 1)) == 0)", true))
	allowed = append(allowed, both("(0 == "+u32("24")+")")...)
	allowed = append(allowed, GP("("+u32("24")+" == p0.pageSize)", true), GP("(p0.pageSize == p0.pageSize)", true))
	allowed = append(allowed, GP("(os.FileInfo.Size(p0.fi) < (p0.offset + p0.sectorSize))", false))
	c.OnlyGuards(prefix+"/segment-accepted", nx, p.Writes("litefs.JournalReader.isValid"), allowed, 4,
		"a journal segment is accepted (isValid=true, nil returned) exactly under the confirmed decision table: header fully read, not zeroed, magic present, valid sector size, page size equal to the database's, file at least one sector long past the header offset",
		"C17/C05: rollback must restore the pre-transaction size for every journal SQLite can leave behind; a narrowed test (e.g. '>=' for '>' on the one-sector journal) skips the resize, a widened one rolls back garbage")
	{
		// per-segment fields are read from every segment header, not only the first
		fn := c.F(nx)
		later := func(e Edge) bool {
			return p.EdgeAsserts(e, GP("(0 == p0.offset)", true)) || p.EdgeAsserts(e, GP("(0 < p0.offset)", false))
		}
		for _, fld := range []struct{ f, off, why string }{
			{"nonce", "12", "SQLite draws a new checksum nonce for every journal header: records of later segments fail verification under the first segment's nonce and are silently not rolled back"},
			{"frameN", "8", "each segment has its own record count"},
		} {
			key, rule := prefix+"/per-segment/"+fld.f, "K4 reachability under assumed branch + K6 Origin"
			desc := "JournalReader.Next reads " + fld.f + " from the header of every segment (also when offset > 0), from header bytes " + fld.off + ".."
			if !c.need(key, rule, desc, fn, nx) {
				continue
			}
			w := p.Writes("litefs.JournalReader." + fld.f)
			bad := ""
			if (&Search{P: p, Fn: fn, Block: later, Tgt: w}).Run() == nil {
				bad = "the field is not written on any path with offset > 0"
			}
			found := false
			for _, in := range Instrs(fn, w) {
				if strings.Contains(fieldStoreVal(p, in), u32(fld.off)) {
					found = true
				}
			}
			if !found {
				bad = "no write of " + fld.f + " takes its value from header offset " + fld.off
			}
			if bad != "" {
				c.fail(key, rule, desc, fld.why, bad, len(Instrs(fn, w)))
			} else {
				c.ok(key, rule, desc, len(Instrs(fn, w)))
			}
		}
	}
	c.journalInvalidation(prefix)
	c.Before(prefix+"/segment-valid-on-success", nx, p.SuccessReturn, p.Writes("litefs.JournalReader.isValid"), 1, "every success exit of Next has marked the journal valid", "rollbackJournal resizes only when IsValid()")
	rf := "litefs.(*JournalReader).ReadFrame"
	rr := "internal.ReadFullAt(p0.f, p0.frame, p0.offset)#1"
	okRet := func(in ssaInstr) bool { return p.SuccessReturn(in) }
	c.OnlyGuards(prefix+"/record-accepted", rf, okRet, []*Guard{
		GP("(0 == p0.frameN)", false),
		GP("("+rr+" == io.ErrUnexpectedEOF)", false), GP("("+rr+" == nil)", true),
		GP("(encoding/binary.(bigEndian).Uint32(encoding/binary.BigEndian, p0.frame[(builtin.len(p0.frame) - 4):]) == litefs.JournalChecksum(p0.frame[4:(builtin.len(p0.frame) - 4)], p0.nonce))", true),
		G(pat("(0 == encoding/binary.(bigEndian).Uint32(encoding/binary.BigEndian, p0.frame[0:]))")+"|"+pat("(encoding/binary.(bigEndian).Uint32(encoding/binary.BigEndian, p0.frame[0:]) == 0)"), false), G(pat("(ltx.LockPgno(p0.pageSize) == encoding/binary.(bigEndian).Uint32(encoding/binary.BigEndian, p0.frame[0:]))")+"|"+pat("(encoding/binary.(bigEndian).Uint32(encoding/binary.BigEndian, p0.frame[0:]) == ltx.LockPgno(p0.pageSize))"), false),
	}, 1, "a journal record is returned exactly when records remain, the frame was fully read, its page number is neither zero nor the lock page and its checksum equals JournalChecksum(data, nonce)", "a torn final record must end the journal; a valid one must be rolled back")
	c.GuardedPaths(prefix+"/record-requires", rf, okRet, [][]*Guard{
		{GP("(0 == p0.frameN)", false)},
		{GP("("+rr+" == nil)", true)},
		{GP("(encoding/binary.(bigEndian).Uint32(encoding/binary.BigEndian, p0.frame[(builtin.len(p0.frame) - 4):]) == litefs.JournalChecksum(p0.frame[4:(builtin.len(p0.frame) - 4)], p0.nonce))", true)},
		{G(pat("(0 == encoding/binary.(bigEndian).Uint32(encoding/binary.BigEndian, p0.frame[0:]))")+"|"+pat("(encoding/binary.(bigEndian).Uint32(encoding/binary.BigEndian, p0.frame[0:]) == 0)"), false)},
		{G(pat("(ltx.LockPgno(p0.pageSize) == encoding/binary.(bigEndian).Uint32(encoding/binary.BigEndian, p0.frame[0:]))")+"|"+pat("(encoding/binary.(bigEndian).Uint32(encoding/binary.BigEndian, p0.frame[0:]) == ltx.LockPgno(p0.pageSize))"), false)},
	}, 1, "... and under each of these conditions (none may be dropped)", "a record with a wrong checksum is a torn write: rolling it back corrupts the page; the checksum does not cover the page number, so a record for page 0 (negative offset) or the lock page ends the journal as in SQLite")
	first := GP("(0 == p0.offset)", false)
	c.GuardedPaths(prefix+"/segment-requires", nx, p.Writes("litefs.JournalReader.isValid"), [][]*Guard{
		{GP("(0 == p0.pageSize)", false)},
		{GP("("+rd+" == nil)", true)},
		{GP("litefs.isByteSliceZero("+hdr+")", false)},
		{GP("bytes.Equal("+hdr+`[:8], "\xd9\xd5\x05\xf9 \xa1c\xd7")`, true)},
		{first, GP("("+u32("20")+" < 32)", false)},
		{first, GP("(65536 < "+u32("20")+")", false)},
		{first, GP("(("+u32("20")+" & ("+u32("20")+" - 1)) == 0)", true)},
		{first, GP("("+u32("24")+" == p0.pageSize)", true), GP("(p0.pageSize == p0.pageSize)", true)},
		{GP("(os.FileInfo.Size(p0.fi) < (p0.offset + p0.sectorSize))", false)},
	}, 1, "a segment is accepted only under each condition of the table (none may be dropped): page size known, header read, not zeroed, the journal magic in every segment header (a hot journal whose first header is garbage is ignored, as SQLite does), sector size valid and page size equal in the first header, at least one sector present", "")
}

// journalInvalidation: writer/reader agreement on what a finalised PERSIST journal looks like.
func (c *Ctx) journalInvalidation(prefix string) {
	p := c.P
	nx := "litefs.(*JournalReader).Next"
	{
		// PERSIST invalidation zeroes at least as many bytes as the reader requires to be zero
		inv := c.F("litefs.(*DB).invalidateJournal")
		key, rule := prefix+"/persist-clears-whole-header", "K8 writer/reader agreement (proven buffer lengths)"
		desc := "invalidateJournal(PERSIST) overwrites at least as many leading bytes with zeroes as JournalReader.Next needs to treat the journal as finalised (the magic when every header must carry it, else the whole zero-tested header)"
		if c.need(key, rule, desc, inv, "litefs.(*DB).invalidateJournal") {
			var wlen, rlen int64 = -1, -1
			for _, in := range Instrs(inv, p.Calls("os.(*File).Write", "os.(*File).WriteAt")) {
				wlen = c.lenLB(callVals(in)[1], 0)
			}
			for _, in := range Instrs(c.F(nx), p.PlainCalls("litefs.isByteSliceZero")) {
				rlen = c.lenLB(callVals(in)[0], 0)
			}
			// a header without the magic is ignored by the reader when every segment header must carry it:
			// then clearing the 8 magic bytes is enough; otherwise everything the zero-test covers must be cleared
			if c.P.CountGuardEdges(c.F(nx), G(`\(0 < p0\.offset\)`, true)) == 0 && rlen > 8 {
				rlen = 8
			}
			if wlen < 0 || rlen < 0 || wlen < rlen {
				c.fail(key, rule, desc, "a header whose magic is zeroed but whose remaining fields survive is still a hot journal to LiteFS's own reader: the next recovery rolls the old pages back over the new image", fmt.Sprintf("writer clears %d byte(s), reader tests %d", wlen, rlen), 1)
			} else {
				c.ok(key, rule, desc, 1)
			}
		}
	}
}

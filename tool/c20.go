package main

import (
	"fmt"
	"regexp"
	"sort"
	"strings"

	"golang.org/x/tools/go/ssa"
)

func init() {
	register(&Property{
		ID:    "C20",
		Level: "other",
		Run:   c20,
		Explanation: "All clauses except liveness are control-flow facts of http/server.go and are decided on every path. Routes: the (path, method) -> responder table is extracted from serveHTTP by path enumeration and compared with the confirmed table - every path case ends in a handler or a 405, unknown paths in http.NotFound, exactly one responder per request. Nil: every use of the result of Store.DB(name) and of the *PrimaryInfo returned by Store.PrimaryInfo() as a receiver / field base, in every function of the litefs, http and fuse packages, is reachable only through a branch that established it is non-nil. Validate-first: in each handler the first effectful call (CreateDBIfNotExists, AcquireHaltLock, ReleaseHaltLock, Import, WriteLTXFileAt, ApplyLTXNoLock, Store.Handoff, Client.Handoff, SubscribeChangeSet) is dominated by the passing branch of every validation of that handler (parameter parsed, name non-empty, not this node, database exists, lock held, protocol version, lease context). No-fatal: from no handler does a static call path reach Store.Exit, os.Exit, log.Fatal* or an explicit panic, except through the fatal apply (ApplyLTXNoLock(..., true)), whose input-dependent failure is excluded before publication (C16), and the enumerated 'unreachable' defaults. Stream preconditions: protocol, self-id, lease context and position-map decode all precede the 200 header; the subscription is closed on every exit. Parameters: the query keys and the node-id header each client method sets equal the ones its handler reads. The unchecked type assertions on the response writer are enumerated (http.Flusher only).",
		NotDecided: "behaviour under truncated/oversized bodies at the transport level (net/http), 'wedging' (liveness), panics inside the standard library or vendored dependencies.",
		Assumptions: []string{"go/ssa faithfully represents the source", "net/http's HTTP/1 and h2c response writers implement http.Flusher", "net/http recovers handler panics (a panic is still a violation: the client gets no response)"},
	})
}

func c20(c *Ctx) {
	for _, m := range []struct {
		key, mu string
		min     int
		excuse  map[string]string
	}{
		{"store", "litefs.Store.mu", 20, map[string]string{
			"litefs.(*DB).Open -> litefs.(*DB).ApplyLTXNoLock": "Open re-applies the newest LTX file only when one exists; the directory CreateDB has just made (O_EXCL on its database file, name not registered) holds none, and Open's other caller, openDatabase, runs without the store mutex",
		}},
		{"checksum-cache", "litefs.DB.chksums.mu", 4, nil},
		{"guard-sets", "litefs.DB.guardSets.mu", 2, nil},
		{"shm", "litefs.DB.shmMu", 1, nil},
		{"change-set-subscriber", "litefs.ChangeSetSubscriber.mu", 2, nil},
		{"rwmutex", "litefs.RWMutex.mu", 4, nil},
		{"file-backup-client", "litefs.FileBackupClient.mu", 1, nil},
		{"fuse-root-node", "fuse.RootNode.mu", 1, nil},
		{"fuse-lock-handle", "fuse.LockHandle.haltLockMu", 1, nil},
	} {
		c.NoReentry("no-hang/"+m.key+"-mutex-not-reentered", m.mu, m.min,
			"no function that runs with "+m.mu+" held - by itself or by its caller - calls a function that locks it again",
			"sync.Mutex is not re-entrant: the goroutine blocks for ever with the mutex held, and from then on every request that touches the store (/info, /import, /tx, /stream, /halt ...) hangs: one request takes the node out of service", m.excuse)
	}
	{
		// an event subscriber's channel is closed exactly once: only while the subscriber is still registered, and it is unregistered in the same step
		p := c.P
		ue := "litefs.(*Store).unsubscribeEvents"
		closeCh := func(in ssa.Instruction) bool {
			call, ok := in.(*ssa.Call)
			if !ok {
				return false
			}
			bi, ok := call.Call.Value.(*ssa.Builtin)
			return ok && bi.Name() == "close" && len(call.Call.Args) == 1 && strings.HasSuffix(p.Render(call.Call.Args[0]), ".ch")
		}
		c.Guarded("events/close-once/registered", ue, closeCh, gs(GP("p0.eventSubscribers[p1]#1", true)), 1, "unsubscribeEvents closes the subscriber's channel only while it is still in Store.eventSubscribers", "the channel is closed both when a slow subscriber overflows and when its request ends: a second close panics inside the /events handler")
		c.Before("events/close-once/unregistered", ue, closeCh, p.Writes("litefs.Store.eventSubscribers[]"), 1, "... and removes it from the set before closing", "")
		var sites []string
		for _, f := range p.SrcFuncs() {
			if !c.inScope(f, []string{"litefs", "http"}) {
				continue
			}
			for _, in := range Instrs(f, closeCh) {
				if strings.Contains(c.argR(in, 0), "ch") && typeStr(deref(callVals(in)[0].Type())) != "" {
					if fa, ok := stripValue(callVals(in)[0]).(*ssa.UnOp); ok {
						if a, ok := fa.X.(*ssa.FieldAddr); ok && typeStr(deref(a.X.Type())) == "litefs.EventSubscriber" {
							sites = append(sites, p.FuncName(topFunc(f)))
						}
					}
				}
			}
		}
		c.ExpectAll("events/close-once/only-site", sites, pat(ue), 1, "EventSubscriber.ch is closed nowhere else", "")
	}
	c.lockPgnoGuards("nil/lockpgno")
	{
		// database names taken from requests are plain file names
		p := c.P
		valid := GP("litefs.isValidDBName(p1)", true)
		for _, f := range []string{"litefs.(*Store).CreateDB", "litefs.(*Store).CreateDBIfNotExists"} {
			short := f[len("litefs.(*Store)."):]
			c.Guarded("names/"+short+"/validated-first", f, Any(p.PlainCalls("litefs.(*Store).DBPath"), p.CallsRe(`litefs\.OS\.(MkdirAll|WriteFile|OpenFile)`), p.Calls("sync.(*Mutex).Lock")), gs(valid), 2,
				short+" touches the file system (and takes the store mutex) only after isValidDBName(name) answered true", "a name such as '../../evil' or './x' is joined to the data directory: a directory outside it is created, or an existing database is truncated and the store mutex dead-locks")
		}
		c.OnlyIn("names/dbpath-callers", p.Calls("litefs.(*Store).DBPath"), []string{pat("litefs.(*Store).CreateDB"), pat("litefs.(*Store).CreateDBIfNotExists"), pat("litefs.(*Store).openDatabase")}, 3, "a database path is derived from a name only by the two validating creators and by openDatabase (names read from the directory listing)", "")
		c.Expect("names/validator-def", strings.Join(c.returnsOf("litefs.isValidDBName"), ";"), pat("phi(!strings.ContainsRune(p0, 47)|false)"), "isValidDBName(name): name contains no path separator ...", "F56: filepath.Base(\"/\") is \"/\": the name \"/\" passed the base-name test, created files directly in the dbs directory and made the node unstartable")
		c.Guarded("names/validator-base", "litefs.isValidDBName", p.PlainCalls("strings.ContainsRune"), gs(GP("(p0 == path/filepath.Base(p0))", true)), 1, "... and equals its own base name ...", "")
		for i, lit := range []string{`""`, `"."`, `".."`} {
			c.Guarded(fmt.Sprintf("names/validator-rejects/%d", i+1), "litefs.isValidDBName", p.PlainCalls("path/filepath.Base"), gs(G(pat("("+lit+" == p0)")+"|"+pat("(p0 == "+lit+")"), false)), 1, "... and is not "+lit, "")
		}
	}
	c.forwardedExtends("forwarded")
	c.NoDiscardedErrors("errors/none-dropped", []string{"http"}, discardHTTP, 10)
	p := c.P
	sh := "http.(*Server).serveHTTP"

	// ---- routes ----
	want := map[string]string{
		"/export GET": "handleGetExport", "/halt POST": "handlePostHalt", "/halt DELETE": "handleDeleteHalt", "/handoff POST": "handlePostHandoff",
		"/import POST": "handlePostImport", "/info GET": "handleGetInfo", "/promote POST": "handlePostPromote", "/stream POST": "handlePostStream",
		"/tx POST": "handlePostTx", "/events GET": "handleGetEvents", "/debug/rand *": "handleDebugRand",
	}
	{
		fn := c.F(sh)
		key, rule := "routes/table", "K8 table (path enumeration)"
		desc := "serveHTTP dispatches exactly the confirmed (path, method) table; every API path answers other methods with 405 and unknown paths with http.NotFound"
		if c.need(key, rule, desc, fn, sh) {
			responder := func(in ssa.Instruction) bool {
				call, ok := in.(*ssa.Call)
				if !ok {
					return false
				}
				n := p.CalleeName(&call.Call)
				return strings.HasPrefix(n, "http.(*Server).handle") || n == "http.Error" || n == "net/http.NotFound" || strings.HasPrefix(n, "net/http/pprof.") || (call.Call.IsInvoke() && call.Call.Method.Name() == "ServeHTTP")
			}
			rxPath := regexp.MustCompile(`^\("(/[a-z/]*)" == p2\.URL\.Path\)$`)
			rxMeth := regexp.MustCompile(`^\("([A-Z]+)" == p2\.Method\)$`)
			got := map[string]string{}
			api := map[string]bool{}
			bad := ""
			p.EnumPathsR(fn, responder, 20000, func(facts []PathFact, trace []*ssa.BasicBlock, at ssa.Instruction, r PathRender) {
				path, meth := "", ""
				for _, f := range facts {
					if m := rxPath.FindStringSubmatch(f.Cond); m != nil && f.Val {
						path = m[1]
					}
					if m := rxMeth.FindStringSubmatch(f.Cond); m != nil && f.Val {
						meth = m[1]
					}
				}
				n := p.CalleeName(callCommon(at))
				switch {
				case strings.HasPrefix(n, "http.(*Server).handle"):
					h := strings.TrimPrefix(n, "http.(*Server).")
					k := path + " " + meth
					if meth == "" {
						k = path + " *"
					}
					if prev, ok := got[k]; ok && prev != h {
						bad = k + " dispatches to both " + prev + " and " + h
					}
					got[k] = h
					if meth != "" {
						api[path] = true
					}
				case n == "http.Error":
					if path == "" {
						bad = "a 405 is produced without a path case: " + p.TraceString(trace)
					} else if code := r(callVals(at)[3]); code != "405" {
						bad = "the default of " + path + " answers " + code
					} else {
						api[path+" default"] = true
					}
				case n == "net/http.NotFound":
					if path != "" {
						bad = "NotFound inside the case of " + path
					}
					got["* *"] = "NotFound"
				}
			})
			for k, h := range want {
				if got[k] != h {
					bad = fmt.Sprintf("%s dispatches to %q, expected %s", k, got[k], h)
				}
			}
			for k, h := range got {
				if _, ok := want[k]; !ok && k != "* *" {
					bad = fmt.Sprintf("unlisted route %s -> %s", k, h)
				}
			}
			for k := range want {
				pth := strings.Fields(k)[0]
				if strings.HasPrefix(pth, "/debug") {
					continue
				}
				if !api[pth+" default"] {
					bad = "path " + pth + " has no 405 default"
				}
			}
			if got["* *"] != "NotFound" {
				bad = "unknown paths do not reach http.NotFound"
			}
			if bad != "" {
				c.fail(key, rule, desc, "every request to any path and method receives an HTTP response; an unlisted route is an unreviewed door to the store", bad, len(got))
			} else {
				c.ok(key, rule, desc, len(got))
			}
			// exactly one responder: after a responder no second responder
			c.NoPath("routes/one-response", sh, responder, responder, 10, "after a handler (or error) was invoked serveHTTP invokes no second one", "two responders write two bodies / call WriteHeader twice")
			// every path through serveHTTP reaches a responder
			s := &Search{P: p, Fn: fn, Avoid: responder, Tgt: IsReturn}
			if f := s.Run(); f != nil {
				c.fail("routes/always-responds", "K3 After", "every path through serveHTTP invokes a responder", "a request that falls through gets an empty 200", "return at "+c.where(f.Instr)+" reachable without a responder; path "+p.TraceString(f.Trace), 1)
			} else {
				c.ok("routes/always-responds", "K3 After", "every path through serveHTTP invokes a responder", 1)
			}
		}
	}

	// ---- nil ----
	{
		dbCall := p.PlainCalls("litefs.(*Store).DB")
		infoVal := func(in ssa.Instruction) bool {
			ex, ok := in.(*ssa.Extract)
			if !ok || ex.Index != 1 {
				return false
			}
			call, ok := ex.Tuple.(*ssa.Call)
			return ok && (p.CalleeName(&call.Call) == "litefs.(*Store).PrimaryInfo" || p.CalleeName(&call.Call) == "litefs.(*Store).PrimaryInfoWithContext")
		}
		var names []string
		for _, fn := range p.SrcFuncs() {
			if !c.inScope(fn, []string{"litefs", "http", "fuse"}) {
				continue
			}
			if len(Instrs(fn, dbCall)) > 0 || len(Instrs(fn, infoVal)) > 0 {
				names = append(names, p.FuncName(fn))
			}
		}
		sort.Strings(names)
		uses := 0
		for _, n := range names {
			fn := c.F(n)
			short := n[strings.Index(n, ".")+1:]
			if len(Instrs(fn, dbCall)) > 0 {
				before := len(c.Obs)
				c.NilGuardedUses("nil/db/"+short, n, dbCall, 0, short+": the database looked up by name is used only after it was tested for nil", "a request (or frame) naming an unknown database panics inside the handler: the client gets no response")
				if len(c.Obs) > before {
					uses += c.Obs[len(c.Obs)-1].Sites
				}
			}
			if len(Instrs(fn, infoVal)) > 0 {
				before := len(c.Obs)
				c.NilGuardedUses("nil/primary-info/"+short, n, infoVal, 0, short+": the primary info is dereferenced only after it was tested for nil", "a node with no primary (start-up, election, disconnected replica) returns nil: dereferencing it panics")
				if len(c.Obs) > before {
					uses += c.Obs[len(c.Obs)-1].Sites
				}
			}
		}
		if uses < 20 || len(names) < 12 {
			c.fail("nil/coverage", "K2 Guarded (nil check before use)", "number of decided nil-sensitive uses", "", fmt.Sprintf("%d functions / %d uses found, expected >= 12 / 20", len(names), uses), uses)
		} else {
			c.ok("nil/coverage", "K2 Guarded (nil check before use)", fmt.Sprintf("%d functions with %d guarded uses of Store.DB / PrimaryInfo results", len(names), uses), uses)
		}
	}

	// ---- validate-first ----
	q := func(k string) string { return `net/url.(Values).Get(@@, "` + k + `")` }
	notSelf := G(`\(litefs\.ParseNodeID\(.*\)#0 == litefs\.\(\*Store\)\.ID\(p0\.store\)\)|\(litefs\.\(\*Store\)\.ID\(p0\.store\) == litefs\.ParseNodeID\(.*\)#0\)`, false)
	nilOf := func(s string) *Guard { return G(`\(`+pat(s)+` == nil\)|\(nil == `+pat(s)+`\)`, true) }
	type vf struct {
		h       string
		effects []string
		guards  map[string]*Guard
	}
	for _, v := range []vf{
		{"handlePostImport", []string{"litefs.(*Store).CreateDBIfNotExists", "litefs.(*DB).Import"}, map[string]*Guard{
			"name-required": GP("(\"\" == "+q("name")+")", false), "lease-context": G(`\(nil == context\.Context\.Err\(.*\)\)|\(context\.Context\.Err\(.*\) == nil\)`, true)}},
		{"handlePostHalt", []string{"litefs.(*Store).CreateDBIfNotExists", "litefs.(*DB).AcquireHaltLock"}, map[string]*Guard{
			"name-required": GP("(\"\" == "+q("name")+")", false), "id-parsed": nilOf("strconv.ParseInt(" + q("id") + ", 10, 64)#1"), "id-nonzero": GP("(0 == strconv.ParseInt("+q("id")+", 10, 64)#0)", false), "not-self": notSelf, "primary": GP("litefs.(*Store).IsPrimary(p0.store)", true)}},
		{"handleDeleteHalt", []string{"litefs.(*DB).ReleaseHaltLock"}, map[string]*Guard{
			"id-parsed": nilOf("strconv.ParseInt(" + q("id") + ", 10, 64)#1"), "not-self": notSelf, "db-exists": GP("(litefs.(*Store).DB(@@) == nil)", false)}},
		{"handlePostTx", []string{"litefs.(*DB).WriteLTXFileAt", "litefs.(*DB).ApplyLTXNoLock"}, map[string]*Guard{
			"id-parsed": nilOf("strconv.ParseInt(" + q("lockID") + ", 10, 64)#1"), "not-self": notSelf, "db-exists": GP("(litefs.(*Store).DB(@@) == nil)", false), "primary": GP("litefs.(*Store).IsPrimary(p0.store)", true), "lock-held": G(pat("(litefs.(*DB).PinHaltLock(@@) == nil)")+"|"+pat("(nil == litefs.(*DB).PinHaltLock(@@))"), false)}},
		{"handlePostHandoff", []string{"litefs.(*Store).Handoff"}, map[string]*Guard{
			"node-id-parsed": nilOf("litefs.ParseNodeID(" + q("nodeID") + ")#1"), "node-id-nonzero": GP("(0 == litefs.ParseNodeID("+q("nodeID")+")#0)", false)}},
		{"handlePostPromote", []string{"http.(*Client).Handoff"}, map[string]*Guard{
			"candidate": GP("litefs.(*Store).Candidate(p0.store)", true), "not-primary": GP("litefs.(*Store).PrimaryInfo(p0.store)#0", false), "primary-known": GP("(litefs.(*Store).PrimaryInfo(p0.store)#1 == nil)", false)}},
		{"handlePostStream", []string{"litefs.(*Store).SubscribeChangeSet", "http.ReadPosMapFrom"}, map[string]*Guard{
			"http2": GP("(p2.ProtoMajor < 2)", false), "not-self": notSelf, "lease-context": G(`\(nil == context\.Context\.Err\(.*\)\)|\(context\.Context\.Err\(.*\) == nil\)`, true)}},
		{"handleGetExport", []string{"litefs.(*DB).Export"}, map[string]*Guard{
			"name-required": GP("(\"\" == "+q("name")+")", false), "db-exists": GP("(litefs.(*Store).DB(@@) == nil)", false)}},
	} {
		fn := "http.(*Server)." + v.h
		var gk []string
		for k := range v.guards {
			gk = append(gk, k)
		}
		sort.Strings(gk)
		for _, k := range gk {
			c.Guarded("validate-first/"+v.h+"/"+k, fn, p.PlainCalls(v.effects...), gs(v.guards[k]), 1, v.h+": the effectful calls ("+shortNames(v.effects)+") run only after the check '"+k+"' passed", "requests that are malformed, not allowed for the node's role, or refer to a database or lock that must exist already leave everything unchanged")
		}
	}

	c.pageSizeBeforeCreate("validate-first/handlePostTx/body")
	c.importBodyBeforeCreate("validate-first/handlePostImport")
	c.postApplyVerifiedBeforePublish("forwarded")

	// ---- no-fatal ----
	{
		handlers := []string{}
		for _, fn := range p.SrcFuncs() {
			n := p.FuncName(fn)
			if strings.HasPrefix(n, "http.(*Server).handle") && fn.Parent() == nil {
				handlers = append(handlers, n)
			}
		}
		sort.Strings(handlers)
		allowedPanics := map[string]string{
			"litefs.(*RWMutexGuard).tryLock": "default of an exhaustive switch over the three guard states (C12 proves it unreachable)", "litefs.(*RWMutexGuard).tryRLock": "same", "litefs.(*RWMutexGuard).unlock": "same",
			"litefs.(*RWMutexGuard).CanLock": "same", "litefs.(*RWMutexGuard).CanRLock": "same", "litefs.assert": "internal invariant helper", "litefs.(*RWMutex).State": "", "litefs.(*DB).GuardSet": "",
		}
		fatal := func(in ssa.Instruction) string {
			if pn, ok := in.(*ssa.Panic); ok {
				if !pn.Pos().IsValid() {
					return "" // compiler-generated (blocking select without default)
				}
				return "panic"
			}
			cc := callCommon(in)
			if cc == nil {
				return ""
			}
			n := p.CalleeName(cc)
			switch {
			case n == "os.Exit", strings.HasPrefix(n, "log.Fatal"), strings.HasPrefix(n, "log.(*Logger).Fatal"), strings.HasPrefix(n, "log.Panic"), strings.HasPrefix(n, "log.(*Logger).Panic"):
				return n
			case strings.Contains(n, "dyn:litefs.Store.Exit"):
				return "Store.Exit"
			}
			return ""
		}
		var bad []string
		nfn := 0
		for _, h := range handlers {
			seen := map[*ssa.Function]bool{}
			var walk func(fn *ssa.Function, chain []string)
			walk = func(fn *ssa.Function, chain []string) {
				if fn == nil || seen[fn] || len(fn.Blocks) == 0 || len(chain) > 12 {
					return
				}
				seen[fn] = true
				nfn++
				name := p.FuncName(fn)
				for _, b := range fn.Blocks {
					if b.Index != 0 && len(b.Preds) == 0 {
						continue
					}
					for _, in := range b.Instrs {
						if what := fatal(in); what != "" {
							if _, ok := allowedPanics[name]; ok && what == "panic" {
								continue
							}
							bad = append(bad, fmt.Sprintf("%s reaches %s at %s via %s", h, what, c.where(in), strings.Join(append(chain, name), " > ")))
						}
						cc := callCommon(in)
						if cc == nil {
							continue
						}
						callee := cc.StaticCallee()
						if callee == nil {
							if mc, ok := cc.Value.(*ssa.MakeClosure); ok {
								callee, _ = mc.Fn.(*ssa.Function)
							}
						}
						if callee == nil || callee.Pkg == nil || !strings.HasPrefix(callee.Pkg.Pkg.Path(), modPath) {
							continue
						}
						if p.FuncName(callee) == "litefs.(*DB).ApplyLTXNoLock" {
							continue // the fatal apply: decided separately (C16 validate-before-publish, C11 holder)
						}
						walk(callee, append(chain, name))
						for _, an := range callee.AnonFuncs {
							walk(an, append(chain, name))
						}
					}
				}
				for _, an := range fn.AnonFuncs {
					walk(an, append(chain, name))
				}
			}
			walk(c.F(h), nil)
		}
		d := "from no HTTP handler does a static call path (closures included, depth <= 12) reach Store.Exit, os.Exit, log.Fatal*/Panic* or an explicit panic - except through the fatal apply and the enumerated unreachable defaults"
		if len(bad) > 0 || len(handlers) < 10 {
			if len(bad) > 6 {
				bad = bad[:6]
			}
			c.fail("no-fatal/handlers", "K14 call-graph reachability", d, "without crashing, panicking inside, or wedging the node", strings.Join(bad, "; "), nfn)
		} else {
			c.ok("no-fatal/handlers", "K14 call-graph reachability", d+fmt.Sprintf(" (%d handlers, %d functions visited)", len(handlers), nfn), nfn)
		}
	}

	// ---- stream preconditions ----
	ps := "http.(*Server).handlePostStream"
	wh := func(in ssa.Instruction) bool {
		call, ok := in.(*ssa.Call)
		return ok && call.Call.IsInvoke() && call.Call.Method.Name() == "WriteHeader"
	}
	c.Guarded("stream-pre/posmap-decoded", ps, wh, gs(GP("(http.ReadPosMapFrom(@@)#1 == nil)", true)), 1, "the 200 header is written only after the position map was decoded", "a malformed stream request must be answered with an error status, not with a 200 stream that then fails")
	c.Guarded("stream-pre/http2", ps, wh, gs(GP("(p2.ProtoMajor < 2)", false)), 1, "... and only for HTTP/2", "")
	c.Guarded("stream-pre/not-self", ps, wh, gs(notSelf), 1, "... and not for this node's own id", "")
	c.ExpectAll("stream-pre/status", c.CallArgs(ps, wh, 1), "200", 1, "the only explicit status is 200", "")
	{
		cl := c.anonWith(ps, p.Calls("litefs.(*ChangeSetSubscriber).Close"))
		if cl == "" {
			c.fail("stream-pre/subscription-closed", "K3 (deferred)", "the change-set subscription is closed on every exit", "a leaked subscription keeps the store publishing to a dead stream", "no deferred closure closes the subscription", 0)
		} else {
			c.Before("stream-pre/subscription-closed", ps, Any(p.PlainCalls("http.ReadPosMapFrom"), wh), func(in ssa.Instruction) bool {
				d, ok := in.(*ssa.Defer)
				return ok && p.FuncName(p.calleeFunc(d)) == cl
			}, 2, "the change-set subscription's Close is deferred before the first exit after subscribing", "a leaked subscription keeps the store publishing to a dead stream")
		}
	}
	ge := "http.(*Server).handleGetEvents"
	c.Before("stream-pre/events-unsubscribed", ge, wh, func(in ssa.Instruction) bool { _, ok := in.(*ssa.Defer); return ok }, 1, "the event subscription's Stop is deferred before the response starts", "")

	// ---- params ----
	pairs := []struct{ client, handler, path string }{
		{"AcquireHaltLock", "handlePostHalt", "/halt"}, {"ReleaseHaltLock", "handleDeleteHalt", "/halt"}, {"Commit", "handlePostTx", "/tx"},
		{"Handoff", "handlePostHandoff", "/handoff"}, {"Import", "handlePostImport", "/import"}, {"Export", "handleGetExport", "/export"},
		{"Stream", "handlePostStream", "/stream"}, {"Promote", "handlePostPromote", "/promote"}, {"Info", "handleGetInfo", "/info"},
	}
	rxGet := regexp.MustCompile(`net/url\.\(Values\)\.Get\(.*?, "([A-Za-z]+)"\)`)
	for _, pr := range pairs {
		cf, hf := c.F("http.(*Client)."+pr.client), c.F("http.(*Server)."+pr.handler)
		key, rule := "params/"+pr.client, "K8 table (writer/reader agreement)"
		desc := "Client." + pr.client + " sends to " + pr.path + " exactly the query keys " + pr.handler + " reads, and the node-id header when the handler reads it"
		if !c.need(key, rule, desc, cf, "http.(*Client)."+pr.client) || !c.need(key, rule, desc, hf, "http.(*Server)."+pr.handler) {
			continue
		}
		sent := map[string]bool{}
		path := ""
		sendsID := false
		for _, b := range cf.Blocks {
			for _, in := range b.Instrs {
				switch x := in.(type) {
				case *ssa.MapUpdate:
					if k, ok := x.Key.(*ssa.Const); ok && strings.Contains(x.Map.Type().String(), "url.Values") {
						sent[strings.Trim(k.Value.ExactString(), `"`)] = true
					}
				case *ssa.Store:
					if fa, ok := x.Addr.(*ssa.FieldAddr); ok && fieldPathOf(fa) == "net/url.URL.Path" {
						path = strings.Trim(p.Render(x.Val), `"`)
					}
				case *ssa.Call:
					n := p.CalleeName(&x.Call)
					if n == "net/url.(Values).Set" || n == "net/url.(Values).Add" {
						if k, ok := x.Call.Args[1].(*ssa.Const); ok {
							sent[strings.Trim(k.Value.ExactString(), `"`)] = true
						}
					}
					if n == "net/http.(Header).Set" && strings.Contains(p.Render(x.Call.Args[1]), "Litefs-Id") {
						sendsID = true
					}
				}
			}
		}
		read := map[string]bool{}
		readsID := false
		for _, in := range InstrsDeep(hf, func(ssa.Instruction) bool { return true }) {
			if call, ok := in.(*ssa.Call); ok {
				s := p.RenderCall(call)
				for _, m := range rxGet.FindAllStringSubmatch(s, -1) {
					read[m[1]] = true
				}
				if strings.Contains(s, "net/http.(Header).Get") && strings.Contains(s, "Litefs-Id") {
					readsID = true
				}
			}
		}
		ks := func(m map[string]bool) string {
			var s []string
			for k := range m {
				s = append(s, k)
			}
			sort.Strings(s)
			return strings.Join(s, ",")
		}
		bad := ""
		if path != pr.path {
			bad = "the client addresses " + path
		} else if ks(sent) != ks(read) {
			bad = "client sends {" + ks(sent) + "}, handler reads {" + ks(read) + "}"
		} else if readsID && !sendsID {
			bad = "the handler reads the node-id header, the client does not send it"
		}
		if bad != "" {
			c.fail(key, rule, desc, "a parameter the peer never reads (or never receives) silently changes the meaning of the request", bad, len(sent))
		} else {
			c.ok(key, rule, desc+" = {"+ks(sent)+"}", len(sent)+1)
		}
	}

	// ---- unchecked type assertions ----
	{
		var bad []string
		n := 0
		for _, fn := range p.SrcFuncs() {
			tf := topFunc(fn)
			if !strings.HasPrefix(p.FuncName(tf), "http.(*Server).") {
				continue
			}
			takesWriter := false
			for _, prm := range tf.Params {
				if typeStr(prm.Type()) == "net/http.ResponseWriter" {
					takesWriter = true
				}
			}
			if !takesWriter {
				continue
			}
			for _, b := range fn.Blocks {
				for _, in := range b.Instrs {
					ta, ok := in.(*ssa.TypeAssert)
					if !ok || ta.CommaOk {
						continue
					}
					n++
					if typeStr(ta.AssertedType) != "net/http.Flusher" {
						bad = append(bad, "unchecked assertion to "+typeStr(ta.AssertedType)+" at "+c.where(in))
					}
				}
			}
		}
		d := "the only unchecked type assertions in the server are w.(http.Flusher) (both net/http response writers implement it)"
		if len(bad) > 0 {
			c.fail("asserts/flusher-only", "K8 enumeration", d, "an unchecked assertion that fails panics inside the handler", strings.Join(bad, "; "), n)
		} else {
			c.ok("asserts/flusher-only", "K8 enumeration", d, n)
		}
	}
}

func shortNames(fs []string) string {
	var s []string
	for _, f := range fs {
		s = append(s, f[strings.LastIndex(f, ".")+1:])
	}
	return strings.Join(s, ", ")
}

// importBodyBeforeCreate (C16, C20): the import endpoint creates the named
// database only after it has looked at the request body - a body that is no
// database image must leave nothing behind. Today the handler creates first
// (known finding KF3).
func (c *Ctx) importBodyBeforeCreate(prefix string) {
	p := c.P
	h := "http.(*Server).handlePostImport"
	readsBody := func(in ssa.Instruction) bool {
		cc := callCommon(in)
		if cc == nil || p.PlainCalls("litefs.(*DB).Import")(in) {
			return false
		}
		for _, a := range cc.Args {
			if strings.Contains(p.Render(a), "p2.Body") {
				return true
			}
		}
		return false
	}
	c.Before(prefix+"/image-checked-before-create", h, p.PlainCalls("litefs.(*Store).CreateDBIfNotExists"), readsBody, 1,
		"the database is created only after the handler has read (the header of) the request body",
		"an import whose body is no database image, or a truncated one, into a name that does not exist leaves a new empty database in the store and on disk although the request failed")
}

// postApplyVerifiedBeforePublish (C20, C13; known finding KF5): an incoming
// transaction file names the checksum the database must have after it was
// applied. WriteLTXFileAt publishes the file (renames it into the log) without
// comparing that checksum with the one the database would have; the comparison
// happens in the fatal apply, after the pages were written.
func (c *Ctx) postApplyVerifiedBeforePublish(prefix string) {
	p := c.P
	wl := "litefs.(*DB).WriteLTXFileAt"
	c.Before(prefix+"/post-apply-checksum-verified-before-publish", wl, p.PlainCalls("litefs.OS.Rename"), p.PlainCalls("litefs.(*DB).checksum", "litefs.(*DB).onDiskChecksum"), 1,
		"an incoming transaction file is renamed into the log only after the post-apply checksum it names was compared with the one the database would have",
		"a well-formed file from the holder of the halt lock with a wrong post-apply checksum is published, the fatal apply writes its pages, finds the mismatch and stops the primary - which then cannot start again because the file is the newest in the log")
}

package main

// Obligation bookkeeping and the generic rule helpers (K1-K7) used by the
// per-property files.

import (
	"fmt"
	"go/token"
	"os"
	"regexp"
	"sort"
	"strings"
	"time"

	"golang.org/x/tools/go/ssa"
)

// Ob is one decided obligation.
type Ob struct {
	Key    string `json:"key"`
	Rule   string `json:"rule"`
	Desc   string `json:"desc"`
	Why    string `json:"why,omitempty"`
	Sites  int    `json:"sites"`
	Status string `json:"status"` // holds | violation | undecided
	Detail string `json:"detail,omitempty"`
	Config string `json:"config,omitempty"`
}

// Ctx collects the obligations of one property in one build configuration.
type Ctx struct {
	P         *Prog
	Prop      string
	Tier      string
	Obs       []*Ob
	Funcs     map[string]bool
	seen      map[string]bool
	last      time.Time
	strictErr bool
}

func NewCtx(p *Prog, prop, tier string) *Ctx {
	return &Ctx{P: p, Prop: prop, Tier: tier, Funcs: map[string]bool{}, seen: map[string]bool{}, last: time.Now()}
}

func (c *Ctx) add(o *Ob) *Ob {
	o.Key = c.Prop + "." + o.Key
	if c.seen[o.Key] {
		// keys must be unique; disambiguate deterministically
		for i := 2; ; i++ {
			k := fmt.Sprintf("%s#%d", o.Key, i)
			if !c.seen[k] {
				o.Key = k
				break
			}
		}
	}
	c.seen[o.Key] = true
	c.Obs = append(c.Obs, o)
	if os.Getenv("LFS_TIMING") != "" {
		now := time.Now()
		if !c.last.IsZero() && now.Sub(c.last) > 300*time.Millisecond {
			fmt.Fprintf(os.Stderr, "TIMING %-60s %v\n", o.Key, now.Sub(c.last))
		}
		c.last = now
	}
	return o
}

func (c *Ctx) ok(key, rule, desc string, sites int) {
	c.add(&Ob{Key: key, Rule: rule, Desc: desc, Sites: sites, Status: "holds"})
}

func (c *Ctx) fail(key, rule, desc, why, detail string, sites int) {
	c.add(&Ob{Key: key, Rule: rule, Desc: desc, Why: why, Sites: sites, Status: "violation", Detail: detail})
}

func (c *Ctx) undecided(key, rule, desc, detail string) {
	c.add(&Ob{Key: key, Rule: rule, Desc: desc, Status: "undecided", Detail: detail})
}

// F resolves an anchor function; a missing anchor is reported once per use by
// the calling helper (nil is tolerated by all helpers).
func (c *Ctx) F(name string) *ssa.Function {
	fn := c.P.Fn(name)
	if fn != nil {
		c.Funcs[name] = true
	}
	return fn
}

func (c *Ctx) need(key, rule, desc string, fn *ssa.Function, name string) bool {
	if fn == nil || len(fn.Blocks) == 0 {
		c.undecided(key, rule, desc, "anchor function "+name+" does not resolve (renamed, removed or build-tagged out)")
		return false
	}
	return true
}

func (c *Ctx) where(in ssa.Instruction) string {
	return fmt.Sprintf("%s in %s", c.P.Pos(in.Pos()), c.P.FuncName(in.Parent()))
}

// Before (K1): every path from entry to an instruction matching target passes
// an instruction matching pre. min is the floor on matched targets.
func (c *Ctx) Before(key, fname string, target, pre IM, min int, desc, why string) {
	rule := "K1 Before"
	fn := c.F(fname)
	if !c.need(key, rule, desc, fn, fname) {
		return
	}
	tg := Instrs(fn, target)
	if len(tg) < min {
		c.fail(key, rule, desc, why, fmt.Sprintf("only %d target site(s) matched in %s, expected >= %d (construct removed or no longer recognisable)", len(tg), fname, min), len(tg))
		return
	}
	if len(Instrs(fn, pre)) == 0 {
		c.fail(key, rule, desc, why, fmt.Sprintf("the required preceding step no longer occurs in %s; target at %s", fname, c.whereFirst(tg)), len(tg))
		return
	}
	s := &Search{P: c.P, Fn: fn, Avoid: pre, Tgt: target}
	if f := s.Run(); f != nil {
		c.fail(key, rule, desc, why, fmt.Sprintf("target %s reachable from entry without the required preceding step; path %s", c.where(f.Instr), c.P.TraceString(f.Trace)), len(tg))
		return
	}
	c.ok(key, rule, desc, len(tg))
}

func (c *Ctx) whereFirst(ins []ssa.Instruction) string {
	if len(ins) == 0 {
		return "-"
	}
	return c.where(ins[0])
}

// BeforeG (K1/K2): every path from entry to a target passes an instruction
// matching pre or leaves an If by an edge establishing one of the guards.
func (c *Ctx) BeforeG(key, fname string, target, pre IM, guards []*Guard, min int, desc, why string) {
	rule := "K1/K2 Before-or-Guarded"
	fn := c.F(fname)
	if !c.need(key, rule, desc, fn, fname) {
		return
	}
	tg := Instrs(fn, target)
	if len(tg) < min {
		c.fail(key, rule, desc, why, fmt.Sprintf("only %d target site(s) matched in %s, expected >= %d", len(tg), fname, min), len(tg))
		return
	}
	s := &Search{P: c.P, Fn: fn, Avoid: pre, Block: c.P.EdgesAsserting(guards...), Tgt: target}
	if f := s.Run(); f != nil {
		c.fail(key, rule, desc, why, fmt.Sprintf("target %s reachable without the required step and without the excusing branch; path %s", c.where(f.Instr), c.P.TraceString(f.Trace)), len(tg))
		return
	}
	c.ok(key, rule, desc, len(tg))
}

// BeforeFrom (K1 variant): every path from an instruction matching from to a
// target passes an instruction matching pre.
func (c *Ctx) BeforeFrom(key, fname string, from, target, pre IM, min int, desc, why string) {
	rule := "K1 Before"
	fn := c.F(fname)
	if !c.need(key, rule, desc, fn, fname) {
		return
	}
	fr := Instrs(fn, from)
	tg := Instrs(fn, target)
	if len(fr) < 1 || len(tg) < min {
		c.fail(key, rule, desc, why, fmt.Sprintf("%d start and %d target site(s) matched in %s, expected >= 1 and >= %d", len(fr), len(tg), fname, min), len(tg))
		return
	}
	s := &Search{P: c.P, Fn: fn, From: fr, Avoid: pre, Tgt: target}
	if f := s.Run(); f != nil {
		c.fail(key, rule, desc, why, fmt.Sprintf("target %s reachable after %s without the required step in between; path %s", c.where(f.Instr), c.whereFirst(fr), c.P.TraceString(f.Trace)), len(tg))
		return
	}
	c.ok(key, rule, desc, len(tg))
}

// Guarded (K2): every path from entry to a target leaves an If by an edge
// establishing one of the guards.
func (c *Ctx) Guarded(key, fname string, target IM, guards []*Guard, min int, desc, why string) {
	rule := "K2 Guarded"
	fn := c.F(fname)
	if !c.need(key, rule, desc, fn, fname) {
		return
	}
	tg := Instrs(fn, target)
	if len(tg) < min {
		c.fail(key, rule, desc, why, fmt.Sprintf("only %d target site(s) matched in %s, expected >= %d", len(tg), fname, min), len(tg))
		return
	}
	s := &Search{P: c.P, Fn: fn, Block: c.P.EdgesAsserting(guards...), Tgt: target}
	if f := s.Run(); f != nil {
		var gs []string
		for _, g := range guards {
			gs = append(gs, fmt.Sprintf("%s=%v", g.Re, g.Val))
		}
		c.fail(key, rule, desc, why, fmt.Sprintf("target %s reachable without passing a branch that establishes [%s]; path %s", c.where(f.Instr), strings.Join(gs, " or "), c.P.TraceString(f.Trace)), len(tg))
		return
	}
	c.ok(key, rule, desc, len(tg))
}

// GuardedPaths (K2, per-path phi resolution): on every feasible path from
// entry to a target, for each clause at least one of its guards is
// established (a conjunction of disjunctions).
func (c *Ctx) GuardedPaths(key, fname string, target IM, clauses [][]*Guard, min int, desc, why string) {
	rule := "K2 Guarded (path enumeration, phi resolution)"
	fn := c.F(fname)
	if !c.need(key, rule, desc, fn, fname) {
		return
	}
	if len(Instrs(fn, target)) < min {
		c.fail(key, rule, desc, why, fmt.Sprintf("only %d target site(s) matched in %s, expected >= %d", len(Instrs(fn, target)), fname, min), 0)
		return
	}
	var bad string
	n, over := c.P.EnumPaths(fn, target, 20000, func(facts []PathFact, trace []*ssa.BasicBlock, at ssa.Instruction) {
		if bad != "" {
			return
		}
		for _, cl := range clauses {
			sat := false
			for _, g := range cl {
				for _, f := range facts {
					if f.Val == g.Val && g.rx.MatchString(f.Cond) {
						sat = true
					}
				}
			}
			if !sat {
				var gs []string
				for _, g := range cl {
					gs = append(gs, fmt.Sprintf("%s=%v", g.Re, g.Val))
				}
				bad = fmt.Sprintf("target %s reachable on a feasible path that establishes none of [%s]; path %s", c.where(at), strings.Join(gs, " or "), c.P.TraceString(trace))
				return
			}
		}
	})
	if over {
		c.undecided(key, rule, desc, "more than 20000 paths")
		return
	}
	if bad != "" {
		c.fail(key, rule, desc, why, bad, n)
		return
	}
	if n == 0 {
		c.fail(key, rule, desc, why, "no feasible path reaches the target (target unreachable: the construct is dead)", 0)
		return
	}
	c.ok(key, rule, desc, n)
}

// After (K3): every path from an instruction matching from to an exit
// matching exit passes an instruction matching then.
func (c *Ctx) After(key, fname string, from, then, exit IM, min int, desc, why string) {
	rule := "K3 AfterOnSuccess"
	fn := c.F(fname)
	if !c.need(key, rule, desc, fn, fname) {
		return
	}
	fr := Instrs(fn, from)
	if len(fr) < min {
		c.fail(key, rule, desc, why, fmt.Sprintf("only %d start site(s) matched in %s, expected >= %d", len(fr), fname, min), len(fr))
		return
	}
	if exit == nil {
		exit = c.P.SuccessReturn
	}
	s := &Search{P: c.P, Fn: fn, From: fr, Avoid: then, Tgt: exit}
	if f := s.Run(); f != nil {
		c.fail(key, rule, desc, why, fmt.Sprintf("exit %s reachable after %s without the required step; path %s", c.where(f.Instr), c.whereFirst(fr), c.P.TraceString(f.Trace)), len(fr))
		return
	}
	c.ok(key, rule, desc, len(fr))
}

// NoPath (K4): no instruction matching to is reachable after one matching from.
func (c *Ctx) NoPath(key, fname string, from, to IM, min int, desc, why string) {
	rule := "K4 NoPath"
	fn := c.F(fname)
	if !c.need(key, rule, desc, fn, fname) {
		return
	}
	fr := Instrs(fn, from)
	if len(fr) < min {
		c.fail(key, rule, desc, why, fmt.Sprintf("only %d start site(s) matched in %s, expected >= %d", len(fr), fname, min), len(fr))
		return
	}
	s := &Search{P: c.P, Fn: fn, From: fr, Tgt: to}
	if f := s.Run(); f != nil {
		c.fail(key, rule, desc, why, fmt.Sprintf("%s is reachable after %s; path %s", c.where(f.Instr), c.whereFirst(fr), c.P.TraceString(f.Trace)), len(fr))
		return
	}
	c.ok(key, rule, desc, len(fr))
}

// NoPathFromEdge (K4): no target is reachable once an edge establishing g has
// been taken.
func (c *Ctx) NoPathFromEdge(key, fname string, g *Guard, to IM, min int, desc, why string) {
	rule := "K4 NoPath"
	fn := c.F(fname)
	if !c.need(key, rule, desc, fn, fname) {
		return
	}
	n := 0
	for _, b := range fn.Blocks {
		for i, sb := range b.Succs {
			if !c.P.EdgeAsserts(Edge{b, i}, g) {
				continue
			}
			n++
			if len(sb.Instrs) == 0 {
				continue
			}
			// start at the first instruction of the successor: emulate with From = a
			// pseudo start by searching from block entry.
			s := &Search{P: c.P, Fn: fn, Tgt: to}
			if f := s.runFromBlock(sb); f != nil {
				c.fail(key, rule, desc, why, fmt.Sprintf("%s is reachable after the branch %s=%v taken at %s; path %s", c.where(f.Instr), g.Re, g.Val, c.P.Pos(firstPos(b)), c.P.TraceString(f.Trace)), n)
				return
			}
		}
	}
	if n < min {
		c.fail(key, rule, desc, why, fmt.Sprintf("only %d branch(es) establishing %s=%v in %s, expected >= %d", n, g.Re, g.Val, fname, min), n)
		return
	}
	c.ok(key, rule, desc, n)
}

// AfterEdge (K3): once an edge establishing g has been taken, no exit
// instruction is reached before an instruction matching then (paths that
// leave by an edge establishing one of the excuse guards are not followed).
func (c *Ctx) AfterEdge(key, fname string, g *Guard, then, exit IM, min int, desc, why string, excuse ...*Guard) {
	rule := "K3 After (from an established branch)"
	fn := c.F(fname)
	if !c.need(key, rule, desc, fn, fname) {
		return
	}
	n := 0
	for _, b := range fn.Blocks {
		for i, sb := range b.Succs {
			if !c.P.EdgeAsserts(Edge{b, i}, g) {
				continue
			}
			n++
			s := &Search{P: c.P, Fn: fn, Avoid: then, Tgt: exit}
			if len(excuse) > 0 {
				s.Block = c.P.EdgesAsserting(excuse...)
			}
			if f := s.runFromBlock(sb); f != nil {
				c.fail(key, rule, desc, why, fmt.Sprintf("%s is reached after the branch %s=%v taken at %s without the required step; path %s", c.where(f.Instr), g.Re, g.Val, c.P.Pos(firstPos(b)), c.P.TraceString(f.Trace)), n)
				return
			}
		}
	}
	if n < min {
		c.fail(key, rule, desc, why, fmt.Sprintf("only %d branch(es) establishing %s=%v in %s, expected >= %d", n, g.Re, g.Val, fname, min), n)
		return
	}
	c.ok(key, rule, desc, n)
}

// runFromBlock runs the search starting at the top of block b.
func (s *Search) runFromBlock(b *ssa.BasicBlock) *Found {
	if len(b.Instrs) == 0 {
		return nil
	}
	// check first instruction, then continue after it
	first := b.Instrs[0]
	if s.Avoid != nil && s.Avoid(first) {
		return nil
	}
	if s.Tgt != nil && s.Tgt(first) {
		return &Found{first, []*ssa.BasicBlock{b}}
	}
	s2 := *s
	s2.From = []ssa.Instruction{first}
	return s2.Run()
}

func topFunc(fn *ssa.Function) *ssa.Function {
	for fn.Parent() != nil {
		fn = fn.Parent()
	}
	return fn
}

// OnlyIn (K5): every instruction matching m anywhere in the repository lies in
// one of the allowed top-level functions (anonymous functions count as their
// parent). allowed entries may be regular expressions.
func (c *Ctx) OnlyIn(key string, m IM, allowed []string, min int, desc, why string) []ssa.Instruction {
	return c.OnlyInScope(key, nil, m, allowed, min, desc, why)
}

// inScope reports whether the function belongs to one of the packages
// (short names); the mock package (test doubles) is never in scope.
func (c *Ctx) inScope(fn *ssa.Function, pkgs []string) bool {
	name := c.P.FuncName(topFunc(fn))
	if strings.HasPrefix(name, "mock.") {
		return false
	}
	if len(pkgs) == 0 {
		return true
	}
	for _, p := range pkgs {
		if strings.HasPrefix(name, p+".") {
			return true
		}
	}
	return false
}

// OnlyInScope is OnlyIn restricted to functions of the given packages.
func (c *Ctx) OnlyInScope(key string, pkgs []string, m IM, allowed []string, min int, desc, why string) []ssa.Instruction {
	rule := "K5 OnlyCallers/OnlyWriters"
	var rx []*regexp.Regexp
	for _, a := range allowed {
		rx = append(rx, regexp.MustCompile("^(?:"+a+")$"))
	}
	var sites []ssa.Instruction
	var bad []string
	for _, fn := range c.P.SrcFuncs() {
		if !c.inScope(fn, pkgs) {
			continue
		}
		for _, in := range Instrs(fn, m) {
			sites = append(sites, in)
			tn := c.P.FuncName(topFunc(fn))
			ok := false
			for _, r := range rx {
				if r.MatchString(tn) {
					ok = true
					break
				}
			}
			if !ok {
				bad = append(bad, c.where(in))
			}
		}
	}
	if len(bad) > 0 {
		sort.Strings(bad)
		c.fail(key, rule, desc, why, fmt.Sprintf("site(s) outside the allowed set {%s}: %s", strings.Join(allowed, ", "), strings.Join(bad, "; ")), len(sites))
		return sites
	}
	if len(sites) < min {
		c.fail(key, rule, desc, why, fmt.Sprintf("only %d site(s) matched, expected >= %d (matcher no longer recognises the construct)", len(sites), min), len(sites))
		return sites
	}
	c.ok(key, rule, desc, len(sites))
	return sites
}

// Expect (K6): the rendered origin matches the pattern.
func (c *Ctx) Expect(key, got, re, desc, why string) bool {
	rule := "K6 Origin"
	rx := regexp.MustCompile("^(?:" + re + ")$")
	if !rx.MatchString(got) {
		c.fail(key, rule, desc, why, fmt.Sprintf("origin is %q, required to match %q", got, re), 1)
		return false
	}
	c.ok(key, rule, desc, 1)
	return true
}

// ExpectAll checks several rendered origins (e.g. one per call site).
func (c *Ctx) ExpectAll(key string, gots []string, re string, min int, desc, why string) {
	rule := "K6 Origin"
	rx := regexp.MustCompile("^(?:" + re + ")$")
	if len(gots) < min {
		c.fail(key, rule, desc, why, fmt.Sprintf("only %d site(s) matched, expected >= %d", len(gots), min), len(gots))
		return
	}
	for _, g := range gots {
		if !rx.MatchString(g) {
			c.fail(key, rule, desc, why, fmt.Sprintf("origin is %q, required to match %q", g, re), len(gots))
			return
		}
	}
	c.ok(key, rule, desc, len(gots))
}

// CallArgs renders argument idx (receiver excluded for static method calls is
// index 0 = receiver) of every call in fn matching m.
func (c *Ctx) CallArgs(fname string, m IM, idx int) []string {
	fn := c.F(fname)
	var out []string
	for _, in := range InstrsDeep(fn, m) {
		cc := callCommon(in)
		args := cc.Args
		if cc.IsInvoke() {
			args = append([]ssa.Value{cc.Value}, args...)
		}
		if idx < len(args) {
			out = append(out, c.P.Render(args[idx]))
		} else {
			out = append(out, "<missing>")
		}
	}
	return out
}

// Cond is a shorthand for guards in obligations.
func gs(g ...*Guard) []*Guard { return g }

type ssaInstr = ssa.Instruction

// returnsOf renders the first result of every return of a function.
func (c *Ctx) returnsOf(fname string) []string {
	fn := c.F(fname)
	var out []string
	for _, in := range Instrs(fn, IsReturn) {
		r := in.(*ssa.Return)
		if b := r.Block(); b.Index != 0 && len(b.Preds) == 0 {
			continue // synthetic recover block
		}
		if len(r.Results) > 0 {
			out = append(out, c.P.Render(returnedValue(r, 0)))
		}
	}
	return out
}

// GuardedFrom (K2 variant): every path from an instruction matching from to a
// target leaves an If by an edge establishing one of the guards.
func (c *Ctx) GuardedFrom(key, fname string, from, target IM, guards []*Guard, min int, desc, why string) {
	rule := "K2 Guarded"
	fn := c.F(fname)
	if !c.need(key, rule, desc, fn, fname) {
		return
	}
	fr, tg := Instrs(fn, from), Instrs(fn, target)
	if len(fr) < 1 || len(tg) < min {
		c.fail(key, rule, desc, why, fmt.Sprintf("%d start and %d target site(s) matched in %s", len(fr), len(tg), fname), len(tg))
		return
	}
	s := &Search{P: c.P, Fn: fn, From: fr, Block: c.P.EdgesAsserting(guards...), Tgt: target}
	if f := s.Run(); f != nil {
		c.fail(key, rule, desc, why, fmt.Sprintf("target %s reachable after %s without passing the required branch; path %s", c.where(f.Instr), c.whereFirst(fr), c.P.TraceString(f.Trace)), len(tg))
		return
	}
	c.ok(key, rule, desc, len(tg))
}

// EdgeReturns (K6+K4): every return reachable after taking an edge that
// establishes g returns a last result whose origin matches re.
func (c *Ctx) EdgeReturns(key, fname string, g *Guard, re string, min int, desc, why string) {
	rule := "K6 Origin on exits of a branch"
	fn := c.F(fname)
	if !c.need(key, rule, desc, fn, fname) {
		return
	}
	rx := regexp.MustCompile("^(?:" + re + ")$")
	n := 0
	for _, b := range fn.Blocks {
		for i, sb := range b.Succs {
			if !c.P.EdgeAsserts(Edge{b, i}, g) {
				continue
			}
			n++
			seen := map[*ssa.BasicBlock]bool{}
			var stack = []*ssa.BasicBlock{sb}
			for len(stack) > 0 {
				x := stack[len(stack)-1]
				stack = stack[:len(stack)-1]
				if seen[x] {
					continue
				}
				seen[x] = true
				for _, in := range x.Instrs {
					if r, ok := in.(*ssa.Return); ok && len(r.Results) > 0 {
						got := c.P.Render(returnedValue(r, len(r.Results)-1))
						if !rx.MatchString(got) {
							c.fail(key, rule, desc, why, fmt.Sprintf("return at %s yields %q after the branch %s=%v", c.where(r), got, g.Re, g.Val), n)
							return
						}
					}
				}
				stack = append(stack, x.Succs...)
			}
		}
	}
	if n < min {
		c.fail(key, rule, desc, why, fmt.Sprintf("only %d branch(es) establishing %s=%v in %s, expected >= %d", n, g.Re, g.Val, fname, min), n)
		return
	}
	c.ok(key, rule, desc, n)
}

// returnsMatching renders the last result of returns whose rendering contains sub.
func (c *Ctx) returnsMatching(fname, sub string) []string {
	fn := c.F(fname)
	var out []string
	for _, in := range Instrs(fn, IsReturn) {
		r := in.(*ssa.Return)
		if len(r.Results) == 0 {
			continue
		}
		s := c.P.Render(returnedValue(r, len(r.Results)-1))
		if strings.Contains(s, sub) {
			out = append(out, s)
		}
	}
	return out
}

// anonWith returns the name of the anonymous function of parent (any depth)
// that contains an instruction matching m ("" if none or ambiguous).
func (c *Ctx) anonWith(parent string, m IM) string {
	fn := c.F(parent)
	if fn == nil {
		return ""
	}
	var found []string
	var walk func(f *ssa.Function)
	walk = func(f *ssa.Function) {
		for _, an := range f.AnonFuncs {
			if len(Instrs(an, m)) > 0 {
				found = append(found, c.P.FuncName(an))
			}
			walk(an)
		}
	}
	walk(fn)
	if len(found) == 1 {
		c.Funcs[found[0]] = true
		return found[0]
	}
	return ""
}

// closureArgName returns the function name of the closure passed as argument
// idx of the first call in fname matching m.
func (c *Ctx) closureArgName(fname string, m IM, idx int) string {
	for _, in := range Instrs(c.F(fname), m) {
		v := callVals(in)
		if idx < len(v) {
			if mc, ok := v[idx].(*ssa.MakeClosure); ok {
				return c.P.FuncName(mc.Fn.(*ssa.Function))
			}
		}
	}
	return ""
}

// sourceCall finds the call instruction that produced value v (through
// Extract and single-store local cells).
func sourceCall(v ssa.Value, depth int) *ssa.Call {
	if depth == 0 || v == nil {
		return nil
	}
	switch x := v.(type) {
	case *ssa.Call:
		return x
	case *ssa.Extract:
		return sourceCall(x.Tuple, depth-1)
	case *ssa.Convert:
		return sourceCall(x.X, depth-1)
	case *ssa.ChangeType:
		return sourceCall(x.X, depth-1)
	case *ssa.UnOp:
		if al, ok := x.X.(*ssa.Alloc); ok && al.Referrers() != nil {
			var st *ssa.Store
			n := 0
			for _, r := range *al.Referrers() {
				if s, ok := r.(*ssa.Store); ok && s.Addr == ssa.Value(al) {
					st = s
					n++
				}
			}
			if n == 1 {
				return sourceCall(st.Val, depth-1)
			}
		}
	}
	return nil
}

// ArgSource matches the call instructions whose results are argument idx of
// the calls in fname matching m.
func (c *Ctx) ArgSource(fname string, m IM, idx int) IM {
	set := map[ssa.Instruction]bool{}
	for _, in := range Instrs(c.F(fname), m) {
		v := callVals(in)
		if idx < len(v) {
			if sc := sourceCall(v[idx], 6); sc != nil {
				set[sc] = true
			}
		}
	}
	return func(in ssa.Instruction) bool { return set[in] }
}

// HeldMutex (K13): every access (FieldAddr) to one of the field paths happens
// with the mutex held by the accessing function: a Lock on the mutex (rendered
// address, e.g. "p0.mu") dominates the access with no plain Unlock in
// between. Functions matching exempt (constructors, documented "must hold"
// helpers whose callers are checked separately) are skipped.
func (c *Ctx) HeldMutex(key string, fields []string, mu string, exempt []string) {
	rule := "K13 HeldMutex"
	desc := "every access to " + strings.Join(fields, ", ") + " is made with " + mu + " held"
	why := "unsynchronised access to state shared between FUSE/HTTP/replication goroutines is a data race: a torn or stale read of exactly the state the property is about"
	want := map[string]bool{}
	for _, f := range fields {
		want[strings.TrimSuffix(f, "[]")] = true
	}
	var rx []*regexp.Regexp
	for _, e := range exempt {
		rx = append(rx, regexp.MustCompile("^(?:"+pat(e)+")$"))
	}
	isLock := func(name string) IM {
		return func(in ssa.Instruction) bool {
			cc := callCommon(in)
			if cc == nil || c.P.CalleeName(cc) != name {
				return false
			}
			if _, isDefer := in.(*ssa.Defer); isDefer {
				return false
			}
			return len(cc.Args) > 0 && strings.TrimPrefix(c.P.Render(cc.Args[0]), "&") == mu
		}
	}
	lock, unlock := isLock("sync.(*Mutex).Lock"), isLock("sync.(*Mutex).Unlock")
	n := 0
	for _, fn := range c.P.SrcFuncs() {
		if !c.inScope(fn, nil) {
			continue
		}
		name := c.P.FuncName(fn)
		skip := false
		for _, r := range rx {
			if r.MatchString(c.P.FuncName(topFunc(fn))) {
				skip = true
			}
		}
		if skip {
			continue
		}
		access := func(in ssa.Instruction) bool {
			fa, ok := in.(*ssa.FieldAddr)
			return ok && want[fieldPathOf(fa)]
		}
		acc := Instrs(fn, access)
		if len(acc) == 0 {
			continue
		}
		n += len(acc)
		s := &Search{P: c.P, Fn: fn, Avoid: lock, Tgt: access}
		if f := s.Run(); f != nil {
			c.fail(key, rule, desc, why, fmt.Sprintf("access at %s reachable from the entry of %s without %s.Lock()", c.where(f.Instr), name, mu), n)
			return
		}
		if ul := Instrs(fn, unlock); len(ul) > 0 {
			s2 := &Search{P: c.P, Fn: fn, From: ul, Avoid: lock, Tgt: access}
			if f := s2.Run(); f != nil {
				c.fail(key, rule, desc, why, fmt.Sprintf("access at %s reachable after %s.Unlock() in %s", c.where(f.Instr), mu, name), n)
				return
			}
		}
	}
	if n == 0 {
		c.fail(key, rule, desc, why, "no access site found (field renamed?)", 0)
		return
	}
	c.ok(key, rule, desc, n)
}

// OnlyGuards (K2 dual): the target is reached under NO other branch
// condition than the allowed ones - every branch fact on every feasible path
// from entry to a target matches one of allowed. An added or narrowed
// condition in front of an effect that must be unconditional fails.
func (c *Ctx) OnlyGuards(key, fname string, target IM, allowed []*Guard, min int, desc, why string) {
	rule := "K2 OnlyGuards (path enumeration)"
	fn := c.F(fname)
	if !c.need(key, rule, desc, fn, fname) {
		return
	}
	var bad string
	n, over := c.P.EnumPaths(fn, target, 20000, func(facts []PathFact, trace []*ssa.BasicBlock, at ssa.Instruction) {
		if bad != "" {
			return
		}
		for _, f := range facts {
			ok := false
			for _, g := range allowed {
				if g.Val == f.Val && g.rx.MatchString(f.Cond) {
					ok = true
				}
			}
			if !ok {
				bad = fmt.Sprintf("target %s is reached only under the additional condition %s=%v; path %s", c.where(at), f.Cond, f.Val, c.P.TraceString(trace))
				return
			}
		}
	})
	if over {
		c.undecided(key, rule, desc, "more than 20000 paths")
		return
	}
	if bad != "" {
		c.fail(key, rule, desc, why, bad, n)
		return
	}
	if n < min {
		c.fail(key, rule, desc, why, fmt.Sprintf("%d feasible path(s) to the target, expected >= %d", n, min), n)
		return
	}
	c.ok(key, rule, desc, n)
}

// Row is one row of a decision table: when all guards in When are established
// on a path, the rendered outcome must match Expect.
type Row struct {
	When   []*Guard
	Expect string // regexp (pat syntax already applied by caller)
	Name   string
}

func factsHold(facts []PathFact, when []*Guard) bool {
	for _, g := range when {
		ok := false
		for _, f := range facts {
			if f.Val == g.Val && g.rx.MatchString(f.Cond) {
				ok = true
				break
			}
		}
		if !ok {
			return false
		}
	}
	return true
}

// PathTable (K2+K6, decision table): on every feasible path from entry to a
// target the outcome rendered on that path (phis and local cells resolved)
// matches the first row whose conditions hold on the path; a path matching no
// row fails.
func (c *Ctx) PathTable(key, fname string, target IM, render func(at ssa.Instruction, r PathRender, facts []PathFact) string, rows []Row, min int, desc, why string) {
	rule := "K2+K6 decision table (path enumeration, phi/cell resolution)"
	fn := c.F(fname)
	if !c.need(key, rule, desc, fn, fname) {
		return
	}
	var rx []*regexp.Regexp
	for _, r := range rows {
		rx = append(rx, regexp.MustCompile("^(?:"+r.Expect+")$"))
	}
	var bad string
	used := map[int]bool{}
	n, over := c.P.EnumPathsR(fn, target, 20000, func(facts []PathFact, trace []*ssa.BasicBlock, at ssa.Instruction, r PathRender) {
		if bad != "" {
			return
		}
		got := render(at, r, facts)
		for i, row := range rows {
			if !factsHold(facts, row.When) {
				continue
			}
			used[i] = true
			if !rx[i].MatchString(got) {
				bad = fmt.Sprintf("on the path %s (row %q applies) the outcome at %s is %q, required %q", c.P.TraceString(trace), row.Name, c.where(at), got, row.Expect)
			}
			return
		}
		var fs []string
		for _, f := range facts {
			fs = append(fs, fmt.Sprintf("%s=%v", trunc(f.Cond, 120), f.Val))
		}
		bad = fmt.Sprintf("path %s to %s matches no row of the table; facts: %s; outcome %q", c.P.TraceString(trace), c.where(at), strings.Join(fs, " ; "), got)
	})
	if over {
		c.undecided(key, rule, desc, "more than 20000 paths")
		return
	}
	if bad != "" {
		c.fail(key, rule, desc, why, bad, n)
		return
	}
	for i, row := range rows {
		if !used[i] {
			c.fail(key, rule, desc, why, fmt.Sprintf("row %q of the decision table is matched by no feasible path (branch removed?)", row.Name), n)
			return
		}
	}
	if n < min {
		c.fail(key, rule, desc, why, fmt.Sprintf("%d feasible path(s), expected >= %d", n, min), n)
		return
	}
	c.ok(key, rule, desc, n)
}

// NilGuardedUses (K2): every use of the result of a call matching producer as
// a method receiver, field base or dereference is reachable from the call
// only through a branch that establishes the result is non-nil.
func (c *Ctx) NilGuardedUses(key, fname string, producer IM, min int, desc, why string) {
	rule := "K2 Guarded (nil check before use)"
	fn := c.F(fname)
	if !c.need(key, rule, desc, fn, fname) {
		return
	}
	n := 0
	for _, in := range Instrs(fn, producer) {
		v, ok := in.(ssa.Value)
		if !ok || v.Referrers() == nil {
			continue
		}
		r := regexp.QuoteMeta(c.P.Render(v))
		g := G(`\(`+r+` == nil\)|\(nil == `+r+`\)`, false)
		for _, u := range *v.Referrers() {
			use := false
			switch x := u.(type) {
			case *ssa.Call:
				if !x.Call.IsInvoke() && len(x.Call.Args) > 0 && x.Call.Args[0] == v && x.Call.Signature().Recv() != nil {
					use = true
				}
			case *ssa.FieldAddr:
				use = x.X == v
			case *ssa.UnOp:
				use = x.Op == token.MUL && x.X == v
			}
			if !use {
				continue
			}
			n++
			uu := u
			s := &Search{P: c.P, Fn: fn, From: []ssa.Instruction{in}, Block: c.P.EdgesAsserting(g), Tgt: func(i ssa.Instruction) bool { return i == uu }}
			if f := s.Run(); f != nil {
				c.fail(key, rule, desc, why, fmt.Sprintf("%s is used at %s without a preceding nil test of it; path %s", c.P.Render(v), c.where(u), c.P.TraceString(f.Trace)), n)
				return
			}
		}
	}
	if n < min {
		c.fail(key, rule, desc, why, fmt.Sprintf("only %d use(s) found in %s, expected >= %d", n, fname, min), n)
		return
	}
	c.ok(key, rule, desc, n)
}

// EveryIterationG: every iteration of the loop(s) whose "has next" branch
// establishes hasNext performs an instruction matching effect before control
// returns to the loop condition, unless it leaves by an edge establishing one of
// the confirmed skip conditions. An added `continue` in front of the effect fails.
func (c *Ctx) EveryIterationG(key, fname string, hasNext *Guard, effect IM, min int, desc, why string, skips ...*Guard) {
	rule := "K3 After (every loop iteration)"
	fn := c.F(fname)
	if !c.need(key, rule, desc, fn, fname) {
		return
	}
	n, bad := 0, ""
	for _, b := range fn.Blocks {
		for i, sb := range b.Succs {
			if !c.P.EdgeAsserts(Edge{b, i}, hasNext) {
				continue
			}
			hdr := b
			inLoop := &Search{P: c.P, Fn: fn, Tgt: effect, Avoid: func(in ssa.Instruction) bool { return in.Block() == hdr }}
			if inLoop.runFromBlock(sb) == nil {
				continue // a loop with the same bound that does not contain the effect
			}
			n++
			s := &Search{P: c.P, Fn: fn, Avoid: effect, Tgt: func(in ssa.Instruction) bool { return in.Block() == hdr }}
			if len(skips) > 0 {
				s.Block = c.P.EdgesAsserting(skips...)
			}
			if f := s.runFromBlock(sb); f != nil {
				bad = "an iteration can return to the loop condition at " + c.P.Pos(firstPos(hdr)) + " without the effect and without a confirmed skip condition; path " + c.P.TraceString(f.Trace)
			}
		}
	}
	if bad != "" {
		c.fail(key, rule, desc, why, bad, n)
		return
	}
	if n < min {
		c.fail(key, rule, desc, why, fmt.Sprintf("only %d loop(s) with the effect found in %s, expected >= %d", n, fname, min), n)
		return
	}
	c.ok(key, rule, desc, n)
}

// EveryIteration: in fname, every iteration of the range loop whose iterator
// renders as rangeRe performs an instruction matching effect (no path from the
// loop's "has next" edge back to the loop header avoids it).
func (c *Ctx) EveryIteration(key, fname, rangeRe string, effect IM, desc, why string) {
	rule := "K3 After (every loop iteration)"
	fn := c.F(fname)
	if !c.need(key, rule, desc, fn, fname) {
		return
	}
	g := G(`rangeok\(`+rangeRe+`\)`, true)
	n, bad := 0, ""
	for _, b := range fn.Blocks {
		for i, sb := range b.Succs {
			if !c.P.EdgeAsserts(Edge{b, i}, g) {
				continue
			}
			n++
			hdr := b
			if f := (&Search{P: c.P, Fn: fn, Avoid: effect, Tgt: func(in ssa.Instruction) bool { return in.Block() == hdr }}).runFromBlock(sb); f != nil {
				bad = "an iteration can return to the loop header without the effect; path " + c.P.TraceString(f.Trace)
			}
			if (&Search{P: c.P, Fn: fn, Tgt: effect}).runFromBlock(sb) == nil {
				bad = "the effect is not inside the loop"
			}
		}
	}
	if bad != "" || n == 0 {
		if bad == "" {
			bad = "no range loop over " + rangeRe + " found"
		}
		c.fail(key, rule, desc, why, bad, n)
		return
	}
	c.ok(key, rule, desc, n)
}

package main

import (
	"fmt"
	"regexp"
	"strings"

	"golang.org/x/tools/go/ssa"
)

func init() {
	register(&Property{
		ID:    "C03",
		Level: "other",
		Run:   c03,
		Explanation: "Structural necessary conditions of WAL capture: write classification and its guards (write lock held exclusively, no write before the captured offset), ownership of the WAL bookkeeping fields, frame discovery (salt and cumulative-checksum tests dominate every recorded frame, checksum chained from the captured state, success only on a commit frame), capture exactly at write-lock release (CommitWAL only from Unlock/UnlockSHM, under the exclusive-state test, before any guard is released), nothing created or advanced when no transaction is found, header provenance, page selection (lock page skipped, bytes of the last frame per page, truncated pages zeroed), publish order, state advance after durability, fatal exit on failure, and the index bounds of DB.checksum. Each decided on every path of the SSA control-flow graph or by origin rendering.",
		NotDecided: "exact equality of the LTX with the reference page delta; arithmetic of both checksum byte orders; real SQLite checkpoint shapes.",
		Assumptions: []string{"go/ssa faithfully represents the source", "SQLite writes a WAL header as one 32-byte write at offset 0 and frames after it"},
	})
}

func c03(c *Ctx) {
	c.pageLoopsComplete("complete", "CommitWAL")
	c.walFrameReads("wal-frame/page-after-header")
	p := c.P
	call := func(n string) IM { return p.PlainCalls("litefs.(*DB)." + n) }
	cw := "litefs.(*DB).CommitWAL"
	writeAt := p.PlainCalls("os.(*File).WriteAt")
	excl := GP("(2 == litefs.(*RWMutex).State(&p0.writeLock))", true)

	// ---- wal-guards ----
	for _, f := range []string{"writeWALHeader", "writeWALFrameHeader", "writeWALFrameData"} {
		fn := "litefs.(*DB)." + f
		c.Guarded("wal-guards/"+f+"/write-lock", fn, writeAt, gs(excl), 1, "the WAL write passes through only while the WAL write lock is held exclusively", "C11: WAL writes made without holding the write lock are refused (EXCLUSIVE locking mode bypasses LiteFS's capture point)")
		if f != "writeWALHeader" {
			c.Guarded("wal-guards/"+f+"/not-before-captured", fn, writeAt, gs(GP("(p4 < p0.wal.offset)", false)), 1, "no WAL write below the captured offset", "frames already captured in an LTX file would be overwritten: the log and the WAL disagree")
		}
		c.ExpectAll("wal-guards/"+f+"/passthrough-args", []string{strings.Join(c.CallArgs(fn, writeAt, 1), ";") + "@" + strings.Join(c.CallArgs(fn, writeAt, 2), ";")}, "p3@p4", 1, "the bytes and offset passed through are the caller's", "")
	}
	ww := "litefs.(*DB).WriteWALAt"
	c.Guarded("wal-guards/dispatch-header", ww, call("writeWALHeader"), gs(GP("(0 == p4)", true)), 1, "offset 0 is the WAL header", "")
	fo := "(((p4 - 32) % (24 + p0.pageSize)) < 24)"
	c.Guarded("wal-guards/dispatch-frame-header", ww, call("writeWALFrameHeader"), gs(GP(fo, true)), 1, "offsets within the first 24 bytes of a frame are frame-header writes", "")
	c.Guarded("wal-guards/dispatch-frame-data", ww, call("writeWALFrameData"), gs(GP(fo, false)), 1, "other offsets are frame data", "")
	c.OnlyIn("wal-guards/raw-wal-writes", func(in ssa.Instruction) bool {
		return writeAt(in) && strings.HasPrefix(p.FuncName(topFunc(in.Parent())), "litefs.(*DB).writeWAL")
	}, []string{`litefs\.\(\*DB\)\.writeWAL(Header|FrameHeader|FrameData)`}, 3, "three guarded pass-through sites", "")

	// ---- hdr-state ----
	walState := p.Writes("litefs.DB.wal.offset", "litefs.DB.wal.salt1", "litefs.DB.wal.salt2", "litefs.DB.wal.chksum1", "litefs.DB.wal.chksum2", "litefs.DB.wal.byteOrder")
	c.OnlyIn("hdr-state/owners", walState, []string{pat("litefs.(*DB).writeWALHeader"), pat(cw), pat("litefs.(*DB).Drop")}, 10, "the WAL capture state (offset, salts, running checksum, byte order) is written only by writeWALHeader, CommitWAL and Drop", "any other writer desynchronises discovery from the file")
	wh := "litefs.(*DB).writeWALHeader"
	magic := "encoding/binary.(bigEndian).Uint32(encoding/binary.BigEndian, p3[0:])"
	c.Guarded("hdr-state/magic-checked", wh, p.Writes("litefs.DB.wal.offset", "litefs.DB.wal.salt1", "litefs.DB.wal.salt2", "litefs.DB.wal.chksum1", "litefs.DB.wal.chksum2"),
		gs(GP("(931071618 == "+magic+")", true), GP("(931071619 == "+magic+")", true)), 5, "header state is adopted only for one of the two WAL magics", "an invalid header would reset the capture state")
	c.Guarded("hdr-state/size-checked", wh, walState, gs(GP("(32 == builtin.len(p3))", true)), 5, "header state is adopted only from a full 32-byte header write", "")
	for _, f := range []struct{ field, off string }{{"salt1", "16"}, {"salt2", "20"}, {"chksum1", "24"}, {"chksum2", "28"}} {
		var got []string
		for _, in := range Instrs(c.F(wh), p.Writes("litefs.DB.wal."+f.field)) {
			got = append(got, p.Render(in.(*ssa.Store).Val))
		}
		c.ExpectAll("hdr-state/"+f.field, got, pat("encoding/binary.(bigEndian).Uint32(encoding/binary.BigEndian, p3["+f.off+":])"), 1, "wal."+f.field+" is read big-endian at header offset "+f.off, "a wrong offset makes every frame fail the salt/checksum test: no commit is ever captured")
	}
	var got []string
	for _, in := range Instrs(c.F(wh), p.Writes("litefs.DB.wal.offset")) {
		got = append(got, p.Render(in.(*ssa.Store).Val))
	}
	c.ExpectAll("hdr-state/offset", got, "32", 1, "a new header restarts capture right after the header (offset 32)", "")
	c.After("hdr-state/overlay-reset", wh, p.Writes("litefs.DB.wal.offset"), p.Writes("litefs.DB.wal.frameOffsets"), nil, 1, "a WAL restart clears the frame-offset overlay", "snapshots/exports would read frames of the previous generation")
	c.After("hdr-state/chksum-overlay-reset", wh, p.Writes("litefs.DB.wal.offset"), p.Writes("litefs.DB.wal.chksums"), nil, 1, "a WAL restart clears the WAL page-checksum overlay", "C04")

	// ---- discover ----
	bt := "litefs.(*DB).buildTxFrameOffsets"
	frame := "make([]byte, (24 + p0.pageSize))"
	u32 := func(sl string) string { return "encoding/binary.(bigEndian).Uint32(encoding/binary.BigEndian, " + frame + sl + ")" }
	rec := p.MapUpdateOn(pat("make(map[uint32]int64)"))
	c.Guarded("discover/salt1", bt, rec, gs(GP("("+u32("[8:]")+" == p0.wal.salt1)", true)), 1, "a frame is recorded only if its salt-1 equals the header's", "frames left over from an earlier generation of the log must never appear in a transaction file")
	c.Guarded("discover/salt2", bt, rec, gs(GP("("+u32("[12:]")+" == p0.wal.salt2)", true)), 1, "a frame is recorded only if its salt-2 equals the header's", "")
	c.Guarded("discover/chksum1", bt, rec, gs(GP("("+u32("[16:]")+" == litefs.WALChecksum(@@)#0)", true)), 1, "a frame is recorded only if checksum-1 equals the running checksum", "a torn or overwritten frame ends the valid prefix")
	c.Guarded("discover/chksum2", bt, rec, gs(GP("("+u32("[20:]")+" == litefs.WALChecksum(@@)#1)", true)), 1, "a frame is recorded only if checksum-2 equals the running checksum", "")
	c.walCommitScanPageNonzero("discover")
	{
		tw := "litefs.(*DB).TruncateWAL"
		caches := p.Writes("litefs.DB.wal.frameOffsets", "litefs.DB.wal.chksums")
		c.Guarded("wal-cache/TruncateWAL/reset-only-for-zero", tw, caches, gs(GP("(0 == p2)", true)), 2, "the WAL caches are reset only by a truncation to zero",
			"SQLite issues non-zero truncations (journal_size_limit) in the middle of a generation and ignores the refusal: wiping the cached checksums of pages that live in the log makes every later commit take them from the stale database-file copy")
		c.Guarded("wal-cache/TruncateWAL/reset-only-after-truncation", tw, caches, gs(G(`^\(litefs\.OS\.Truncate\(.*\) == nil\)$|^\(nil == litefs\.OS\.Truncate\(.*\)\)$`, true)), 2, "... and only after the file was truncated", "")
	}
	{
		rfa := `internal\.ReadFullAt\(.*\)#1`
		notEOF := G(`^\(`+rfa+` == io\.EOF\)$|^\(io\.EOF == `+rfa+`\)$|^errors\.Is\(`+rfa+`, io\.EOF\)$`, false)
		notUEOF := G(`^\(`+rfa+` == io\.ErrUnexpectedEOF\)$|^\(io\.ErrUnexpectedEOF == `+rfa+`\)$|^errors\.Is\(`+rfa+`, io\.ErrUnexpectedEOF\)$`, false)
		realErr := func(in ssa.Instruction) bool {
			r, ok := in.(*ssa.Return)
			if !ok || len(r.Results) != 6 {
				return false
			}
			e := p.Render(returnedValue(r, 5))
			return e != "nil" && e != "litefs.errNoTransaction"
		}
		c.GuardedPaths("discover/short-read-is-no-transaction", bt, realErr, [][]*Guard{{notEOF}, {notUEOF}}, 1,
			"the scan reports a real error (which stops the node) only for a read error that is neither io.EOF nor io.ErrUnexpectedEOF: a WAL that ends inside a frame holds no transaction",
			"a writer killed between the frame header and the page leaves a partial frame: releasing the write lock must find no transaction, not exit the node")
	}
	// checksum chaining
	wcs := Instrs(c.F(bt), p.PlainCalls("litefs.WALChecksum"))
	chainDesc := "the running checksum is WALChecksum(order, prev, frame[:8]) then (.., frame[24:]), seeded from wal.chksum1/2 and carried from frame to frame"
	chainWhy := "SQLite's frame checksum is cumulative over header and all previous frames; any other chaining accepts stale frames or rejects valid ones"
	if len(wcs) == 2 {
		a, b := wcs[0].(*ssa.Call), wcs[1].(*ssa.Call)
		isExt := func(v ssa.Value, of *ssa.Call, idx int) bool {
			e, ok := v.(*ssa.Extract)
			return ok && e.Tuple == ssa.Value(of) && e.Index == idx
		}
		seeded := func(v ssa.Value, field string, idx int) bool {
			ph, ok := v.(*ssa.Phi)
			if !ok || len(ph.Edges) != 2 {
				return false
			}
			seed, back := false, false
			for _, e := range ph.Edges {
				if p.Render(e) == field {
					seed = true
				}
				if isExt(e, b, idx) {
					back = true
				}
			}
			return seed && back
		}
		okChain := c.argR(a, 0) == "p0.wal.byteOrder" && c.argR(b, 0) == "p0.wal.byteOrder" &&
			c.argR(a, 3) == frame+"[:8]" && c.argR(b, 3) == frame+"[24:]" &&
			isExt(b.Call.Args[1], a, 0) && isExt(b.Call.Args[2], a, 1) &&
			seeded(a.Call.Args[1], "p0.wal.chksum1", 0) && seeded(a.Call.Args[2], "p0.wal.chksum2", 1)
		if okChain {
			c.ok("discover/chain", "K6 Origin", chainDesc, 2)
		} else {
			c.fail("discover/chain", "K6 Origin", chainDesc, chainWhy, fmt.Sprintf("first call %s ; second call %s", trunc(p.RenderCall(a), 300), trunc(p.RenderCall(b), 300)), 2)
		}
	} else {
		c.fail("discover/chain", "K6 Origin", chainDesc, chainWhy, fmt.Sprintf("%d WALChecksum calls in buildTxFrameOffsets", len(wcs)), len(wcs))
	}
	// the compared values are the chained ones
	c.ExpectAll("discover/start", c.CallArgs(bt, p.PlainCalls("internal.ReadFullAt"), 2), pat("phi((↺ + builtin.len("+frame+"))|p0.wal.offset)"), 1, "scanning starts at the captured offset and advances by one frame", "")
	commitFrame := "(0 == " + u32("[4:]") + ")"
	succ := func(in ssa.Instruction) bool {
		r, ok := in.(*ssa.Return)
		return ok && p.ClassifyReturn(r) == retSuccess && len(r.Results) == 6 && p.Render(returnedValue(r, 5)) == "nil"
	}
	c.Guarded("discover/success-needs-commit-frame", bt, succ, gs(GP(commitFrame, false)), 1, "the only success return is on a frame whose commit field is non-zero", "frames of an uncommitted transaction never appear in any transaction file")
	c.Before("discover/success-after-record", bt, succ, rec, 1, "the commit frame itself is recorded before returning", "")
	var fails []string
	for _, in := range Instrs(c.F(bt), IsReturn) {
		r := in.(*ssa.Return)
		if len(r.Results) == 6 && !succ(in) {
			fails = append(fails, p.Render(returnedValue(r, 5)))
		}
	}
	c.ExpectAll("discover/other-exits", fails, pat("litefs.errNoTransaction")+"|"+pat("fmt.Errorf(@@)"), 4, "every other exit returns errNoTransaction or an error", "")
	for _, in := range Instrs(c.F(bt), succ) {
		r := in.(*ssa.Return)
		c.Expect("discover/returns", p.Render(returnedValue(r, 1))+" | "+trunc(p.Render(returnedValue(r, 4)), 200), pat(u32("[4:]")+" | (phi((↺ + builtin.len("+frame+"))|p0.wal.offset) + builtin.len("+frame+"))"), "returns (commit field of the commit frame, offset just past it)", "")
	}

	// ---- capture ----
	un := "litefs.(*DB).Unlock"
	cwCall := call("CommitWAL")
	gstate := "(2 == litefs.(*RWMutexGuard).State(litefs.(*GuardSet).Write(litefs.(*DB).GuardSet(p0, p2))))"
	c.Guarded("capture/unlock/has-write-type", un, cwCall, gs(GP("litefs.ContainsLockType(p3, 120)", true)), 1, "Unlock captures only when the WRITE lock type is being released", "")
	c.Guarded("capture/unlock/holds-exclusive", un, cwCall, gs(GP(gstate, true)), 1, "Unlock captures only when this owner holds the WRITE lock exclusively", "a reader releasing a shared lock must not capture another connection's half-written transaction")
	c.NoPath("capture/unlock/before-release", un, p.PlainCalls("litefs.(*RWMutexGuard).Unlock"), cwCall, 1, "CommitWAL never runs after a guard was released", "position advances iff a complete transaction was appended 'each time a connection releases the WAL write lock': once released another writer can append")
	c.BeforeG("capture/unlock/capture-then-release", un, p.PlainCalls("litefs.(*RWMutexGuard).Unlock"), cwCall, gs(GP("litefs.ContainsLockType(p3, 120)", false), GP(gstate, false)), 1, "when the WRITE lock is held exclusively and released, CommitWAL precedes the release", "")
	us := "litefs.(*DB).UnlockSHM"
	c.Guarded("capture/unlockshm/holds-exclusive", us, cwCall, gs(GP(gstate, true)), 1, "UnlockSHM captures only when this owner holds the WRITE lock exclusively", "")
	c.BeforeG("capture/unlockshm/capture-then-release", us, p.PlainCalls("litefs.(*GuardSet).UnlockSHM"), cwCall, gs(GP(gstate, false)), 1, "CommitWAL precedes the release of the SHM guards", "")
	c.NoPath("capture/unlockshm/before-release", us, p.PlainCalls("litefs.(*GuardSet).UnlockSHM"), cwCall, 1, "CommitWAL never runs after the SHM guards were released", "")
	c.OnlyIn("capture/commitwal-callers", p.Calls(cw), []string{pat(un), pat(us)}, 2, "CommitWAL is called only from Unlock and UnlockSHM", "")

	// ---- no-tx ----
	noTx := GP("(litefs.(*DB).buildTxFrameOffsets(p0, @@)#5 == litefs.errNoTransaction)", true)
	create := p.PlainCalls("litefs.OS.Create")
	c.NoPathFromEdge("no-tx/nothing-happens", cw, noTx, Any(create, call("setPos"), walState, p.Writes("litefs.DB.pageN", "litefs.DB.wal.frameOffsets[]", "litefs.DB.wal.chksums[]")), 1,
		"when no complete transaction follows the captured offset nothing is created and no state advances", "a write lock taken without writing, or a rolled-back transaction, must leave position and image unchanged")
	c.EdgeReturns("no-tx/returns-nil", cw, noTx, "nil", 1, "no transaction is not an error (no fatal exit)", "")

	// ---- header, pages ----
	c.ltxHeaders(cw)
	bto := `litefs.(*DB).buildTxFrameOffsets(p0, litefs.OS.Open(p0.os, "COMMITWAL:WAL", litefs.(*DB).WALPath(p0))#0)`
	enc := p.PlainCalls("ltx.(*Encoder).EncodePage")
	pgnos := "{builtin.append(@@)|make([]uint32, 0)}[@@]"
	c.Guarded("pages/lock-page-skipped", cw, enc, gs(GP("(ltx.LockPgno(p0.pageSize) == "+pgnos+")", false)), 1, "the lock page is never encoded", "")
	c.Guarded("pages/within-commit", cw, p.CallWhere("builtin.append", `make\(\[\]uint32, 0\)`), gs(GP("("+bto+"#1 < rangekey("+bto+"#0))", false)), 1,
		"a page of the transaction enters the page list only if pgno <= commit (the size in the commit frame)", "frames for pages beyond the final size (written before the transaction shrank again, e.g. after a cache spill) are not part of the image: the LTX encoder rejects them and CommitWAL exits fatally although a complete committed transaction was appended")
	c.ExpectAll("pages/frame-offset", c.CallArgs(cw, func(in ssa.Instruction) bool {
		return p.PlainCalls("internal.ReadFullAt")(in) && strings.Contains(c.argR(in, 2), "#0[")
	}, 2), pat(bto+"#0["+pgnos+"]"), 1, "each page is read from the WAL at the offset recorded for it (the last frame of that page in the transaction)", "")
	for _, in := range Instrs(c.F(cw), enc) {
		v := callVals(in)
		c.Expect("pages/encoded", p.Render(v[1])+" | "+p.Render(v[2]), pat("ltx.PageHeader{Pgno: "+u32("[0:4]")+"} | "+frame+"[24:]"), "the encoded page is (pgno field of the frame read, frame bytes after the 24-byte header)", "")
	}
	c.Before("pages/sorted", cw, enc, p.PlainCalls("sort.Slice"), 1, "page numbers are sorted before encoding", "")
	zero := func(in ssa.Instruction) bool {
		mu, ok := in.(*ssa.MapUpdate)
		return ok && p.Render(mu.Map) == "make(map[uint32]ltx.Checksum)" && p.Render(mu.Value) == "0"
	}
	c.ExpectAll("pages/truncated-range", mapKeys(p, c.F(cw), zero), pat("phi(("+bto+"#1 + 1)|(↺ + 1))"), 1, "checksums are zeroed for pages commit+1 .. (loop)", "truncated pages removed")
	c.Guarded("pages/truncated-bound", cw, zero, gs(GP("(litefs.(*DB).PageN(p0) < phi(("+bto+"#1 + 1)|(↺ + 1)))", false)), 1, "the truncated-page loop runs while pgno <= previous page count", "")
	ck := c.ArgSource(cw, p.PlainCalls("ltx.(*Encoder).SetPostApplyChecksum"), 1)
	c.ExpectAll("pages/post-origin", c.CallArgs(cw, p.PlainCalls("ltx.(*Encoder).SetPostApplyChecksum"), 1), pat("litefs.(*DB).checksum(p0, "+bto+"#1, make(map[uint32]ltx.Checksum))#0"), 1, "the post-apply checksum is checksum(commit, newWALChksums)", "")
	c.NoPath("pages/no-overlay-write-after-checksum", cw, ck, p.MapUpdateOn(pat("make(map[uint32]ltx.Checksum)")), 1, "the new-checksum overlay is complete before the post-apply checksum is computed", "a shrink would keep truncated pages in the checksum")

	// ---- order ----
	c.ltxPublication(cw)
	c.Before("order/wal-synced-before-scan", cw, call("buildTxFrameOffsets"), c.fileCall("Sync", "WALPath"), 1, "the WAL is fsynced before it is scanned", "synchronous=NORMAL: an LTX built from un-synced frames can outlive them")

	// ---- advance ----
	rename := p.PlainCalls("litefs.OS.Rename")
	c.After("advance/pageN", cw, rename, p.Writes("litefs.DB.pageN"), nil, 1, "after publication every success exit stores the new size", "")
	c.ExpectAll("advance/pageN-origin", c.CallArgs(cw, p.Writes("litefs.DB.pageN"), 1), pat(bto+"#1"), 1, "pageN is the commit frame's size", "")
	c.After("advance/offset", cw, rename, p.Writes("litefs.DB.wal.offset"), nil, 1, "after publication every success exit moves the captured offset", "the same frames would be captured twice")
	for _, f := range []struct{ field, idx string }{{"offset", "#4"}, {"chksum1", "#2"}, {"chksum2", "#3"}} {
		var g []string
		for _, in := range Instrs(c.F(cw), p.Writes("litefs.DB.wal."+f.field)) {
			g = append(g, p.Render(in.(*ssa.Store).Val))
		}
		c.ExpectAll("advance/"+f.field+"-origin", g, pat(bto+f.idx), 1, "wal."+f.field+" advances to the value returned by discovery", "the next discovery would start from a stale offset/checksum")
	}
	c.After("advance/setPos", cw, rename, call("setPos"), nil, 1, "after publication every success exit advances the position", "")
	c.After("advance/markDirty", cw, call("setPos"), p.PlainCalls("litefs.(*Store).MarkDirty"), nil, 1, "after the position advanced every success exit notifies subscribers", "")
	encR := `ltx.NewEncoder(litefs.OS.Create(p0.os, "COMMITWAL:LTX", @@)#0)`
	c.ExpectAll("advance/pos-origin", c.CallArgs(cw, call("setPos"), 1), pat("ltx.Pos{TXID: ltx.(*Encoder).Header("+encR+").MaxTXID, PostApplyChecksum: ltx.(*Encoder).Trailer("+encR+").PostApplyChecksum}"), 1, "the new position is (header MaxTXID, trailer PostApplyChecksum) of the file just written", "")
	// overlay merges: loops may run zero times, so require presence and order only
	c.NoPath("advance/overlay-after-publish-only", cw, p.Writes("litefs.DB.wal.frameOffsets[]", "litefs.DB.wal.chksums[]"), rename, 2, "the frame-offset and checksum overlays are merged only after publication", "")
	fo2 := Instrs(c.F(cw), p.Writes("litefs.DB.wal.frameOffsets[]"))
	for _, in := range fo2 {
		mu := in.(*ssa.MapUpdate)
		c.Expect("advance/frameOffsets-merge", p.Render(mu.Key)+" = "+p.Render(mu.Value), pat("rangekey("+bto+"#0) = rangeval("+bto+"#0)"), "every discovered (page, offset) is merged into wal.frameOffsets", "later reads of the page (snapshot, truncated-page check) would see the old version")
	}
	for _, in := range Instrs(c.F(cw), p.Writes("litefs.DB.wal.chksums[]")) {
		mu := in.(*ssa.MapUpdate)
		c.Expect("advance/walChksums-merge", p.Render(mu.Key)+" = "+p.Render(mu.Value), pat("rangekey(make(map[uint32]ltx.Checksum)) = builtin.append(p0.wal.chksums[rangekey(make(map[uint32]ltx.Checksum))], [rangeval(make(map[uint32]ltx.Checksum))])"), "every new page checksum is appended to wal.chksums", "C04")
	}

	// ---- fatal ----
	fatal := c.anonWith(cw, p.Calls("dyn:litefs.Store.Exit"))
	if fatal == "" {
		c.fail("fatal/installed", "K3", "CommitWAL defers a closure calling Store.Exit", "SQLite and LiteFS must never silently diverge: a failed capture stops the node", "no deferred closure calling Store.Exit found", 0)
	} else {
		deferFatal := func(in ssa.Instruction) bool {
			d, ok := in.(*ssa.Defer)
			return ok && p.FuncName(p.calleeFunc(d)) == fatal
		}
		c.Before("fatal/installed-before-failures", cw, p.FailureReturn, deferFatal, 10, "every failure exit of CommitWAL runs the deferred fatal handler", "SQLite has already committed; returning an error cannot undo it")
		c.Guarded("fatal/on-error-only", fatal, p.Calls("dyn:litefs.Store.Exit"), gs(G(`\(nil == .*\)|\(.* == nil\)`, false)), 1, "the handler exits only when err != nil", "")
		c.ExpectAll("fatal/exit-code", c.CallArgs(fatal, p.Calls("dyn:litefs.Store.Exit"), 0), "99", 1, "exit code 99", "")
	}

	// ---- index (F1) ----
	c.checksumIndexGuard("index")
	c.overrideMarking("index/override-marking")
	// ---- every page of the transaction (tombstones of truncated pages included) enters the WAL checksum overlay ----
	c.EveryIteration("advance/wal-chksums-every-page", "litefs.(*DB).CommitWAL", pat("make(map[uint32]ltx.Checksum)"), c.P.Writes("litefs.DB.wal.chksums[]"),
		"CommitWAL appends the new checksum of every page of the transaction - including the zero tombstone of a page truncated away - to the in-memory WAL overlay, unconditionally",
		"DB.checksum uses the overlay's keys to decide which 256-page blocks it may not take from the cached aggregate: a truncated page that is not recorded leaves its block's stale aggregate in every later checksum of this WAL generation")

}

func mapKeys(p *Prog, fn *ssa.Function, m IM) []string {
	var out []string
	for _, in := range Instrs(fn, m) {
		if mu, ok := in.(*ssa.MapUpdate); ok {
			out = append(out, p.Render(mu.Key))
		}
	}
	return out
}

// checksumIndexGuard (K12 IndexGuard): in DB.checksum the slice ignoredBlocks
// has length pageChksumBlock(pageN)+1; an index pageChksumBlock(k) is in
// range iff k <= pageN (pageChksumBlock is monotone), an index b iff
// b < blockN.
func (c *Ctx) checksumIndexGuard(prefix string) {
	p := c.P
	fn := "litefs.(*DB).checksum"
	f := c.F(fn)
	rule := "K12 IndexGuard"
	why := "ignoredBlocks has pageChksumBlock(pageN)+1 elements: a key beyond pageN (a page truncated by a shrinking WAL transaction crossing a 256-page block) indexes out of range and panics inside CommitWAL"
	if !c.need(prefix, rule, "DB.checksum resolves", f, fn) {
		return
	}
	sl := "make([]bool, (litefs.pageChksumBlock(p1) + 1))"
	n := 0
	for _, b := range f.Blocks {
		for _, in := range b.Instrs {
			ia, ok := in.(*ssa.IndexAddr)
			if !ok || p.Render(ia.X) != sl {
				continue
			}
			n++
			idx := p.Render(ia.Index)
			key := prefix + "/" + idx
			desc := "index " + idx + " into ignoredBlocks is proven in range"
			g := gs(GP("("+idx+" < (litefs.pageChksumBlock(p1) + 1))", true))
			if strings.HasPrefix(idx, "litefs.pageChksumBlock(") {
				k := strings.TrimSuffix(strings.TrimPrefix(idx, "litefs.pageChksumBlock("), ")")
				g = append(g, GP("(p1 < "+k+")", false))
			}
			s := &Search{P: p, Fn: f, Block: p.EdgesAsserting(g...), Tgt: func(x ssa.Instruction) bool { return x == ssa.Instruction(ia) }}
			if fd := s.Run(); fd != nil {
				c.fail(key, rule, desc, why, fmt.Sprintf("index at %s reachable without a bound test (%s); path %s", c.where(ia), g[0].Re, p.TraceString(fd.Trace)), 1)
			} else {
				c.ok(key, rule, desc, 1)
			}
		}
	}
	if n < 3 {
		c.fail(prefix+"/floor", rule, "three index sites into ignoredBlocks", why, fmt.Sprintf("%d found", n), n)
	}
}

// walFrameReads: a WAL offset kept in DB.wal.frameOffsets (or returned by
// readWALPageOffsets) is the offset of a frame, i.e. of its 24-byte header. Every
// read positioned from such an offset either reads exactly the header or starts
// at offset + 24 (shared by C03, C04, C10, C16, C17).
func (c *Ctx) walFrameReads(key string) {
	p := c.P
	rule := "K6 Origin (frame offsets address the frame header)"
	desc := "every read located through a WAL frame offset starts at offset + 24, unless it reads the 24-byte frame header itself"
	why := "reading the page at the frame offset returns the header plus the first pageSize-24 bytes: checksums of removed pages fail (Exit 99), checkpoints and exports copy shifted pages"
	src := regexp.MustCompile(`wal\.frameOffsets\)*\[|readWALPageOffsets\(`)
	plus := regexp.MustCompile(`^\(.* \+ 24\)$|^\(24 \+ .*\)$`)
	n := 0
	var bad []string
	for _, fn := range p.SrcFuncs() {
		if !c.inScope(fn, []string{"litefs"}) {
			continue
		}
		for _, b := range fn.Blocks {
			for _, in := range b.Instrs {
				cc := callCommon(in)
				if cc == nil {
					continue
				}
				idx := -1
				switch p.CalleeName(cc) {
				case "internal.ReadFullAt", "os.(*File).ReadAt":
					idx = 2
				case "os.(*File).Seek":
					idx = 1
				}
				vals := callVals(in)
				if idx < 0 || idx >= len(vals) {
					continue
				}
				off := p.Render(vals[idx])
				if !src.MatchString(off) {
					continue
				}
				n++
				if plus.MatchString(off) {
					continue
				}
				if idx == 2 && p.Render(vals[1]) == "new([24]byte)[:24]" {
					continue // the frame header itself
				}
				bad = append(bad, c.where(in)+": offset "+off)
			}
		}
	}
	if len(bad) > 0 {
		c.fail(key, rule, desc, why, "page read at the frame offset itself: "+strings.Join(bad, "; "), n)
		return
	}
	if n < 5 {
		c.fail(key, rule, desc, why, fmt.Sprintf("only %d read site(s) located through frame offsets, expected >= 5 (matcher no longer recognises the construct)", n), n)
		return
	}
	c.ok(key, rule, desc, n)
}

// walCommitScanPageNonzero (C03, C17): the commit-time WAL scan applies the
// rule WALReader.ReadFrame applies - a frame for page zero ends the valid prefix.
func (c *Ctx) walCommitScanPageNonzero(prefix string) {
	p := c.P
	bt := "litefs.(*DB).buildTxFrameOffsets"
	rec := p.MapUpdateOn(pat("make(map[uint32]int64)"))
	zero := G(`^\(0 == encoding/binary\.\(bigEndian\)\.Uint32\(encoding/binary\.BigEndian, .*\[0:\]\)\)$`, false)
	c.Guarded(prefix+"/page-nonzero", bt, rec, gs(zero), 1, "a frame is recorded by the commit-time scan only when its page number is not zero",
		"F45: SQLite and WALReader end the valid prefix at such a frame; taken into a transaction it is refused by the LTX encoder and the node exits at commit time")
	c.Guarded(prefix+"/page-nonzero/before-commit-exit", bt, p.SuccessReturn, gs(zero), 1, "... and no transaction is reported through a frame for page zero", "")
}

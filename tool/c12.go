package main

import (
	"fmt"
	"regexp"
	"strings"

	"golang.org/x/tools/go/ssa"
)

func init() {
	register(&Property{
		ID:    "C12",
		Level: "proof",
		Run:   c12,
		Explanation: "Safety of the advisory lock is a finite-state statement about three small functions and two queries and is decided completely by a finite-domain abstract interpretation of their go/ssa form: abstract state (guard state U/S/X, shared count in {0,1,2,>=3}, exclusive holder in {nil,self,other}); for each of the five functions and each abstract pre-state satisfying the invariant (9 states, 45 obligations) the interpreter computes all outcomes (forking where >=3-1 is {2,>=3}) and checks: no assert/panic reachable, invariant preserved, result and post-state equal the POSIX-style specification (a failed attempt changes nothing, unlock of an unheld guard is a no-op, queries store nothing and report the success predicate). The quotient is justified by an origin check (the count is only compared with 0/1, changed by +-1 or set to 0/1). Frame conditions make the per-guard step proof a statement about the mutex: the three shared fields are written only by the three functions, every access happens under rw.mu (wrappers lock, call the helper, unlock; the state-change callback runs after the unlock). The blocking variants are decided by CFG rules: nil is returned only after a successful Try*, the context branch returns a non-nil error, the ticker branch retries the same operation. A blocking variant touches the guard only through its own Try* operation (a failed or pending attempt changes nothing). The per-owner wrappers of DB (CanLock, CanRLock, TryLocks, TryRLocks) always work on the requesting owner's guard set (created when absent, never the nil-able lookup), query every requested lock type through that owner's guard and answer true only after all of them did.",
		NotDecided: "'returns as soon as' (10 microsecond polling, timing) and data-race freedom under the race detector beyond the lock-discipline rule.",
		Assumptions: []string{"go/ssa faithfully represents the source", "the abstract transfer functions in tool/rwabs.go are sound for the instructions that occur (unmodelled instructions fail closed)", "sync.Mutex provides mutual exclusion", "context.Context contract: Err() is non-nil once Done() is closed"},
	})
}

func c12(c *Ctx) {
	{
		// a guard set belongs to a lock owner for the life of the database object: nobody removes it
		n := 0
		var where []string
		for _, f := range c.P.SrcFuncs() {
			if !c.inScope(f, []string{"litefs"}) {
				continue
			}
			for _, b := range f.Blocks {
				for _, in := range b.Instrs {
					call, ok := in.(*ssa.Call)
					if !ok {
						continue
					}
					if bi, ok := call.Call.Value.(*ssa.Builtin); ok && bi.Name() == "delete" && len(call.Call.Args) == 2 && strings.HasSuffix(c.P.Render(call.Call.Args[0]), ".guardSets.m") {
						n++
						where = append(where, c.where(in))
					}
				}
			}
		}
		d := "no guard set is ever removed from DB.guardSets.m"
		if n > 0 {
			c.fail("owners/guardset-never-removed", "K5 who-may-write", d, "the set also holds the owner's SHM guards: once it is gone their release finds nothing to unlock and the locks stay held for ever, while a fresh empty set is handed out for the same owner", "removed at "+strings.Join(where, ", "), n)
		} else {
			c.ok("owners/guardset-never-removed", "K5 who-may-write", d, 1)
		}
	}
	p := c.P
	c.rwAbstract("step")

	// ---- frame conditions ----
	c.OnlyIn("frame/sharedN-excl-writers", p.Writes("litefs.RWMutex.sharedN", "litefs.RWMutex.excl"), []string{pat("litefs.(*RWMutexGuard).tryLock"), pat("litefs.(*RWMutexGuard).tryRLock"), pat("litefs.(*RWMutexGuard).unlock")}, 8,
		"rw.sharedN and rw.excl are written only by tryLock, tryRLock and unlock", "the step proof covers exactly these writers")
	c.OnlyIn("frame/guard-state-writers", p.Writes("litefs.RWMutexGuard.state"), []string{pat("litefs.(*RWMutexGuard).tryLock"), pat("litefs.(*RWMutexGuard).tryRLock"), pat("litefs.(*RWMutexGuard).unlock"), pat("litefs.(*RWMutex).Guard")}, 6,
		"a guard's state is written only by the three functions and by Guard() (initialisation to unlocked)", "")
	for _, fn := range []string{"litefs.(*RWMutexGuard).tryLock", "litefs.(*RWMutexGuard).tryRLock", "litefs.(*RWMutexGuard).unlock"} {
		var tg []string
		for _, in := range Instrs(c.F(fn), p.Writes("litefs.RWMutexGuard.state")) {
			if st, ok := in.(*ssa.Store); ok {
				tg = append(tg, strings.TrimPrefix(p.Render(st.Addr), "&"))
			}
		}
		c.ExpectAll("frame/own-state-only/"+fn[strings.LastIndex(fn, ".")+1:], tg, "p0\\.state", 1, "the function writes only its own guard's state", "no function writes another guard's state")
	}
	c.Expect("frame/Guard-init", joinS(c.returnsOf("litefs.(*RWMutex).Guard")), pat("litefs.RWMutexGuard{rw: p0}"), "Guard() returns an unlocked guard bound to this mutex", "")
	helpers := []string{"litefs.(*RWMutexGuard).tryLock", "litefs.(*RWMutexGuard).tryRLock", "litefs.(*RWMutexGuard).unlock", "litefs.(*RWMutex).state"}
	c.HeldMutex("frame/mutex/rw-fields", []string{"litefs.RWMutex.sharedN", "litefs.RWMutex.excl"}, "p0.rw.mu", helpers)
	c.HeldMutex("frame/mutex/guard-state", []string{"litefs.RWMutexGuard.state"}, "p0.rw.mu", append([]string{"litefs.(*RWMutex).Guard"}, helpers...))
	for _, w := range []struct{ fn, helper string }{
		{"litefs.(*RWMutexGuard).TryLock", "litefs.(*RWMutexGuard).tryLock"}, {"litefs.(*RWMutexGuard).TryRLock", "litefs.(*RWMutexGuard).tryRLock"}, {"litefs.(*RWMutexGuard).Unlock", "litefs.(*RWMutexGuard).unlock"},
	} {
		short := w.fn[strings.LastIndex(w.fn, ".")+1:]
		lock := p.CallWhere("sync.(*Mutex).Lock", `&p0\.rw\.mu`)
		unlockAny := p.CallWhere("sync.(*Mutex).Unlock", `&p0\.rw\.mu`)
		unlock := func(in ssa.Instruction) bool { _, isCall := in.(*ssa.Call); return isCall && unlockAny(in) } // a deferred unlock runs after the callback
		c.Before("frame/wrapper/"+short+"/locked", w.fn, p.PlainCalls(w.helper, "litefs.(*RWMutex).state"), lock, 3, short+" calls the helper and state() only after rw.mu.Lock()", "")
		c.NoPath("frame/wrapper/"+short+"/not-after-unlock", w.fn, unlock, p.PlainCalls(w.helper, "litefs.(*RWMutex).state"), 1, "... and never after rw.mu.Unlock()", "")
		cb := p.Calls("dyn", "dyn:litefs.RWMutex.OnLockStateChange")
		c.Before("frame/wrapper/"+short+"/callback-after-unlock", w.fn, cb, unlock, 1, "the OnLockStateChange callback is invoked after rw.mu.Unlock()", "a callback that takes locks would deadlock under the mutex")
		c.ExpectAll("frame/wrapper/"+short+"/result", c.returnsOfAll(w.fn), pat(w.helper+"(p0)")+"|", 1, short+" returns exactly the helper's result", "")
		c.ExpectAll("frame/wrapper/"+short+"/receiver", c.CallArgs(w.fn, p.PlainCalls(w.helper), 0), "p0", 1, "the helper runs on the same guard", "")
	}
	c.OnlyIn("frame/helper-callers", p.Calls("litefs.(*RWMutexGuard).tryLock", "litefs.(*RWMutexGuard).tryRLock", "litefs.(*RWMutexGuard).unlock"), []string{pat("litefs.(*RWMutexGuard).TryLock"), pat("litefs.(*RWMutexGuard).TryRLock"), pat("litefs.(*RWMutexGuard).Unlock"), pat("litefs.(*RWMutexGuard).tryLock"), pat("litefs.(*RWMutexGuard).tryRLock"), pat("litefs.(*RWMutexGuard).unlock")}, 3,
		"the lower-case helpers are called only by their locking wrappers (or by one another, still under the mutex)", "")
	for _, q := range []string{"litefs.(*RWMutex).State", "litefs.(*RWMutexGuard).State", "litefs.(*RWMutexGuard).CanLock", "litefs.(*RWMutexGuard).CanRLock"} {
		c.Before("frame/query-locks/"+q[strings.LastIndex(q, ".")+1:]+strings.Repeat("G", strings.Count(q, "Guard")), q, p.SuccessReturn, p.PlainCalls("sync.(*Mutex).Lock"), 1, q+" takes rw.mu", "")
	}

	// ---- blocking variants ----
	for _, b := range []struct{ fn, try string }{{"litefs.(*RWMutexGuard).Lock", "litefs.(*RWMutexGuard).TryLock"}, {"litefs.(*RWMutexGuard).RLock", "litefs.(*RWMutexGuard).TryRLock"}} {
		short := b.fn[strings.LastIndex(b.fn, ".")+1:]
		// index of the ctx.Done() case of the select
		doneIdx := -1
		for _, bb := range c.F(b.fn).Blocks {
			for _, in := range bb.Instrs {
				if s, ok := in.(*ssa.Select); ok {
					for i, st := range s.States {
						if p.Render(st.Chan) == "context.Context.Done(p1)" {
							doneIdx = i
						}
					}
				}
			}
		}
		isCtxErr := func(r *ssa.Return) bool {
			return len(r.Results) == 1 && p.Render(returnedValue(r, 0)) == "context.Context.Err(p1)"
		}
		live := func(r *ssa.Return) bool { return !(r.Block().Index != 0 && len(r.Block().Preds) == 0) }
		okRet := func(in ssa.Instruction) bool {
			r, ok := in.(*ssa.Return)
			return ok && p.ClassifyReturn(r) != retFailure && live(r) && !isCtxErr(r)
		}
		c.GuardedPaths("blocking/"+short+"/nil-only-after-try", b.fn, okRet, [][]*Guard{{GP(b.try+"(p0)", true)}}, 2,
			short+" returns nil (or a possibly-nil error) only on a path where "+b.try+" returned true", "returning success without holding the lock lets the caller read or write without exclusion")
		if n := len(Instrs(c.F(b.fn), func(in ssa.Instruction) bool { r, ok := in.(*ssa.Return); return ok && live(r) && isCtxErr(r) })); n > 0 {
			c.GuardedPaths("blocking/"+short+"/ctx-err-after-done", b.fn, func(in ssa.Instruction) bool { r, ok := in.(*ssa.Return); return ok && live(r) && isCtxErr(r) },
				[][]*Guard{{GP(fmt.Sprintf("(%d == select#0)", doneIdx), true)}}, 1,
				short+" returns ctx.Err() only in the select case that received from ctx.Done() (Context contract: Err is then non-nil)", "ctx.Err() before the context is done is nil: success without the lock")
		}
		{
			// a failed (or pending) blocking attempt changes nothing: the only guard operation used is the Try* itself
			var other []string
			n := 0
			for _, in := range Instrs(c.F(b.fn), p.CallsRe(`litefs\.\(\*RWMutexGuard\)\..*`)) {
				n++
				if nm := p.CalleeName(callCommon(in)); nm != b.try {
					other = append(other, nm+" at "+c.where(in))
				}
			}
			d := short + " touches the guard only through " + b.try + " (no Unlock, no other operation on any path)"
			if len(other) > 0 || n < 2 {
				c.fail("blocking/"+short+"/failure-changes-nothing", "K5 who-may-call", d, "a failed attempt changes nothing: releasing on the context path drops a shared lock the caller still holds", strings.Join(other, "; "), n)
			} else {
				c.ok("blocking/"+short+"/failure-changes-nothing", "K5 who-may-call", d, n)
			}
		}
		var tried []string
		for _, in := range Instrs(c.F(b.fn), p.PlainCalls("litefs.(*RWMutexGuard).TryLock", "litefs.(*RWMutexGuard).TryRLock")) {
			tried = append(tried, p.CalleeName(callCommon(in)))
		}
		c.ExpectAll("blocking/"+short+"/retries-same-op", tried, pat(b.try), 2, "both the fast path and the ticker branch attempt "+b.try, "a shared waiter that retries with the exclusive operation either never succeeds or ends up exclusive")
		c.Before("blocking/"+short+"/ticker-stopped", b.fn, func(in ssa.Instruction) bool { _, ok := in.(*ssa.Select); return ok }, func(in ssa.Instruction) bool {
			d, ok := in.(*ssa.Defer)
			return ok && p.CalleeName(d.Common()) == "time.(*Ticker).Stop"
		}, 1, "the ticker is stopped on exit", "")
		var sel []string
		for _, bb := range c.F(b.fn).Blocks {
			for _, in := range bb.Instrs {
				if s, ok := in.(*ssa.Select); ok {
					for _, st := range s.States {
						sel = append(sel, p.Render(st.Chan))
					}
				}
			}
		}
		c.Expect("blocking/"+short+"/select", strings.Join(sel, " ; "), pat("context.Context.Done(p1) ; time.NewTicker(@@).C"), "the wait selects on ctx.Done() and a ticker", "")
	}
	// ---- per-owner wrappers (DB level): a query or attempt by an owner always goes through that owner's guard ----
	for _, w := range []struct{ fn, op string }{
		{"litefs.(*DB).CanLock", "litefs.(*RWMutexGuard).CanLock"}, {"litefs.(*DB).CanRLock", "litefs.(*RWMutexGuard).CanRLock"},
		{"litefs.(*DB).TryLocks", "litefs.(*RWMutexGuard).TryLock"}, {"litefs.(*DB).TryRLocks", "litefs.(*RWMutexGuard).TryRLock"},
	} {
		short := w.fn[strings.LastIndex(w.fn, ".")+1:]
		gcall := p.PlainCalls("litefs.(*GuardSet).Guard")
		c.ExpectAll("owners/"+short+"/own-guard-set", c.CallArgs(w.fn, gcall, 0), pat("litefs.(*DB).CreateGuardSetIfNotExists(p0, p2)"), 1, "DB."+short+" works on the requesting owner's guard set, created when the owner has none yet", "an owner that holds nothing is not 'nobody holds anything': a query from a fresh owner must still see the other owners' locks")
		c.ExpectAll("owners/"+short+"/each-lock", c.CallArgs(w.fn, gcall, 1), pat("p3[(phi(-1) + 1)]")+"|"+pat("phi(builtin.append(↺, [p3[(phi(-1) + 1)]])|nil)[(phi(-1) + 1)]"), 1, "... for every requested lock type, in order (or for an element of a list built from the requested lock types only)", "")
		c.ExpectAll("owners/"+short+"/op", c.CallArgs(w.fn, p.PlainCalls(w.op), 0), pat("litefs.(*GuardSet).Guard(litefs.(*DB).CreateGuardSetIfNotExists(p0, p2), p3[(phi(-1) + 1)])"), 1, "... through "+w.op[strings.LastIndex(w.op, ".")+1:]+" of that guard", "")
		c.GuardedPaths("owners/"+short+"/true-only-after-all", w.fn, func(in ssa.Instruction) bool {
			r, ok := in.(*ssa.Return)
			return ok && len(r.Results) > 0 && p.Render(returnedValue(r, 0)) == "true" && !(r.Block().Index != 0 && len(r.Block().Preds) == 0)
		}, [][]*Guard{{G(`\(\(phi\(-1\) \+ 1\) < builtin\.len\(p3\)\)|\(.* < builtin\.len\(p3\)\)`, false)}}, 1, "... and answers true only after the loop over all requested locks completed", "")
	}
	c.atomicRangeRequests("atomic")
	{
		// closing a file releases every lock of that file the owner holds - whatever it holds
		known := G(`^\(litefs\.\(\*DB\)\.GuardSet\(p0, p2\) == nil\)$|^\(nil == litefs\.\(\*DB\)\.GuardSet\(p0, p2\)\)$`, false)
		isRet := func(in ssa.Instruction) bool { _, ok := in.(*ssa.Return); return ok }
		c.AfterEdge("close/UnlockSHM/releases-whatever-is-held", "litefs.(*DB).UnlockSHM", known, p.PlainCalls("litefs.(*GuardSet).UnlockSHM"), isRet, 1,
			"closing the SHM file releases the owner's SHM locks on every path on which the owner is known - not only for the WAL writer",
			"a reader that exits holds DMS/READn shared; if its close does not release them no exclusive attempt (and no internal write lock) ever succeeds again")
		c.AfterEdge("close/UnlockDatabase/releases-whatever-is-held", "litefs.(*DB).UnlockDatabase", known, p.PlainCalls("litefs.(*GuardSet).UnlockDatabase"), isRet, 1,
			"closing the database file releases the owner's database locks whenever the owner is known", "")
	}
	c.OnlyInScope("owners/nilable-lookup", []string{"litefs", "fuse", "http"}, p.Calls("litefs.(*DB).GuardSet"), []string{pat("litefs.(*DB).UnlockDatabase"), pat("litefs.(*DB).UnlockSHM"), pat("litefs.(*DB).Unlock")}, 3, "the nil-able lookup DB.GuardSet(owner) is used only by the three unlock entry points (unlocking for an owner without a guard set is a no-op)", "")
	c.Expect("owners/create-returns-existing", joinS(c.returnsOf("litefs.(*DB).CreateGuardSetIfNotExists")), pat("@@"), "CreateGuardSetIfNotExists resolves", "")
	c.Before("owners/create-under-mutex", "litefs.(*DB).CreateGuardSetIfNotExists", p.Writes("litefs.DB.guardSets.m[]", "litefs.DB.guardSets[]"), p.PlainCalls("sync.(*Mutex).Lock"), 0, "the owner table is updated under its mutex", "")

	c.Expect("blocking/contextErr", joinS(c.returnsOf("litefs.contextErr")), pat("context.Cause(p0);context.Context.Err(p0)"), "contextErr returns context.Cause(ctx) when non-nil, else ctx.Err()", "context.Cause of a context that does not track causes (the primary context) is nil even after it is done")
	c.GuardedPaths("blocking/contextErr/cause-nonnil", "litefs.contextErr", func(in ssa.Instruction) bool {
		r, ok := in.(*ssa.Return)
		return ok && strings.HasPrefix(p.Render(returnedValue(r, 0)), "context.Cause")
	}, [][]*Guard{{GP("(context.Cause(p0) == nil)", false)}}, 1, "the cause is returned only when it is non-nil", "")
}

// returnsOfAll renders the first result of all returns, "" for functions without results.
func (c *Ctx) returnsOfAll(fname string) []string {
	out := c.returnsOf(fname)
	if len(out) == 0 {
		return []string{""}
	}
	return out
}

// atomicRangeRequests: a lock request that covers several locks (one fcntl
// byte range) is granted or refused as a whole - a refusal restores every guard
// the call already changed (F49).
func (c *Ctx) atomicRangeRequests(prefix string) {
	p := c.P
	gs0 := "litefs.(*DB).CreateGuardSetIfNotExists(p0, p2)"
	guard := "litefs.(*GuardSet).Guard(" + gs0 + ", p3[(phi(-1) + 1)])"
	state := "litefs.(*RWMutexGuard).State(" + guard + ")"
	retFalse := func(in ssa.Instruction) bool {
		r, ok := in.(*ssa.Return)
		return ok && len(r.Results) > 0 && p.Render(returnedValue(r, 0)) == "false" && !(r.Block().Index != 0 && len(r.Block().Preds) == 0)
	}
	why := "POSIX refuses a byte-range request without changing anything; a partial grant keeps locks nobody was granted (spurious busy errors), a partial downgrade lets another owner share a lock its holder believes exclusive"

	// ---- TryLocks ----
	tl := "litefs.(*DB).TryLocks"
	restore := p.PlainCalls("litefs.restoreGuards")
	prev := "phi(builtin.append(↺, [" + state + "])|make([]litefs.RWMutexState, 0))"
	c.Before(prefix+"/TryLocks/refusal-restores", tl, retFalse, restore, 2, "every refusal exit of TryLocks has called restoreGuards", why)
	c.ExpectAll(prefix+"/TryLocks/restore-args", append(append(c.CallArgs(tl, restore, 0), c.CallArgs(tl, restore, 1)...), c.CallArgs(tl, restore, 2)...),
		pat(gs0)+"|p3|"+pat(prev), 6, "restoreGuards receives the owner's guard set, the requested lock types and the list of states recorded by this call", "")
	tryLock := p.PlainCalls("litefs.(*RWMutexGuard).TryLock")
	stateCall := p.CallWhere("litefs.(*RWMutexGuard).State", regexp.QuoteMeta(guard))
	c.Before(prefix+"/TryLocks/state-read-before-attempt", tl, tryLock, stateCall, 1, "the guard's state is read before the attempt that may change it", "the state restored must be the one before the call")
	appendPrev := func(in ssa.Instruction) bool {
		call, ok := in.(*ssa.Call)
		if !ok {
			return false
		}
		b, ok := call.Call.Value.(*ssa.Builtin)
		return ok && b.Name() == "append" && strings.Contains(p.Render(call), "RWMutexGuard).State(")
	}
	c.Guarded(prefix+"/TryLocks/recorded-only-when-taken", tl, appendPrev, gs(G(`^`+regexp.QuoteMeta("litefs.(*RWMutexGuard).TryLock("+guard+")")+`$`, true)), 1,
		"a state is recorded only for a guard this call has locked", "restoring a guard that was not taken would release a lock the owner held before the call")
	c.AfterEdge(prefix+"/TryLocks/every-taken-guard-recorded", tl, G(`^`+regexp.QuoteMeta("litefs.(*RWMutexGuard).TryLock("+guard+")")+`$`, true), appendPrev, func(in ssa.Instruction) bool {
		_, isRet := in.(*ssa.Return)
		return isRet || tryLock(in)
	}, 1, "every guard locked by this call is recorded before the next attempt or exit", "", G(`^`+regexp.QuoteMeta("litefs.(*RWMutexGuard).TryLock("+guard+")")+`$`, false))

	// ---- restoreGuards ----
	rg := "litefs.restoreGuards"
	g1 := "litefs.(*GuardSet).Guard(p0, p1[(phi(-1) + 1)])"
	c.ExpectAll(prefix+"/restore/guard-of-same-index", append(c.CallArgs(rg, p.PlainCalls("litefs.(*RWMutexGuard).Unlock"), 0), c.CallArgs(rg, p.PlainCalls("litefs.(*RWMutexGuard).TryRLock"), 0)...), pat(g1), 2,
		"restoreGuards acts on the guard of the lock type at the index of the recorded state", "")
	c.Guarded(prefix+"/restore/unlock-iff-was-unlocked", rg, p.PlainCalls("litefs.(*RWMutexGuard).Unlock"), gs(GP("(0 == p2[(phi(-1) + 1)])", true)), 1, "a guard is unlocked only when it was unlocked before the call", "")
	c.Guarded(prefix+"/restore/downgrade-iff-was-shared", rg, p.PlainCalls("litefs.(*RWMutexGuard).TryRLock"), gs(GP("(1 == p2[(phi(-1) + 1)])", true)), 1, "a guard is downgraded to shared only when it was shared before the call", "")
	c.AfterEdge(prefix+"/restore/was-unlocked-is-unlocked", rg, GP("(0 == p2[(phi(-1) + 1)])", true), p.PlainCalls("litefs.(*RWMutexGuard).Unlock"), func(in ssa.Instruction) bool {
		_, isRet := in.(*ssa.Return)
		return isRet || p.PlainCalls("litefs.(*GuardSet).Guard")(in)
	}, 1, "every guard that was unlocked before the call is unlocked again", "")
	c.AfterEdge(prefix+"/restore/was-shared-is-shared", rg, GP("(1 == p2[(phi(-1) + 1)])", true), p.PlainCalls("litefs.(*RWMutexGuard).TryRLock"), func(in ssa.Instruction) bool {
		_, isRet := in.(*ssa.Return)
		return isRet || p.PlainCalls("litefs.(*GuardSet).Guard")(in)
	}, 1, "every guard that was shared before the call is downgraded again", "")
	c.OnlyInScope(prefix+"/restore/callers", []string{"litefs", "fuse", "http"}, p.Calls(rg), []string{pat(tl)}, 2, "restoreGuards is called by TryLocks only", "")

	// ---- TryRLocks ----
	tr := "litefs.(*DB).TryRLocks"
	isTryR := p.PlainCalls("litefs.(*RWMutexGuard).TryRLock")
	refusable := func(in ssa.Instruction) bool {
		call, ok := in.(*ssa.Call)
		return ok && isTryR(in) && call.Referrers() != nil && len(*call.Referrers()) > 0
	}
	unconditional := func(in ssa.Instruction) bool {
		call, ok := in.(*ssa.Call)
		return ok && isTryR(in) && (call.Referrers() == nil || len(*call.Referrers()) == 0)
	}
	ownExcl := "(2 == " + state + ")"
	c.Guarded(prefix+"/TryRLocks/refusable-step-skips-own-exclusive", tr, refusable, gs(GP(ownExcl, false)), 1,
		"the attempt that can be refused is made only for locks the owner does not hold exclusively", why)
	c.Guarded(prefix+"/TryRLocks/downgrade-only-own-exclusive", tr, unconditional, gs(GP(ownExcl, true)), 1, "the unconditional step is the downgrade of the owner's own exclusive lock (always granted)", "")
	c.NoPath(prefix+"/TryRLocks/no-refusal-after-downgrade", tr, unconditional, Any(retFalse, refusable), 1,
		"once an exclusive lock was downgraded the request can no longer be refused (no refusable attempt and no refusal exit follows)", why)
	taken := "phi(builtin.append(↺, [p3[(phi(-1) + 1)]])|nil)"
	c.Guarded(prefix+"/TryRLocks/refusal-after-release-loop", tr, retFalse, gs(G(`^\(\(phi\(-1\) \+ 1\) < builtin\.len\(`+regexp.QuoteMeta(taken)+`\)\)$`, false)), 1,
		"the refusal exit is reached only through the loop over the locks newly taken by this call", "")
	c.ExpectAll(prefix+"/TryRLocks/releases-newly-taken", c.CallArgs(tr, p.PlainCalls("litefs.(*RWMutexGuard).Unlock"), 0), pat("litefs.(*GuardSet).Guard("+gs0+", "+taken+"[(phi(-1) + 1)])"), 1,
		"that loop unlocks the owner's guard of each such lock", "")
	appendTaken := func(in ssa.Instruction) bool {
		call, ok := in.(*ssa.Call)
		if !ok {
			return false
		}
		b, ok := call.Call.Value.(*ssa.Builtin)
		return ok && b.Name() == "append"
	}
	c.Guarded(prefix+"/TryRLocks/newly-taken-means-was-unlocked", tr, appendTaken, gs(GP("(0 == "+state+")", true)), 1,
		"a lock counts as newly taken only when it was unlocked before the attempt", "releasing a lock that was shared before the call would drop a lock the owner still relies on")
	c.Guarded(prefix+"/TryRLocks/newly-taken-means-granted", tr, appendTaken, gs(G(`^`+regexp.QuoteMeta("litefs.(*RWMutexGuard).TryRLock("+guard+")")+`$`, true)), 1,
		"... and the attempt succeeded", "")
	c.AfterEdge(prefix+"/TryRLocks/every-newly-taken-recorded", tr, GP("(0 == "+state+")", true), appendTaken, func(in ssa.Instruction) bool {
		_, isRet := in.(*ssa.Return)
		return isRet || refusable(in)
	}, 1, "every lock taken from the unlocked state is recorded before the next attempt or exit", "")
	c.Before(prefix+"/TryRLocks/state-read-before-attempt", tr, refusable, p.CallWhere("litefs.(*RWMutexGuard).State", regexp.QuoteMeta(guard)), 1, "the guard's state is read before the attempt", "")
}

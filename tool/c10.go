package main

import (
	"go/token"
	"strings"

	"golang.org/x/tools/go/ssa"
)

func init() {
	register(&Property{
		ID:    "C10",
		Level: "other",
		Run:   c10,
		Explanation: "The snapshot/export lock protocol decided as a typestate over the twelve guards of the function's GuardSet, folded along every feasible path: the captured quantities (position, page count, page size, WAL frame-offset overlay) are read while SHARED is held and, in WAL mode, while the WAL WRITE lock is held exclusively, and never after that lock was released; every page read happens with SHARED and all five READ locks held (export: plus CKPT and RECOVER), CKPT/RECOVER are released in the snapshot only after the five READ locks are held, the only full release is the deferred GuardSet.Unlock; pages are read through the copied overlay; the snapshot refuses to finish when its accumulated checksum differs from the captured position's; the checkpoint gate of TryLocks.",
		NotDecided: "the schedule interleavings themselves; Export has no self-check, so its correctness rests entirely on the lock protocol decided here.",
		Assumptions: []string{"go/ssa faithfully represents the source", "RWMutexGuard implements reader/writer semantics (C12)", "writers and checkpointers follow SQLite's locking protocol (C11)"},
	})
}

func c10(c *Ctx) {
	c.pageLoopsComplete("complete", "WriteSnapshotTo", "Export")
	c.walFrameReads("wal-frame/page-after-header")
	p := c.P
	c.captureFamily("litefs.(*DB).WriteSnapshotTo", false)
	c.captureFamily("litefs.(*DB).Export", true)
	c.exportSelfCheck("export-selfcheck")
	c.walCacheFamily("wal-cache")

	// snapshot self-check + header
	c.snapshotSelfCheck("selfcheck")
	c.ltxHeaders("litefs.(*DB).WriteSnapshotTo")
	ws := "litefs.(*DB).WriteSnapshotTo"
	c.Guarded("selfcheck/lock-page-skipped", ws, p.PlainCalls("ltx.(*Encoder).EncodePage"), gs(GP("(ltx.LockPgno(p0.pageSize) == phi(@@))", false)), 1, "the lock page is never encoded in a snapshot", "")
	var rets []string
	for _, in := range Instrs(c.F(ws), p.SuccessReturn) {
		r := in.(*ssa.Return)
		rets = append(rets, p.Render(returnedValue(r, 0))+" | "+p.Render(returnedValue(r, 1)))
	}
	c.ExpectAll("selfcheck/reports-what-it-wrote", rets, pat("ltx.(*Encoder).Header(ltx.NewEncoder(p2)) | ltx.(*Encoder).Trailer(ltx.NewEncoder(p2))"), 1, "the snapshot reports the header/trailer it wrote", "")
	c.ckptGate("ckpt-gate")
	c.ckptCopiesAll("ckpt")
	c.exportCommandFile("cli")
}

// exportCommandFile (C10, C16): the export stream carries neither length nor
// checksum, so the file the command writes IS the export: it must start empty.
func (c *Ctx) exportCommandFile(prefix string) {
	p := c.P
	run := "cmd.(*ExportCommand).Run"
	var got []string
	for _, in := range Instrs(c.F(run), p.PlainCalls("os.Create", "os.OpenFile", "os.CreateTemp")) {
		cc := callCommon(in)
		name := p.CalleeName(cc)
		switch name {
		case "os.Create", "os.CreateTemp":
			got = append(got, "truncating")
		default:
			ok := false
			if k, isConst := cc.Args[1].(*ssa.Const); isConst && k.Value != nil {
				if v, exact := constantInt64(k); exact && (v&0x200 != 0 || v&0x80 != 0) { // O_TRUNC or O_EXCL
					ok = true
				}
			}
			if ok {
				got = append(got, "truncating")
			} else {
				got = append(got, "os.OpenFile without O_TRUNC/O_EXCL at "+c.where(in))
			}
		}
	}
	c.ExpectAll(prefix+"/export-file-starts-empty", got, "truncating", 1, "litefs export creates its temporary file truncated (os.Create, or OpenFile with O_TRUNC or O_EXCL)",
		"a longer file left by an interrupted earlier export keeps its tail: the command reports success for the pages of one position followed by pages of another")
	c.ExpectAll(prefix+"/export-copies-into-that-file", c.CallArgs(run, p.PlainCalls("io.Copy"), 0), pat("os.Create(@@)#0")+"|"+pat("os.OpenFile(@@)#0")+"|"+pat("os.CreateTemp(@@)#0"), 1, "the response body is copied into that file", "")
	c.Before(prefix+"/export-renamed-after-sync", run, p.PlainCalls("os.Rename"), p.PlainCalls("os.(*File).Sync"), 1, "the file is renamed into place only after it was synced", "")
}

func constantInt64(k *ssa.Const) (int64, bool) {
	if k.Value == nil {
		return 0, false
	}
	return k.Int64(), true
}


// ckptGate (C10, C11): TryLocks refuses the CKPT lock to an owner while
// another owner holds the WAL WRITE lock.
func (c *Ctx) ckptGate(key string) {
	p := c.P
	tl := "litefs.(*DB).TryLocks"
	c.GuardedPaths(key, tl, p.PlainCalls("litefs.(*RWMutexGuard).TryLock"), [][]*Guard{{
		GP("(121 == @@)", false),
		GP("(0 == litefs.(*RWMutex).State(&p0.writeLock))", true),
		GP("(2 == litefs.(*RWMutexGuard).State(&litefs.(*DB).CreateGuardSetIfNotExists(p0, p2).write))", true),
	}}, 1, "a guard's TryLock is attempted only if the lock is not CKPT, or nobody holds the WAL WRITE lock, or this owner holds it exclusively",
		"a checkpoint lock granted to one connection while another holds the WRITE lock lets a passive checkpoint copy frames into the database before the LTX for them exists")
	c.EdgeReturns(key+"/refusal", tl, GP("(2 == litefs.(*RWMutexGuard).State(&litefs.(*DB).CreateGuardSetIfNotExists(p0, p2).write))", false), "nil", 1, "the gate refuses with (false, nil)", "")
}

// captureFamily: the lock protocol of a snapshot-style reader (shared by C10 and C16).
func (c *Ctx) captureFamily(name string, export bool) {
	p := c.P
	walMode := GP("(1 == litefs.(*DB).Mode(p0))", true)
	rbMode := GP("(1 == litefs.(*DB).Mode(p0))", false)
	f := struct {
		name   string
		export bool
	}{name, export}
	short := f.name[strings.LastIndex(f.name, ".")+1:]
	fn := c.F(f.name)
	if !c.need("capture/"+short, "K9", "function resolves", fn, f.name) {
		return
	}
	capture := func(in ssa.Instruction) bool {
		if p.PlainCalls("litefs.(*DB).Pos", "litefs.(*DB).PageN")(in) {
			return true
		}
		switch x := in.(type) {
		case *ssa.UnOp:
			if fa, ok := x.X.(*ssa.FieldAddr); ok && x.Op == token.MUL {
				fp := fieldPathOf(fa)
				return fp == "litefs.DB.pageSize" || fp == "litefs.DB.wal.frameOffsets"
			}
		}
		return false
	}
	c.LockAt("capture/"+short+"/shared", f.name, capture, map[string]string{"shared": "S"}, nil, 4,
		"position, page count, page size and the WAL frame-offset overlay are read while the SHARED database lock is held", "a rollback-journal writer holds SHARED exclusively while it changes the file: without SHARED the capture can see a half-committed image")
	c.LockAt("capture/"+short+"/wal-write-lock", f.name, capture, map[string]string{"write": "X"}, gs(walMode), 4,
		"in WAL mode the capture happens while the WAL WRITE lock is held exclusively", "a WAL commit advances position, page count and overlay in several steps under the WRITE lock: capturing without it can mix two positions")
	c.LockAt("capture/"+short+"/rollback-no-write-lock", f.name, capture, map[string]string{"write": "U"}, gs(rbMode), 4,
		"in rollback mode the WRITE lock is not taken (sanity of the mode split)", "")
	relWrite := func(in ssa.Instruction) bool {
		return p.PlainCalls("litefs.(*RWMutexGuard).Unlock")(in) && strings.HasSuffix(c.argR(in, 0), ".write")
	}
	c.NoPath("capture/"+short+"/nothing-after-write-release", f.name, relWrite, capture, 1,
		"after the WRITE lock was released none of the captured quantities is read again", "the page loop must use the captured size and overlay, not the live ones")
	if f.export {
		c.LockAt("capture/"+short+"/no-checkpoint-window", f.name, relWrite, map[string]string{"ckpt": "S", "recover": "S", "read0": "S", "read1": "S", "read2": "S", "read3": "S", "read4": "S"}, nil, 1,
			"when Export gives up the temporary WRITE lock it already holds CKPT, RECOVER and the five READ locks shared", "between releasing WRITE and holding the READ/CKPT locks a commit followed by a checkpoint rewrites database pages underneath the captured position; Export has no self-check (WriteSnapshotTo compares the checksum and fails instead), so the export would report position N with pages of N+1")
	}
	c.Before("capture/"+short+"/write-released", f.name, p.PlainCalls("io.ReadFull"), relWrite, 1, "the WRITE lock is released before pages are read", "holding it for the whole snapshot blocks all writers")

	// page reads
	pageRead := p.PlainCalls("io.ReadFull", "os.(*File).Seek")
	want := map[string]string{"shared": "S", "read0": "S", "read1": "S", "read2": "S", "read3": "S", "read4": "S", "write": "U"}
	if f.export {
		want["ckpt"], want["recover"] = "S", "S"
	}
	c.LockAt("readlocks/"+short, f.name, pageRead, want, nil, 4,
		"every page read happens with SHARED and all five WAL READ locks held shared"+map[bool]string{true: " (export: plus CKPT and RECOVER)", false: ""}[f.export],
		"the READ locks block WAL restart and checkpoint back-fill while pages are read from the captured frame offsets; SHARED blocks rollback-mode writers")
	if !f.export {
		relCR := func(in ssa.Instruction) bool {
			if !p.PlainCalls("litefs.(*RWMutexGuard).Unlock")(in) {
				return false
			}
			a := c.argR(in, 0)
			return strings.HasSuffix(a, ".ckpt") || strings.HasSuffix(a, ".recover")
		}
		c.LockAt("readlocks/"+short+"/ckpt-recover-released-late", f.name, relCR, map[string]string{"read0": "S", "read1": "S", "read2": "S", "read3": "S", "read4": "S"}, nil, 2,
			"CKPT and RECOVER are released only after all five READ locks are held", "between releasing CKPT and holding the READ locks a checkpoint could overwrite pages the snapshot is about to read")
	}
	// release discipline
	c.OnlyIn("release/"+short+"/no-explicit-full-unlock", func(in ssa.Instruction) bool {
		_, isCall := in.(*ssa.Call)
		return isCall && p.Calls("litefs.(*GuardSet).Unlock", "litefs.(*GuardSet).UnlockDatabase", "litefs.(*GuardSet).UnlockSHM")(in) && p.FuncName(topFunc(in.Parent())) == f.name
	}, []string{"(none)"}, 0, "the guard set is never released explicitly in "+short, "")
	c.Before("release/"+short+"/deferred", f.name, p.PlainCalls("litefs.(*RWMutexGuard).RLock", "litefs.(*RWMutexGuard).Lock"), func(in ssa.Instruction) bool {
		d, ok := in.(*ssa.Defer)
		return ok && p.CalleeName(d.Common()) == "litefs.(*GuardSet).Unlock"
	}, 8, "the full release is deferred before the first lock is taken", "an error exit that leaks a guard blocks every writer forever")
	c.ErrHandled("release/"+short+"/lock-errors", f.name, p.PlainCalls("litefs.(*RWMutexGuard).RLock", "litefs.(*RWMutexGuard).Lock"), pageRead, 8, "a lock that could not be acquired (context ended) aborts the operation before any page is read", "")

	// copy discipline
	var srcs []string
	for _, in := range Instrs(fn, p.PlainCalls("os.(*File).Seek")) {
		srcs = append(srcs, c.argR(in, 1))
	}
	c.ExpectAll("copy/"+short+"/offsets-from-copy", srcs, pat("(make(map[uint32]int64, builtin.len(p0.wal.frameOffsets))[@@]#0 + 24)")+"|"+pat("((@@ - 1) * p0.pageSize)"), 2,
		"WAL pages are read at offsets taken from the copied overlay (+24 byte frame header); database pages at (pgno-1)*pageSize", "")
	c.Guarded("copy/"+short+"/overlay-decides-source", f.name, func(in ssa.Instruction) bool {
		return p.PlainCalls("os.(*File).Seek")(in) && strings.Contains(c.argR(in, 0), "WALPath")
	}, gs(GP("make(map[uint32]int64, builtin.len(p0.wal.frameOffsets))[@@]#1", true)), 1, "a page is read from the WAL exactly when the copied overlay has an offset for it", "")

}

package main

// Rule kind K12: value guards (DivGuard, IndexGuard, TaintAlloc, NilGuard).

import (
	"fmt"
	"go/constant"
	"go/token"
	"go/types"
	"regexp"
	"strconv"
	"strings"

	"golang.org/x/tools/go/ssa"
)

// nonZeroEdge reports whether taking edge e establishes R != 0, where R is
// the rendered origin of an integer value.
func (p *Prog) nonZeroEdge(e Edge, R string) bool {
	if len(e.From.Instrs) == 0 {
		return false
	}
	iff, ok := e.From.Instrs[len(e.From.Instrs)-1].(*ssa.If)
	if !ok {
		return false
	}
	canon, neg := p.Cond(iff.Cond)
	val := (e.Succ == 0) != neg // truth value of canon on this edge
	switch canon {
	case "(0 == " + R + ")":
		return !val
	case "(0 < " + R + ")":
		return val
	}
	q := regexp.QuoteMeta(R)
	if m := regexp.MustCompile(`^\(` + q + ` < (\d+)\)$`).FindStringSubmatch(canon); m != nil {
		k, _ := strconv.Atoi(m[1])
		return !val && k >= 1 // R >= k >= 1
	}
	if m := regexp.MustCompile(`^\((\d+) < ` + q + `\)$`).FindStringSubmatch(canon); m != nil {
		return val // R > k >= 0
	}
	return false
}

func unsignedOrigin(v ssa.Value) bool {
	for {
		switch x := v.(type) {
		case *ssa.Convert:
			if b, ok := x.X.Type().Underlying().(*types.Basic); ok && b.Info()&types.IsUnsigned != 0 {
				return true
			}
			v = x.X
		case *ssa.ChangeType:
			v = x.X
		default:
			if b, ok := v.Type().Underlying().(*types.Basic); ok && b.Info()&types.IsUnsigned != 0 {
				return true
			}
			return false
		}
	}
}

func posConst(v ssa.Value) bool {
	c, ok := v.(*ssa.Const)
	return ok && c.Value != nil && c.Value.Kind() == constant.Int && constant.Sign(c.Value) > 0
}

// structurallyNonZero recognises divisors that cannot be zero by shape.
func structurallyNonZero(v ssa.Value) bool {
	if posConst(v) {
		return true
	}
	if c, ok := v.(*ssa.Const); ok && c.Value != nil && constant.Sign(c.Value) != 0 {
		return true
	}
	switch x := v.(type) {
	case *ssa.Convert:
		return structurallyNonZero(x.X)
	case *ssa.BinOp:
		if x.Op == token.ADD {
			if (posConst(x.X) && unsignedOrigin(x.Y)) || (posConst(x.Y) && unsignedOrigin(x.X)) {
				return true
			}
		}
	}
	return false
}

// divGuardFuncs are the functions whose divisions are decided (C17.div).
var divGuardFuncs = []string{
	"litefs.(*JournalReader).Next", "litefs.(*JournalReader).ReadFrame", "litefs.journalHeaderOffset",
	"litefs.(*JournalReader).DatabaseSize",
	"litefs.WALChecksum", "litefs.JournalChecksum", "litefs.(*WALReader).ReadHeader", "litefs.(*WALReader).ReadFrame", "litefs.(*WALReader).Offset",
	"litefs.readSQLiteDatabaseHeader", "litefs.(*DB).syncWALToLTX", "litefs.(*DB).buildTxFrameOffsets", "litefs.(*DB).readWALPageOffsets",
	"litefs.(*DB).rollbackJournal", "litefs.(*DB).rollbackJournalSegment", "litefs.(*DB).CheckpointNoLock",
	"litefs.pageChksumBlock", "litefs.(*DB).checksum", "litefs.(*DB).recomputeBlockChksum",
}

// divGuards decides, for every integer '/' and '%' in the listed functions,
// that the divisor is non-zero: by shape, by a dominating non-zero branch on
// the same value with no later store to it in the function, or - for
// parameters - at every call site.
func (c *Ctx) divGuards(prefix string) {
	rule := "K12 DivGuard"
	why := "an integer division by zero is a run-time panic: on the recovery path Store.Open panics instead of succeeding (C05), in a reader it is a panic on arbitrary bytes (C17)"
	total := 0
	for _, fname := range divGuardFuncs {
		fn := c.F(fname)
		short := fname[strings.Index(fname, ".")+1:]
		if fn == nil || len(fn.Blocks) == 0 {
			c.undecided(prefix+"/"+short, rule, "divisions in "+fname+" have non-zero divisors", "anchor function does not resolve")
			continue
		}
		for _, b := range fn.Blocks {
			for _, in := range b.Instrs {
				bo, ok := in.(*ssa.BinOp)
				if !ok || (bo.Op != token.QUO && bo.Op != token.REM) {
					continue
				}
				if bt, ok := bo.Type().Underlying().(*types.Basic); !ok || bt.Info()&types.IsInteger == 0 {
					continue
				}
				total++
				R := c.P.Render(bo.Y)
				key := prefix + "/" + short + "/" + R
				desc := "divisor " + R + " of '" + bo.Op.String() + "' in " + short + " is proven non-zero"
				if structurallyNonZero(bo.Y) {
					c.ok(key, rule, desc, 1)
					continue
				}
				if ok, detail := c.divisorGuarded(fn, bo, bo.Y, R, 1); !ok {
					c.fail(key, rule, desc, why, detail, 1)
				} else {
					c.ok(key, rule, desc, 1)
				}
			}
		}
	}
	if total < 5 {
		c.fail(prefix+"/floor", rule, "at least 5 division sites analysed", why, fmt.Sprintf("only %d division sites found in the listed functions", total), total)
	}
}

func stripConv(v ssa.Value) ssa.Value {
	for {
		switch x := v.(type) {
		case *ssa.Convert:
			v = x.X
		case *ssa.ChangeType:
			v = x.X
		default:
			return v
		}
	}
}

// divisorGuarded: every path from entry (and from any store to the divisor's
// field in this function) to the division passes an edge establishing
// divisor != 0. Parameters are checked at call sites (one level).
func (c *Ctx) divisorGuarded(fn *ssa.Function, at ssa.Instruction, y ssa.Value, R string, depth int) (bool, string) {
	tgt := func(in ssa.Instruction) bool { return in == at }
	block := func(e Edge) bool { return c.P.nonZeroEdge(e, R) }
	s := &Search{P: c.P, Fn: fn, Block: block, Tgt: tgt}
	f := s.Run()
	if f == nil {
		// guarded from entry; also from every store to the same field
		if fp, isField := divisorField(y); isField {
			stores := Instrs(fn, c.P.Writes(fp))
			if len(stores) > 0 {
				s2 := &Search{P: c.P, Fn: fn, From: stores, Block: block, Tgt: tgt}
				if f2 := s2.Run(); f2 != nil {
					return false, fmt.Sprintf("division at %s reachable after the store to %s at %s without a non-zero test in between; path %s", c.where(at), fp, c.whereFirst(stores), c.P.TraceString(f2.Trace))
				}
			}
		}
		return true, ""
	}
	// parameter: decide at call sites
	if par, ok := stripConv(y).(*ssa.Parameter); ok && depth > 0 {
		idx := paramIndex(par)
		sites := 0
		for _, caller := range c.P.SrcFuncs() {
			for _, b := range caller.Blocks {
				for _, in := range b.Instrs {
					cc := callCommon(in)
					if cc == nil || cc.StaticCallee() != fn || idx >= len(cc.Args) {
						continue
					}
					sites++
					arg := cc.Args[idx]
					if structurallyNonZero(arg) {
						continue
					}
					if ok, d := c.divisorGuarded(caller, in, arg, c.P.Render(arg), depth-1); !ok {
						return false, fmt.Sprintf("divisor is parameter %d of %s; call site: %s", idx, c.P.FuncName(fn), d)
					}
				}
			}
		}
		if sites > 0 {
			return true, ""
		}
	}
	return false, fmt.Sprintf("division at %s reachable with %s not proven non-zero (no dominating test of this value against zero); path %s", c.where(at), R, c.P.TraceString(f.Trace))
}

func divisorField(y ssa.Value) (string, bool) {
	y = stripConv(y)
	if u, ok := y.(*ssa.UnOp); ok && u.Op == token.MUL {
		if fa, ok := u.X.(*ssa.FieldAddr); ok {
			return fieldPathOf(fa), true
		}
	}
	return "", false
}

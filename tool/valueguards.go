package main

// Rule kind K12: value guards (DivGuard, IndexGuard, TaintAlloc, NilGuard).

import (
	"fmt"
	"go/constant"
	"go/token"
	"go/types"
	"regexp"
	"strconv"
	"strings"

	"golang.org/x/tools/go/ssa"
)

// nonZeroEdge reports whether taking edge e establishes R != 0, where R is
// the rendered origin of an integer value.
func (p *Prog) nonZeroEdge(e Edge, R string) bool {
	if len(e.From.Instrs) == 0 {
		return false
	}
	iff, ok := e.From.Instrs[len(e.From.Instrs)-1].(*ssa.If)
	if !ok {
		return false
	}
	canon, neg := p.Cond(iff.Cond)
	val := (e.Succ == 0) != neg // truth value of canon on this edge
	switch canon {
	case "(0 == " + R + ")":
		return !val
	case "(0 < " + R + ")":
		return val
	}
	q := regexp.QuoteMeta(R)
	if m := regexp.MustCompile(`^\(` + q + ` < (\d+)\)$`).FindStringSubmatch(canon); m != nil {
		k, _ := strconv.Atoi(m[1])
		return !val && k >= 1 // R >= k >= 1
	}
	if m := regexp.MustCompile(`^\((\d+) < ` + q + `\)$`).FindStringSubmatch(canon); m != nil {
		return val // R > k >= 0
	}
	return false
}

func unsignedOrigin(v ssa.Value) bool {
	for {
		switch x := v.(type) {
		case *ssa.Convert:
			if b, ok := x.X.Type().Underlying().(*types.Basic); ok && b.Info()&types.IsUnsigned != 0 {
				return true
			}
			v = x.X
		case *ssa.ChangeType:
			v = x.X
		default:
			if b, ok := v.Type().Underlying().(*types.Basic); ok && b.Info()&types.IsUnsigned != 0 {
				return true
			}
			return false
		}
	}
}

func posConst(v ssa.Value) bool {
	c, ok := v.(*ssa.Const)
	return ok && c.Value != nil && c.Value.Kind() == constant.Int && constant.Sign(c.Value) > 0
}

// structurallyNonZero recognises divisors that cannot be zero by shape.
func structurallyNonZero(v ssa.Value) bool {
	if posConst(v) {
		return true
	}
	if c, ok := v.(*ssa.Const); ok && c.Value != nil && constant.Sign(c.Value) != 0 {
		return true
	}
	switch x := v.(type) {
	case *ssa.Convert:
		return structurallyNonZero(x.X)
	case *ssa.BinOp:
		if x.Op == token.ADD {
			if (posConst(x.X) && unsignedOrigin(x.Y)) || (posConst(x.Y) && unsignedOrigin(x.X)) {
				return true
			}
		}
	}
	return false
}

// divGuardFuncs are the functions whose divisions are decided (C17.div).
var divGuardFuncs = []string{
	"litefs.(*JournalReader).Next", "litefs.(*JournalReader).ReadFrame", "litefs.journalHeaderOffset",
	"litefs.(*JournalReader).DatabaseSize",
	"litefs.WALChecksum", "litefs.JournalChecksum", "litefs.(*WALReader).ReadHeader", "litefs.(*WALReader).ReadFrame", "litefs.(*WALReader).Offset",
	"litefs.readSQLiteDatabaseHeader", "litefs.(*DB).syncWALToLTX", "litefs.(*DB).buildTxFrameOffsets", "litefs.(*DB).readWALPageOffsets",
	"litefs.(*DB).rollbackJournal", "litefs.(*DB).rollbackJournalSegment", "litefs.(*DB).CheckpointNoLock",
	"litefs.pageChksumBlock", "litefs.(*DB).checksum", "litefs.(*DB).recomputeBlockChksum",
}

// divGuards decides, for every integer '/' and '%' in the listed functions,
// that the divisor is non-zero: by shape, by a dominating non-zero branch on
// the same value with no later store to it in the function, or - for
// parameters - at every call site.
func (c *Ctx) divGuards(prefix string) {
	rule := "K12 DivGuard"
	why := "an integer division by zero is a run-time panic: on the recovery path Store.Open panics instead of succeeding (C05), in a reader it is a panic on arbitrary bytes (C17)"
	total := 0
	for _, fname := range divGuardFuncs {
		fn := c.F(fname)
		short := fname[strings.Index(fname, ".")+1:]
		if fn == nil || len(fn.Blocks) == 0 {
			c.undecided(prefix+"/"+short, rule, "divisions in "+fname+" have non-zero divisors", "anchor function does not resolve")
			continue
		}
		for _, b := range fn.Blocks {
			for _, in := range b.Instrs {
				bo, ok := in.(*ssa.BinOp)
				if !ok || (bo.Op != token.QUO && bo.Op != token.REM) {
					continue
				}
				if bt, ok := bo.Type().Underlying().(*types.Basic); !ok || bt.Info()&types.IsInteger == 0 {
					continue
				}
				total++
				R := c.P.Render(bo.Y)
				key := prefix + "/" + short + "/" + R
				desc := "divisor " + R + " of '" + bo.Op.String() + "' in " + short + " is proven non-zero"
				if structurallyNonZero(bo.Y) {
					c.ok(key, rule, desc, 1)
					continue
				}
				if ok, detail := c.divisorGuarded(fn, bo, bo.Y, R, 1); !ok {
					c.fail(key, rule, desc, why, detail, 1)
				} else {
					c.ok(key, rule, desc, 1)
				}
			}
		}
	}
	if total < 5 {
		c.fail(prefix+"/floor", rule, "at least 5 division sites analysed", why, fmt.Sprintf("only %d division sites found in the listed functions", total), total)
	}
}

// lockPgnoConfirmed: call sites of ltx.LockPgno whose argument is non-zero by an
// invariant established elsewhere, each confirmed by reading. Any other site
// must test its argument locally.
var lockPgnoConfirmed = map[string]string{
	"(*DB).CommitWAL":               "reached only when the WAL transaction has frames (empty txFrameOffsets returns first); frames are accepted by writeWALFrame only after writeWALHeader, which runs after the first database page taught the page size",
	"(*DB).WriteSnapshotTo":         "follows Encoder.EncodeHeader of the same page size, which rejects 0 (observed: 'invalid page size: 0')",
	"(*DB).importToLTX":             "follows Encoder.EncodeHeader of the header's page size, which rejects 0 (C16 validate/page-size-validated-before-use)",
	"(*DB).initDatabaseFile":        "follows assert(db.pageSize > 0) on the page size read from the database header; an empty file returns before",
	"(*DB).pageChecksum":            "called for page numbers 1..pageN of a database that has pages, i.e. after a page write or header taught the page size",
	"(*DB).setDatabasePageChecksum": "called for a page that was just written, applied or read with the database's page size (non-zero at those callers)",
	"(*JournalReader).ReadFrame":    "frameN is non-zero only after Next accepted a header, which returns EOF first when the page size is 0",
}

// lockPgnoGuards: ltx.LockPgno(pageSize) divides by its argument, so every
// call in package litefs needs a non-zero argument on every path.
func (c *Ctx) lockPgnoGuards(prefix string) {
	rule := "K12 DivGuard (callee divides by its argument)"
	why := "ltx.LockPgno(0) is an integer division by zero: a panic in a request handler, in recovery or on arbitrary bytes"
	n := 0
	for _, fn := range c.P.SrcFuncs() {
		if !c.inScope(fn, []string{"litefs"}) || len(fn.Blocks) == 0 {
			continue
		}
		for _, b := range fn.Blocks {
			for _, in := range b.Instrs {
				call, ok := in.(*ssa.Call)
				if !ok || c.P.CalleeName(&call.Call) != "ltx.LockPgno" || len(call.Call.Args) != 1 {
					continue
				}
				n++
				y := call.Call.Args[0]
				R := c.P.Render(y)
				short := strings.TrimPrefix(c.P.FuncName(topFunc(fn)), "litefs.")
				key := prefix + "/" + short + "/" + R
				desc := "argument " + R + " of ltx.LockPgno in " + short + " is proven non-zero"
				if structurallyNonZero(y) {
					c.ok(key, rule, desc, 1)
					continue
				}
				if ok, detail := c.divisorGuarded(fn, call, y, R, 1); !ok {
					if r, exc := lockPgnoConfirmed[short]; exc {
						c.ok(key, rule, desc+" - confirmed invariant (not derived): "+r, 1)
					} else {
						c.fail(key, rule, desc, why, detail, 1)
					}
				} else {
					c.ok(key, rule, desc, 1)
				}
			}
		}
	}
	if n < 8 {
		c.fail(prefix+"/floor", rule, "at least 8 ltx.LockPgno call sites analysed", why, fmt.Sprintf("only %d found", n), n)
	}
}

func stripConv(v ssa.Value) ssa.Value {
	for {
		switch x := v.(type) {
		case *ssa.Convert:
			v = x.X
		case *ssa.ChangeType:
			v = x.X
		default:
			return v
		}
	}
}

// divisorGuarded: every path from entry (and from any store to the divisor's
// field in this function) to the division passes an edge establishing
// divisor != 0. Parameters are checked at call sites (one level).
func (c *Ctx) divisorGuarded(fn *ssa.Function, at ssa.Instruction, y ssa.Value, R string, depth int) (bool, string) {
	tgt := func(in ssa.Instruction) bool { return in == at }
	block := func(e Edge) bool { return c.P.nonZeroEdge(e, R) }
	s := &Search{P: c.P, Fn: fn, Block: block, Tgt: tgt}
	f := s.Run()
	if f == nil {
		// guarded from entry; also from every store to the same field
		if fp, isField := divisorField(y); isField {
			stores := Instrs(fn, c.P.Writes(fp))
			if len(stores) > 0 {
				s2 := &Search{P: c.P, Fn: fn, From: stores, Block: block, Tgt: tgt}
				if f2 := s2.Run(); f2 != nil {
					return false, fmt.Sprintf("division at %s reachable after the store to %s at %s without a non-zero test in between; path %s", c.where(at), fp, c.whereFirst(stores), c.P.TraceString(f2.Trace))
				}
			}
		}
		return true, ""
	}
	// parameter: decide at call sites
	if par, ok := stripConv(y).(*ssa.Parameter); ok && depth > 0 {
		idx := paramIndex(par)
		sites := 0
		for _, caller := range c.P.SrcFuncs() {
			for _, b := range caller.Blocks {
				for _, in := range b.Instrs {
					cc := callCommon(in)
					if cc == nil || cc.StaticCallee() != fn || idx >= len(cc.Args) {
						continue
					}
					sites++
					arg := cc.Args[idx]
					if structurallyNonZero(arg) {
						continue
					}
					if ok, d := c.divisorGuarded(caller, in, arg, c.P.Render(arg), depth-1); !ok {
						return false, fmt.Sprintf("divisor is parameter %d of %s; call site: %s", idx, c.P.FuncName(fn), d)
					}
				}
			}
		}
		if sites > 0 {
			return true, ""
		}
	}
	return false, fmt.Sprintf("division at %s reachable with %s not proven non-zero (no dominating test of this value against zero); path %s", c.where(at), R, c.P.TraceString(f.Trace))
}

func divisorField(y ssa.Value) (string, bool) {
	y = stripConv(y)
	if u, ok := y.(*ssa.UnOp); ok && u.Op == token.MUL {
		if fa, ok := u.X.(*ssa.FieldAddr); ok {
			return fieldPathOf(fa), true
		}
	}
	return "", false
}

// ---- K12 const-index guard ----

// lenLB returns a proven lower bound of len(v) for a slice (or pointer-to-array)
// value, or -1 when nothing is known. Field-held buffers take the minimum over
// all stores to the field in the repository (nil stores are ignored: the
// allocation-before-use order is a separate obligation).
func (c *Ctx) lenLB(v ssa.Value, depth int) int64 {
	if depth > 6 {
		return -1
	}
	switch x := v.(type) {
	case *ssa.Slice:
		var xl int64 = -1
		if pt, ok := x.X.Type().Underlying().(*types.Pointer); ok {
			if at, ok := pt.Elem().Underlying().(*types.Array); ok {
				xl = at.Len()
			}
		} else {
			xl = c.lenLB(x.X, depth+1)
		}
		low := int64(0)
		if x.Low != nil {
			k, ok := constInt(x.Low)
			if !ok {
				// x[len(x)-k:] holds exactly k bytes (when len(x) >= k, decided at the slice itself)
				if k2, ok2 := c.lenMinus(x.Low, x.X); ok2 && x.High == nil && xl >= k2 {
					return k2
				}
				return -1
			}
			low = k
		}
		if x.High != nil {
			if h, ok := constInt(x.High); ok {
				if xl >= 0 && h > xl {
					return -1 // out of range: reported at the slice itself
				}
				return h - low
			}
			if k, ok := c.lenMinus(x.High, x.X); ok && xl >= k {
				return xl - k - low
			}
			return -1
		}
		if xl < 0 {
			return -1
		}
		return xl - low
	case *ssa.MakeSlice:
		return sumConstLB(x.Len)
	case *ssa.UnOp:
		if x.Op != token.MUL {
			return -1
		}
		fa, ok := x.X.(*ssa.FieldAddr)
		if !ok {
			return -1
		}
		fp := fieldPathOf(fa)
		best := int64(-1)
		n := 0
		for _, fn := range c.P.SrcFuncs() {
			for _, b := range fn.Blocks {
				for _, in := range b.Instrs {
					st, ok := in.(*ssa.Store)
					if !ok {
						continue
					}
					sfa, ok := st.Addr.(*ssa.FieldAddr)
					if !ok || fieldPathOf(sfa) != fp {
						continue
					}
					if isNilConst(st.Val) {
						continue
					}
					n++
					l := c.lenLB(st.Val, depth+1)
					if l < 0 {
						return -1
					}
					if best < 0 || l < best {
						best = l
					}
				}
			}
		}
		if n == 0 {
			return -1
		}
		return best
	}
	return -1
}

func constInt(v ssa.Value) (int64, bool) {
	k, ok := v.(*ssa.Const)
	if !ok || k.Value == nil || k.Value.Kind() != constant.Int {
		return 0, false
	}
	n, exact := constant.Int64Val(k.Value)
	return n, exact
}

// sumConstLB: lower bound of an unsigned sum expression = the sum of its constant terms.
func sumConstLB(v ssa.Value) int64 {
	v = stripConv(v)
	if k, ok := constInt(v); ok {
		return k
	}
	if b, ok := v.(*ssa.BinOp); ok && b.Op == token.ADD {
		l, r := sumConstLB(b.X), sumConstLB(b.Y)
		if l < 0 || r < 0 {
			return -1
		}
		return l + r
	}
	if unsignedOrigin(v) {
		return 0
	}
	return -1
}

// lenMinus recognises len(base) - k.
func (c *Ctx) lenMinus(v ssa.Value, base ssa.Value) (int64, bool) {
	b, ok := v.(*ssa.BinOp)
	if !ok || b.Op != token.SUB {
		return 0, false
	}
	k, ok := constInt(b.Y)
	if !ok {
		return 0, false
	}
	call, ok := b.X.(*ssa.Call)
	if !ok {
		return 0, false
	}
	if bi, ok := call.Call.Value.(*ssa.Builtin); !ok || bi.Name() != "len" || len(call.Call.Args) != 1 {
		return 0, false
	}
	if c.P.Render(call.Call.Args[0]) != c.P.Render(base) {
		return 0, false
	}
	return k, true
}

// constIndexGuards (K12): in the listed decoder functions every slice
// expression, constant index and fixed-width big/little-endian access on a
// buffer is within the buffer's proven minimum length.
func (c *Ctx) constIndexGuards(prefix string, funcs []string, min int) {
	p := c.P
	rule := "K12 IndexGuard (constant offsets vs proven buffer length)"
	why := "arbitrary bytes never cause a panic: an offset beyond the buffer is an index-out-of-range panic on the first file that reaches it"
	width := map[string]int64{"Uint16": 2, "Uint32": 4, "Uint64": 8, "PutUint16": 2, "PutUint32": 4, "PutUint64": 8}
	total := 0
	for _, name := range funcs {
		fn := c.F(name)
		short := name[strings.LastIndex(name, "litefs.")+7:]
		key := prefix + "/" + short
		desc := "every constant offset into a decoder buffer of " + short + " lies within the buffer"
		if !c.need(key, rule, desc, fn, name) {
			continue
		}
		n, bad := 0, ""
		for _, b := range fn.Blocks {
			for _, in := range b.Instrs {
				switch x := in.(type) {
				case *ssa.Slice:
					var xl int64 = -1
					if pt, ok := x.X.Type().Underlying().(*types.Pointer); ok {
						if at, ok := pt.Elem().Underlying().(*types.Array); ok {
							xl = at.Len()
						}
					} else if _, isStr := x.X.Type().Underlying().(*types.Basic); isStr {
						continue
					} else {
						xl = c.lenLB(x.X, 0)
					}
					n++
					need := int64(0)
					if x.Low != nil {
						if k, ok := constInt(x.Low); ok {
							need = k
						} else if k, ok := c.lenMinus(x.Low, x.X); ok {
							need = k
						} else {
							bad = fmt.Sprintf("slice at %s has a low bound that is neither constant nor len-k: %s", c.where(in), p.Render(x.Low))
							continue
						}
					}
					if x.High != nil {
						if h, ok := constInt(x.High); ok {
							if h > need {
								need = h
							}
						} else if k, ok := c.lenMinus(x.High, x.X); ok {
							// low <= len-k  <=>  len >= low+k
							need += k
						} else if ex, ok := x.High.(*ssa.Extract); ok && ex.Index == 0 && isReadFullInto(p, ex.Tuple, x.X) {
							// n returned by io.ReadFull(r, buf) is <= len(buf)
						} else {
							bad = fmt.Sprintf("slice at %s has a high bound that is neither constant nor len-k: %s", c.where(in), p.Render(x.High))
							continue
						}
					}
					if xl < need {
						bad = fmt.Sprintf("slice %s at %s needs %d bytes, the buffer is only proven to hold %d", p.Render(x), c.where(in), need, xl)
					}
				case *ssa.IndexAddr:
					k, ok := constInt(x.Index)
					if !ok {
						continue // dynamic index: loop-bounded, not a constant offset
					}
					var xl int64
					if pt, ok := x.X.Type().Underlying().(*types.Pointer); ok {
						at, _ := pt.Elem().Underlying().(*types.Array)
						if at == nil {
							continue
						}
						xl = at.Len()
					} else {
						xl = c.lenLB(x.X, 0)
					}
					n++
					if k >= xl {
						bad = fmt.Sprintf("index %d at %s, the buffer is only proven to hold %d", k, c.where(in), xl)
					}
				case *ssa.Call:
					cn := p.CalleeName(&x.Call)
					if !strings.HasPrefix(cn, "encoding/binary.") {
						continue
					}
					w, ok := width[cn[strings.LastIndex(cn, ".")+1:]]
					if !ok {
						continue
					}
					vals := callVals(x)
					if len(vals) < 2 {
						continue
					}
					n++
					if l := c.lenLB(vals[1], 0); l < w {
						bad = fmt.Sprintf("%s at %s reads/writes %d bytes of %s, which is only proven to hold %d", cn, c.where(in), w, p.Render(vals[1]), l)
					}
				}
			}
		}
		total += n
		if bad != "" {
			c.fail(key, rule, desc, why, bad, n)
		} else if n == 0 {
			c.fail(key, rule, desc, why, "no buffer access found in "+name, 0)
		} else {
			c.ok(key, rule, desc, n)
		}
	}
	if total < min {
		c.fail(prefix+"/sites", rule, "number of decided buffer accesses", why, fmt.Sprintf("only %d accesses decided, expected >= %d", total, min), total)
	}
}

// isReadFullInto: t is a call io.ReadFull(_, buf) (or internal.ReadFullAt(_, buf, _)) with buf == base.
func isReadFullInto(p *Prog, t ssa.Value, base ssa.Value) bool {
	call, ok := t.(*ssa.Call)
	if !ok {
		return false
	}
	n := p.CalleeName(&call.Call)
	if n != "io.ReadFull" && n != "internal.ReadFullAt" {
		return false
	}
	return len(call.Call.Args) >= 2 && p.Render(call.Call.Args[1]) == p.Render(base)
}

// narrowProducts lists every conversion to a 64-bit integer whose operand is a
// product (or shift) computed in 32 bits or less from non-constant operands:
// int64(a * b) overflows in the narrow type before it is widened.
func (c *Ctx) narrowProducts(pkgs []string) []ssa.Instruction {
	var out []ssa.Instruction
	size := func(t types.Type) int {
		b, ok := t.Underlying().(*types.Basic)
		if !ok || b.Info()&types.IsInteger == 0 {
			return 0
		}
		switch b.Kind() {
		case types.Int8, types.Uint8:
			return 8
		case types.Int16, types.Uint16:
			return 16
		case types.Int32, types.Uint32:
			return 32
		}
		return 64
	}
	for _, fn := range c.P.SrcFuncs() {
		if !c.inScope(fn, pkgs) {
			continue
		}
		for _, b := range fn.Blocks {
			for _, in := range b.Instrs {
				cv, ok := in.(*ssa.Convert)
				if !ok || size(cv.Type()) != 64 {
					continue
				}
				bo, ok := cv.X.(*ssa.BinOp)
				if !ok || (bo.Op != token.MUL && bo.Op != token.SHL) {
					continue
				}
				s := size(bo.Type())
				if s == 0 || s > 32 {
					continue
				}
				_, cx := bo.X.(*ssa.Const)
				_, cy := bo.Y.(*ssa.Const)
				if cx && cy {
					continue
				}
				out = append(out, in)
			}
		}
	}
	return out
}

// WideOffsets (K12): no file offset or size is computed as a narrow product.
func (c *Ctx) WideOffsets(key string, pkgs []string) {
	rule := "K12 arithmetic width (products widened before, not after, the multiplication)"
	desc := "in packages " + strings.Join(pkgs, ", ") + " no 32-bit product of page number and page size is widened to 64 bits after the multiplication"
	why := "int64(pageN * pageSize) wraps at 4 GiB: a database of that size is truncated, read or written at the wrong offset"
	bad := c.narrowProducts(pkgs)
	if len(bad) > 0 {
		var w []string
		for _, in := range bad {
			w = append(w, c.where(in)+": "+c.P.Render(in.(ssa.Value)))
		}
		c.fail(key, rule, desc, why, "narrow product widened afterwards at "+strings.Join(w, "; "), len(bad))
		return
	}
	// positive example that must match on every run: count the 64-bit products of widened operands
	n := 0
	for _, fn := range c.P.SrcFuncs() {
		if !c.inScope(fn, pkgs) {
			continue
		}
		for _, b := range fn.Blocks {
			for _, in := range b.Instrs {
				if bo, ok := in.(*ssa.BinOp); ok && bo.Op == token.MUL {
					if _, isConv := bo.X.(*ssa.Convert); isConv {
						n++
					}
				}
			}
		}
	}
	if n < 5 {
		c.fail(key, rule, desc, why, fmt.Sprintf("only %d wide products recognised (matcher no longer recognises the construct)", n), n)
		return
	}
	c.ok(key, rule, desc, n)
}

package main

import (
	"fmt"
	"sort"
	"strings"

	"golang.org/x/tools/go/ssa"
)

func init() {
	register(&Property{
		ID:          "C04",
		Level:       "other",
		Run:         c04,
		Explanation: "The from-scratch checksum is a function of file bytes and cannot be computed statically; decided instead is that the incremental cache is updated wherever the bytes change and only consistently: every file write/truncate site in package litefs is enumerated against the confirmed table; each database page write is followed by the page-checksum update with the same page number and data and each database truncate by the reset beyond the new size; the cache fields are written only by their three owners and the page store is unconditionally followed by the block-cache clear; the lock page always has checksum 0; all accesses happen under chksums.mu (directly or in the six 'must hold' helpers, whose call sites are inside locked regions); the empty checksum; the aggregation guards (cached block only when not overridden and non-zero, page loop bounded by pageN, missing page = error, overridden blocks marked for every WAL-resident or truncated page within range, index bounds); the block arithmetic; ownership and lookup order of the WAL overlay; and the two verification points (post-apply comparison, snapshot self-check).",
		NotDecided:  "numerical equality with CRC64 over the actual bytes; that initDatabaseFile read what is on disk.",
		Assumptions: []string{"go/ssa faithfully represents the source", "ltx.ChecksumPage is CRC64-ISO(pgno, bytes) with the flag bit"},
	})
}

func c04(c *Ctx) {
	c.pageLoopsComplete("complete", "CommitJournal", "CommitWAL", "ApplyLTXNoLock", "rollbackJournalSegment")
	p := c.P
	call := func(n string) IM { return p.PlainCalls("litefs.(*DB)." + n) }

	// ---- db-writers: every file content mutation site in package litefs ----
	fw := p.Calls("os.(*File).WriteAt", "os.(*File).Write", "os.(*File).Truncate", "os.(*File).WriteString")
	table := map[string]string{
		"litefs.(*DB).writeDatabasePage":   "database page",
		"litefs.(*DB).truncateDatabase":    "database size",
		"litefs.(*DB).WriteJournalAt":      "journal pass-through",
		"litefs.(*DB).invalidateJournal":   "journal header (PERSIST)",
		"litefs.(*DB).writeWALHeader":      "wal",
		"litefs.(*DB).writeWALFrameHeader": "wal",
		"litefs.(*DB).writeWALFrameData":   "wal",
		"litefs.(*DB).syncWALToLTX":        "wal truncate at open",
		"litefs.(*DB).WriteSHMAt":          "shm",
		"litefs.(*DB).updateSHM":           "shm",
	}
	var allowed []string
	for k := range table {
		allowed = append(allowed, pat(k))
	}
	sort.Strings(allowed)
	c.OnlyInScope("db-writers/table", []string{"litefs"}, fw, allowed, 11,
		"every os.File WriteAt/Write/Truncate in package litefs is one of the confirmed sites (database: writeDatabasePage, truncateDatabase only)", "a new raw write to the database file changes bytes without updating the checksum cache")

	// ---- page-update ----
	wp := "litefs.(*DB).writeDatabasePage"
	setck := call("setDatabasePageChecksum")
	c.After("page-update/write", wp, p.PlainCalls("os.(*File).WriteAt"), setck, nil, 1, "after the page was written every success exit has updated its checksum", "the cache would describe the previous bytes")
	for _, in := range Instrs(c.F(wp), setck) {
		c.Expect("page-update/write-args", c.argR(in, 1)+" | "+c.argR(in, 2), pat("p2 | ltx.ChecksumPage(p2, p3)"), "the checksum stored is ChecksumPage(pgno, data) of the page number and bytes just written", "")
	}
	c.ExpectAll("page-update/write-what", []string{joinS(c.CallArgs(wp, p.PlainCalls("os.(*File).WriteAt"), 1)) + "@" + joinS(c.CallArgs(wp, p.PlainCalls("os.(*File).WriteAt"), 2))}, pat("p3@((p2 - 1) * p0.pageSize)"), 1, "the bytes written are the same data at (pgno-1)*pageSize", "")
	c.ErrHandled("page-update/write-error", wp, p.PlainCalls("os.(*File).WriteAt"), setck, 1, "a failed write does not update the checksum", "")
	td := "litefs.(*DB).truncateDatabase"
	c.After("page-update/truncate", td, p.PlainCalls("os.(*File).Truncate"), call("resetDatabasePageChecksumsAfter"), nil, 1, "after the file was truncated every success exit has reset the checksums beyond the new size", "a shrink would keep the truncated pages in the sum")
	c.ExpectAll("page-update/truncate-args", []string{joinS(c.CallArgs(td, p.PlainCalls("os.(*File).Truncate"), 1)) + " | " + joinS(c.CallArgs(td, call("resetDatabasePageChecksumsAfter"), 1))}, pat("(p2 * p0.pageSize) | p2"), 1, "file size and reset boundary are the same page count", "")
	ra := "litefs.(*DB).resetDatabasePageChecksumsAfter"
	c.ExpectAll("page-update/reset-range", c.CallArgs(ra, setck, 1), pat("(phi((↺ + 1)|p1) + 1)"), 1, "the reset covers pages commit+1 .. len(pages)", "")
	c.ExpectAll("page-update/reset-zero", c.CallArgs(ra, setck, 2), "0", 1, "reset means checksum 0", "")
	c.Guarded("page-update/reset-bound", ra, setck, gs(GP("(phi(@@) < builtin.len(p0.chksums.pages))", true)), 1, "the reset loop runs to the end of the page slice", "")

	// ---- cache-owners ----
	pagesW := p.Writes("litefs.DB.chksums.pages", "litefs.DB.chksums.pages[]")
	blocksW := p.Writes("litefs.DB.chksums.blocks", "litefs.DB.chksums.blocks[]")
	c.OnlyIn("cache-owners/pages", pagesW, []string{pat("litefs.(*DB).setDatabasePageChecksum"), pat("litefs.(*DB).initDatabaseFile")}, 3, "chksums.pages is written only by setDatabasePageChecksum and initDatabaseFile", "")
	c.OnlyIn("cache-owners/blocks", blocksW, []string{pat("litefs.(*DB).setDatabasePageChecksum"), pat("litefs.(*DB).recomputeBlockChksum"), pat("litefs.(*DB).initDatabaseFile")}, 4, "chksums.blocks is written only by setDatabasePageChecksum (clear), recomputeBlockChksum and initDatabaseFile", "")
	sc := "litefs.(*DB).setDatabasePageChecksum"
	elem := p.Writes("litefs.DB.chksums.pages[]")
	clear := p.Writes("litefs.DB.chksums.blocks[]")
	c.BeforeG("cache-owners/block-clear", sc, p.SuccessReturn, clear, gs(GP("(litefs.pageChksumBlock(p1) < builtin.len(p0.chksums.blocks))", false)), 1,
		"every exit of setDatabasePageChecksum has cleared the cached aggregate of the page's block (unless that block has no cache slot yet)", "a stale block aggregate is used by checksum() for every block without WAL pages: the reported checksum silently omits the change")
	c.Before("cache-owners/page-stored", sc, p.SuccessReturn, elem, 1, "every exit of setDatabasePageChecksum has stored the page checksum", "")
	c.OnlyGuards("cache-owners/block-clear-unconditional", sc, clear, []*Guard{
		GP("(litefs.pageChksumBlock(p1) < builtin.len(p0.chksums.blocks))", true), GP("(ltx.LockPgno(p0.pageSize) == p1)", true), GP("(ltx.LockPgno(p0.pageSize) == p1)", false),
		GP("(builtin.len(p0.chksums.pages) < p1)", true), GP("(builtin.len(p0.chksums.pages) < p1)", false),
	}, 2, "the block clear depends on nothing but the block having a cache slot", "")
	for _, in := range Instrs(c.F(sc), clear) {
		st := in.(*ssa.Store)
		c.Expect("cache-owners/block-clear-index", p.Render(st.Addr.(*ssa.IndexAddr).Index)+" = "+p.Render(st.Val), pat("litefs.pageChksumBlock(p1) = 0"), "the slot cleared is pageChksumBlock(pgno)", "")
	}
	for _, in := range Instrs(c.F(sc), elem) {
		st := in.(*ssa.Store)
		c.Expect("cache-owners/page-index", p.Render(st.Addr.(*ssa.IndexAddr).Index)+" = "+p.Render(st.Val), pat("(p1 - 1) = phi(0|p2)"), "the checksum is stored at index pgno-1 (0 for the lock page)", "")
	}

	// ---- lock page ----
	c.GuardedPaths("lock-page/set-forces-zero", sc, elem, [][]*Guard{{GP("(ltx.LockPgno(p0.pageSize) == p1)", true), GP("(ltx.LockPgno(p0.pageSize) == p1)", false)}}, 1, "setDatabasePageChecksum tests for the lock page before storing", "")
	pc := "litefs.(*DB).pageChecksum"
	c.EdgeReturns("lock-page/pageChecksum", pc, GP("(ltx.LockPgno(p0.pageSize) == p1)", true), "true", 1, "pageChecksum answers (0, true) for the lock page before anything else", "the lock page is never read and never has a checksum")
	c.Before("lock-page/pageChecksum-first", pc, Any(p.PlainCalls("litefs.(*DB).databasePageChecksum"), p.PlainCalls("builtin.len")), func(in ssa.Instruction) bool { return p.PlainCalls("ltx.LockPgno")(in) }, 1, "the lock-page test comes first", "")
	idf := "litefs.(*DB).initDatabaseFile"
	c.BeforeG("lock-page/init-zeroes", idf, p.SuccessReturn, func(in ssa.Instruction) bool {
		st, ok := in.(*ssa.Store)
		if !ok || !elem(in) {
			return false
		}
		return p.Render(st.Val) == "0" && strings.Contains(p.Render(st.Addr.(*ssa.IndexAddr).Index), "LockPgno")
	}, gs(GP("(builtin.len(p0.chksums.pages) < ltx.LockPgno(p0.pageSize))", true), GP("os.IsNotExist(@@)", true), GP("(io.EOF == litefs.readSQLiteDatabaseHeader(@@)#2)", true)), 1, "initDatabaseFile zeroes the lock page's checksum when the database contains it", "")

	// ---- mutex ----
	helpers := []string{"litefs.(*DB).blockChksum", "litefs.(*DB).recomputeBlockChksum", "litefs.(*DB).pageChecksum", "litefs.(*DB).databasePageChecksum", "litefs.(*DB).setDatabasePageChecksum", "litefs.(*DB).resetDatabasePageChecksumsAfter"}
	c.HeldMutex("mutex/fields", []string{"litefs.DB.chksums.pages", "litefs.DB.chksums.blocks"}, "p0.chksums.mu", append([]string{"litefs.NewDB"}, helpers...))
	c.helperCallsLocked("mutex/helpers", helpers, "p0.chksums.mu")

	// ---- empty ----
	ck := "litefs.(*DB).checksum"
	c.EdgeReturns("empty/checksum-zero-pages", ck, GP("(0 == p1)", true), "nil", 1, "checksum(0) succeeds", "")
	for _, in := range Instrs(c.F(ck), IsReturn) {
		r := in.(*ssa.Return)
		if r.Block().Index == 1 {
			c.Expect("empty/value", p.Render(returnedValue(r, 0)), "9223372036854775808", "checksum(0, ..) is exactly ltx.ChecksumFlag", "a dropped or empty database reports exactly the empty checksum")
		}
	}
	c.ExpectAll("empty/drop", c.CallArgs("litefs.(*DB).Drop", p.PlainCalls("ltx.(*Encoder).SetPostApplyChecksum"), 1), "9223372036854775808", 1, "Drop writes the empty checksum", "")

	// ---- aggregate ----
	ign := "make([]bool, (litefs.pageChksumBlock(p1) + 1))"
	useBlock := call("blockChksum")
	c.Guarded("aggregate/cached-only-if-not-overridden", ck, useBlock, gs(GP(ign+"[@@]", false)), 1, "a cached block aggregate is consulted only for blocks not marked as overridden", "blocks with WAL-resident or truncated pages must be summed page by page")
	pageLoop := call("pageChecksum")
	c.Guarded("aggregate/page-loop-bounded", ck, pageLoop, gs(GP("(p1 < (((@@ * 256) + @@) + 1))", false)), 1, "the per-page loop stops at pageN", "pages beyond the size must not contribute")
	c.GuardedPaths("aggregate/zero-block-falls-through", ck, pageLoop, [][]*Guard{{GP(ign+"[@@]", true), GP("(0 == litefs.(*DB).blockChksum(p0, @@))", true)}}, 1, "the per-page loop runs for overridden blocks and for blocks whose cached aggregate is 0 (unknown)", "")
	c.EdgeReturns("aggregate/missing-page-is-error", ck, GP("litefs.(*DB).pageChecksum(p0, @@, p1, p2)#1", false), pat("fmt.Errorf(@@)"), 1, "a page without checksum is an error, not a silent zero", "")
	c.ExpectAll("aggregate/page-args", c.CallArgs(ck, pageLoop, 1), pat("(((phi((↺ + 1)|0) * 256) + phi((↺ + 1)|0)) + 1)"), 1, "page number enumerated is block*256+i+1", "")
	c.ExpectAll("aggregate/overlay-args", []string{joinS(c.CallArgs(ck, pageLoop, 2)) + " | " + joinS(c.CallArgs(ck, pageLoop, 3))}, "p1 \\| p2", 1, "pageChecksum is given the new size and the in-progress WAL overlay", "")
	mark := p.IndexStoreOn(pat(ign))
	c.overrideMarking("aggregate/override-marking")
	c.truncFamily("trunc")
	c.checksumIndexGuard("aggregate/index")
	var keys []string
	for _, in := range Instrs(c.F(ck), mark) {
		st := in.(*ssa.Store)
		keys = append(keys, p.Render(st.Addr.(*ssa.IndexAddr).Index))
	}
	sort.Strings(keys)
	c.Expect("aggregate/override-sources", strings.Join(keys, " ; "), pat("litefs.pageChksumBlock(rangekey(p0.wal.chksums)) ; litefs.pageChksumBlock(rangekey(p2))"), "blocks are marked from both the committed WAL overlay and the in-progress overlay", "")

	// ---- block arithmetic ----
	c.Expect("block-arith/map", joinS(c.returnsOf("litefs.pageChksumBlock")), pat("((p0 - 1) / 256)"), "pageChksumBlock(p) = (p-1)/256", "")
	rb := "litefs.(*DB).recomputeBlockChksum"
	c.Guarded("block-arith/recompute-whole-block", rb, p.Writes("litefs.DB.chksums.blocks[]"), gs(G(`^\(phi\(\(↺ \+ 1\)\|0\) < 256\)$`, false)), 1,
		"the block aggregate is stored only after the loop has run over all 256 page slots of the block (no early exit)", "a zero page checksum is not the end of the database: the lock page has one, and it is the first page of its block at every page size - every page behind it would drop out of the checksum of a database larger than 1 GiB")
	c.Expect("block-arith/recompute-sum", joinS(c.fieldStoreVals(rb, "litefs.DB.chksums.blocks[]")), pat("phi((9223372036854775808 | (↺ ^ litefs.(*DB).databasePageChecksum(p0, (((p1 * 256) + phi((↺ + 1)|0)) + 1))))|0)"),
		"the aggregate stored is the flagged XOR over databasePageChecksum of every slot", "")
	c.ExpectAll("block-arith/recompute-enum", c.CallArgs(rb, p.PlainCalls("litefs.(*DB).databasePageChecksum"), 1), pat("(((p1 * 256) + phi((↺ + 1)|0)) + 1)"), 1, "recomputeBlockChksum enumerates block*256+i+1", "an off-by-one drops or double-counts a page at a 256-page boundary")
	c.Guarded("block-arith/recompute-bound", rb, p.PlainCalls("litefs.(*DB).databasePageChecksum"), gs(GP("(phi((↺ + 1)|0) < 256)", true)), 1, "for i < 256", "")
	c.Expect("block-arith/page-lookup", joinS(c.returnsOf("litefs.(*DB).databasePageChecksum")), pat("p0.chksums.pages[(p1 - 1)];0"), "databasePageChecksum(p) = pages[p-1] or 0 beyond the slice", "")
	c.ExpectAll("block-arith/init-sizes", []string{joinS(c.fieldStoreVals(idf, "litefs.DB.chksums.pages")) + " | " + joinS(c.fieldStoreVals(idf, "litefs.DB.chksums.blocks"))}, pat("make([]ltx.Checksum, litefs.(*DB).PageN(p0)) | ")+"(nil;)?"+pat("make([]ltx.Checksum, litefs.pageChksumBlock(litefs.(*DB).PageN(p0)))"), 1, "initDatabaseFile sizes the page cache by PageN() (the block cache starts empty and is sized the same way when the header declares pages)", "")
	c.Guarded("block-arith/init-no-assert-without-pages", idf, p.PlainCalls("litefs.pageChksumBlock"), gs(GP("(0 < litefs.(*DB).PageN(p0))", true), GP("(0 == litefs.(*DB).PageN(p0))", false)), 1,
		"initDatabaseFile computes the block of the last page only when the header declares pages (pageChksumBlock asserts a non-zero page number)", "F57: a header with in-header page count 0, restored on page 1 by a hot journal, made Store.Open panic")

	// ---- wal overlay ----
	c.OnlyIn("wal-overlay/append", p.Writes("litefs.DB.wal.chksums[]"), []string{pat("litefs.(*DB).CommitWAL")}, 1, "wal.chksums is appended to only by CommitWAL", "")
	c.OnlyIn("wal-overlay/replace", p.Writes("litefs.DB.wal.chksums"), []string{pat("litefs.NewDB"), pat("litefs.(*DB).CheckpointNoLock"), pat("litefs.(*DB).TruncateWAL"), pat("litefs.(*DB).RemoveWAL"), pat("litefs.(*DB).writeWALHeader"), pat("litefs.(*DB).Drop"), pat("litefs.(*DB).CommitJournal")}, 7,
		"wal.chksums is replaced by an empty map only where the WAL is emptied, restarted or irrelevant", "checksums of frames that no longer exist would override the database's")
	var order []string
	for _, in := range Instrs(c.F(pc), p.SuccessReturn) {
		order = append(order, p.Render(returnedValue(in.(*ssa.Return), 0)))
	}
	c.Expect("wal-overlay/lookup-order", strings.Join(order, " ; "), pat("0 ; p3[p1]#0 ; p0.wal.chksums[p1][(builtin.len(p0.wal.chksums[p1]) - 1)] ; litefs.(*DB).databasePageChecksum(p0, p1)"), "pageChecksum consults the in-progress overlay, then the newest committed WAL checksum, then the database file's", "the last frame per page wins")
	c.Guarded("wal-overlay/beyond-size", pc, p.PlainCalls("litefs.(*DB).databasePageChecksum"), gs(GP("(p2 < p1)", false)), 1, "pages beyond pageN have no checksum", "")

	// ---- verify (shared) ----
	ap := "litefs.(*DB).ApplyLTXNoLock"
	dec := `ltx.NewDecoder(litefs.OS.Open(p0.os, "APPLYLTX:LTX", p1)#0)`
	chk := "litefs.(*DB).checksum(p0, ltx.(*Decoder).Header(" + dec + ").Commit, nil)#0"
	c.Guarded("verify/post-apply", ap, call("setPos"), gs(GP("("+chk+" == ltx.(*Decoder).Trailer("+dec+").PostApplyChecksum)", true)), 1, "a replica sets its position only when the recomputed checksum equals the trailer's", "")
	c.snapshotSelfCheck("verify/snapshot-selfcheck")
}

// fieldStoreVals renders the values stored into a field by plain stores in fn.
func (c *Ctx) fieldStoreVals(fname, field string) []string {
	var out []string
	for _, in := range Instrs(c.F(fname), c.P.Writes(field)) {
		if st, ok := in.(*ssa.Store); ok {
			out = append(out, c.P.Render(st.Val))
		}
	}
	return out
}

// helperCallsLocked: every call of a "must hold mu" helper from a function
// that is not itself such a helper happens inside a Lock()..Unlock() region.
func (c *Ctx) helperCallsLocked(key string, helpers []string, mu string) {
	p := c.P
	set := map[string]bool{}
	for _, h := range helpers {
		set[h] = true
	}
	isHelperCall := func(in ssa.Instruction) bool {
		cf := p.calleeFunc(in)
		return cf != nil && set[p.FuncName(cf)]
	}
	isLock := func(name string, deferredToo bool) IM {
		return func(in ssa.Instruction) bool {
			cc := callCommon(in)
			if cc == nil || p.CalleeName(cc) != name || len(cc.Args) == 0 {
				return false
			}
			if _, d := in.(*ssa.Defer); d && !deferredToo {
				return false
			}
			return strings.TrimPrefix(p.Render(cc.Args[0]), "&") == mu
		}
	}
	lock, unlock := isLock("sync.(*Mutex).Lock", false), isLock("sync.(*Mutex).Unlock", false)
	rule := "K13 HeldMutex (call sites of must-hold helpers)"
	desc := "every call of a chksums helper from outside the helpers is made between " + mu + ".Lock() and Unlock()"
	why := "the helpers document 'must hold db.chksums.mu'; FUSE writes, commits, applies and snapshots run concurrently"
	n := 0
	for _, fn := range p.SrcFuncs() {
		if !c.inScope(fn, []string{"litefs"}) || set[p.FuncName(fn)] {
			continue
		}
		calls := Instrs(fn, isHelperCall)
		if len(calls) == 0 {
			continue
		}
		n += len(calls)
		s := &Search{P: p, Fn: fn, Avoid: lock, Tgt: isHelperCall}
		if f := s.Run(); f != nil {
			c.fail(key, rule, desc, why, "call at "+c.where(f.Instr)+" reachable without "+mu+".Lock()", n)
			return
		}
		if ul := Instrs(fn, unlock); len(ul) > 0 {
			s2 := &Search{P: p, Fn: fn, From: ul, Avoid: lock, Tgt: isHelperCall}
			if f := s2.Run(); f != nil {
				c.fail(key, rule, desc, why, "call at "+c.where(f.Instr)+" reachable after "+mu+".Unlock()", n)
				return
			}
		}
	}
	if n < 8 {
		c.fail(key, rule, desc, why, "fewer than 8 helper call sites found", n)
		return
	}
	c.ok(key, rule, desc, n)
}

// snapshotSelfCheck (C04, C10): WriteSnapshotTo closes the encoder only when
// the checksum accumulated over the pages written equals the captured position's.
func (c *Ctx) snapshotSelfCheck(key string) {
	p := c.P
	ws := "litefs.(*DB).WriteSnapshotTo"
	c.Guarded(key, ws, p.PlainCalls("ltx.(*Encoder).Close"), gs(GP("((9223372036854775808 | phi(@@)) == litefs.(*DB).Pos(p0).PostApplyChecksum)", true)), 1,
		"a snapshot is finished only if the checksum accumulated over the pages it wrote equals the captured position's checksum", "a snapshot that mixes two positions (or the cache drifting from the file) is refused instead of sent")
}

// exportSelfCheck: Export reports success only if the checksum accumulated over
// the pages it wrote (lock page excluded) equals the captured position's
// checksum; the zero position (nothing ever written) is exempt.
func (c *Ctx) exportSelfCheck(key string) {
	p := c.P
	ex := "litefs.(*DB).Export"
	acc := "(9223372036854775808 | phi(@@ltx.ChecksumPage(@@)@@))"
	// the lock page number is ltx.LockPgno(pageSize), or 0 (no page) while the page size is unknown
	lp := `(ltx\.LockPgno\(p0\.pageSize\)|phi\((0\|ltx\.LockPgno\(p0\.pageSize\)|ltx\.LockPgno\(p0\.pageSize\)\|0)\))`
	lockPg := G(`\(`+lp+` == phi\(.*\)\)|\(phi\(.*\) == `+lp+`\)`, false)
	c.Guarded(key, ex, p.SuccessReturn, gs(
		G(pat("("+acc+" == litefs.(*DB).Pos(p0).PostApplyChecksum)")+"|"+pat("(litefs.(*DB).Pos(p0).PostApplyChecksum == "+acc+")"), true),
		GP("ltx.(Pos).IsZero(litefs.(*DB).Pos(p0))", true),
	), 1, "an export succeeds only if the checksum accumulated over the pages it wrote equals the captured position's checksum (or the position is zero)", "an export taken over a hot journal, or racing a writer the lock protocol failed to exclude, would hand out uncommitted pages as the image of the reported position")
	c.Guarded(key+"/before-first-byte", ex, p.PlainCalls("io.Writer.Write"), gs(
		G(pat("("+acc+" == litefs.(*DB).Pos(p0).PostApplyChecksum)")+"|"+pat("(litefs.(*DB).Pos(p0).PostApplyChecksum == "+acc+")"), true),
		GP("ltx.(Pos).IsZero(litefs.(*DB).Pos(p0))", true),
	), 1, "no byte is handed to the destination before that comparison succeeded", "the export endpoint streams into the HTTP response: bytes written before a failed check arrive as status 200 and a database that contains the uncommitted page")
	c.Guarded(key+"/lock-page-excluded", ex, p.PlainCalls("ltx.ChecksumPage"), gs(lockPg), 1, "the lock page does not enter the accumulated checksum", "")
	c.OnlyGuards(key+"/every-other-page", ex, p.PlainCalls("ltx.ChecksumPage"), gs(lockPg, G(`.*`, true), G(`.*`, false)), 1, "every other page written enters it", "")
	for _, in := range Instrs(c.F(ex), p.PlainCalls("ltx.ChecksumPage")) {
		c.Expect(key+"/page-written", c.argR(in, 0)+" | "+c.argR(in, 1), pat("phi(@@) | make([]byte, p0.pageSize)"), "the checksum is taken of the page number and buffer just written", "")
	}
}

// overrideMarking (C03, C04): in DB.checksum every block within the new size
// that contains a page of the WAL overlays is marked overridden, under no
// other condition than the block being within range.
func (c *Ctx) overrideMarking(key string) {
	p := c.P
	ign := "make([]bool, (litefs.pageChksumBlock(p1) + 1))"
	desc := "every block (within the new size) that contains a page of the committed WAL overlay or of the in-progress overlay - including pages recorded as truncated - is marked overridden; the only condition is that the block is within range"
	why := "a truncated page shares its block with surviving pages: if that block is not marked, the cached aggregate (which still includes the truncated pages of the database file) is used and the reported checksum covers removed pages"
	inRange := func(src string, v bool) *Guard {
		return GP("(litefs.pageChksumBlock(rangekey("+src+")) < (litefs.pageChksumBlock(p1) + 1))", v)
	}
	all := p.IndexStoreOn(pat(ign))
	of := func(src string) IM {
		return func(in ssa.Instruction) bool {
			if !all(in) {
				return false
			}
			st, ok := in.(*ssa.Store)
			if !ok {
				return false
			}
			ia, ok := st.Addr.(*ssa.IndexAddr)
			return ok && strings.Contains(p.Render(ia.Index), "rangekey("+src+")")
		}
	}
	// first loop: committed overlay
	c.OnlyGuards(key+"/committed", "litefs.(*DB).checksum", of("p0.wal.chksums"), []*Guard{
		GP("(0 == p1)", false), GP("rangeok(p0.wal.chksums)", true), inRange("p0.wal.chksums", true),
	}, 1, desc+" (committed overlay)", why)
	// second loop: in-progress overlay; what the first loop did with its own keys is irrelevant here
	c.OnlyGuards(key+"/in-progress", "litefs.(*DB).checksum", of("p2"), []*Guard{
		GP("(0 == p1)", false), GP("rangeok(p0.wal.chksums)", true), GP("rangeok(p0.wal.chksums)", false), inRange("p0.wal.chksums", true), inRange("p0.wal.chksums", false),
		GP("rangeok(p2)", true), inRange("p2", true),
	}, 1, desc+" (in-progress overlay)", why)
	if n := len(Instrs(c.F("litefs.(*DB).checksum"), all)); n != 2 {
		c.fail(key+"/sites", "K2 OnlyGuards (path enumeration)", "exactly the two overlay loops mark blocks", why, fmt.Sprintf("%d marking sites", n), n)
	}
}

package main

// Shared rule families of DESIGN §3.1 (LTX publication protocol) and §3.2
// (LTX header provenance).

import (
	"fmt"
	"sort"
	"strings"

	"golang.org/x/tools/go/ssa"
)

type pubSpec struct {
	fn      string
	content []string // callee names: file content complete before rename
	advance IM       // in-memory state advance that must follow the dir-sync (nil: none)
	errs    []string // callee names whose errors must be handled before publish
	ltx     bool     // publishes into an LTX directory
}

func (c *Ctx) publishers() []pubSpec {
	p := c.P
	commitAdvance := Any(
		p.Calls("litefs.(*DB).setPos"),
		p.Writes("litefs.DB.pageN", "litefs.DB.wal.offset", "litefs.DB.wal.chksum1", "litefs.DB.wal.chksum2", "litefs.DB.wal.frameOffsets[]", "litefs.DB.wal.chksums[]", "litefs.DB.mode"),
	)
	enc := []string{"ltx.(*Encoder).EncodeHeader", "ltx.(*Encoder).EncodePage", "ltx.(*Encoder).Close", "os.(*File).Sync", "os.(*File).Close", "litefs.OS.Create", "litefs.OS.Rename", "internal.Sync"}
	cp := []string{"io.Copy", "os.(*File).Sync", "litefs.OS.Create", "litefs.OS.Rename", "internal.Sync"}
	return []pubSpec{
		{fn: "litefs.(*DB).CommitWAL", content: []string{"ltx.(*Encoder).Close"}, advance: commitAdvance, errs: enc, ltx: true},
		{fn: "litefs.(*DB).CommitJournal", content: []string{"ltx.(*Encoder).Close"}, advance: Any(commitAdvance, p.Calls("litefs.(*DB).invalidateJournal")), errs: enc, ltx: true},
		{fn: "litefs.(*DB).Drop", content: []string{"ltx.(*Encoder).Close"}, advance: Any(commitAdvance, p.CallWhere("litefs.OS.Remove", `"DROP:(DB|JOURNAL|WAL|SHM)"`)), errs: enc, ltx: true},
		{fn: "litefs.(*DB).importToLTX", content: []string{"ltx.(*Encoder).Close"}, errs: enc, ltx: true},
		{fn: "litefs.(*DB).WriteLTXFileAt", content: []string{"io.Copy"}, errs: append([]string{"ltx.(*Decoder).Verify", "os.(*File).Seek"}, cp...), ltx: true},
		{fn: "litefs.(*Store).processLTXStreamFrame", content: []string{"io.Copy"}, advance: p.Calls("litefs.(*DB).ApplyLTXNoLock"), errs: cp, ltx: true},
		{fn: "litefs.(*Store).setClusterID", content: []string{"io.WriteString"}, advance: p.Writes("litefs.Store.clusterID"), errs: []string{"io.WriteString", "os.(*File).Sync", "os.(*File).Close", "litefs.OS.Create", "litefs.OS.Rename", "internal.Sync", "litefs.OS.MkdirAll"}},
	}
}

// ltxPublication decides P1-P7 of DESIGN §3.1 for the given publishers
// (all when only is empty).
func (c *Ctx) ltxPublication(only ...string) {
	p := c.P
	want := map[string]bool{}
	for _, o := range only {
		want[o] = true
	}
	rename := p.Calls("litefs.OS.Rename")
	create := p.Calls("litefs.OS.Create")
	dirsync := p.Calls("internal.Sync")

	if len(only) == 0 {
		// P7: the set of functions that rename through the OS interface is the
		// confirmed table (seven publishers + the WAL rename-aside).
		allowed := []string{`litefs\.\(\*DB\)\.syncWALToLTX`}
		for _, s := range c.publishers() {
			allowed = append(allowed, pat(s.fn))
		}
		c.OnlyIn("pub/rename-sites", rename, allowed, 8,
			"every OS.Rename in the repository is in one of the seven confirmed publishers or in syncWALToLTX (rename-aside of a stale WAL)",
			"a new place that makes a file visible under its final name escapes the temp/fsync/rename/dir-sync protocol")
		c.OnlyInScope("pub/raw-rename", []string{"litefs", "internal", "http", "fuse"}, p.Calls("os.Rename"), []string{`litefs\.\(\*FileBackupClient\)\.WriteTx`, `internal\.\(\*SystemOS\)\.Rename`}, 2,
			"direct os.Rename only in FileBackupClient.WriteTx (backup directory) and SystemOS.Rename (the OS shim)",
			"a rename that bypasses the injectable OS layer is invisible to the protocol rules")
	}

	for _, s := range c.publishers() {
		if len(want) > 0 && !want[s.fn] {
			continue
		}
		short := s.fn[strings.LastIndex(s.fn, ".")+1:]
		fn := c.F(s.fn)
		k := "pub/" + short
		if !c.need(k, "K1 Before", "publisher resolves", fn, s.fn) {
			continue
		}
		rn := Instrs(fn, rename)
		cr := Instrs(fn, create)
		if len(rn) != 1 || len(cr) != 1 {
			c.fail(k+"/shape", "K8 table", "publisher has exactly one OS.Create and one OS.Rename", "the protocol rules are stated for a single temp file and a single publication point", fmt.Sprintf("found %d Create and %d Rename call(s) in %s", len(cr), len(rn), s.fn), len(rn)+len(cr))
			continue
		}
		// P1: temp name
		oldp, newp, cname := c.argR(rn[0], 2), c.argR(rn[0], 3), c.argR(cr[0], 2)
		okName := oldp == cname && (oldp == "("+newp+` + ".tmp")` || strings.HasPrefix(oldp, `fmt.Sprintf("%s.%d.tmp"`))
		if okName {
			c.ok(k+"/P1-tmpname", "K6 Origin", "the file renamed is the file created, its name is the final name plus a .tmp suffix", 1)
		} else {
			c.fail(k+"/P1-tmpname", "K6 Origin", "the file renamed is the file created, its name is the final name plus a .tmp suffix",
				"a reader of the directory must never see a half-written file under a name that parses as a transaction file",
				fmt.Sprintf("create name %q, rename old %q, rename new %q at %s", cname, oldp, newp, c.where(rn[0])), 1)
		}
		c.Before(k+"/P1-create-first", s.fn, rename, create, 1, "Create(tmp) precedes Rename on every path", "rename of a file that was not written by this operation")
		// P2: content complete
		c.Before(k+"/P2-content", s.fn, rename, p.PlainCalls(s.content...), 1, "content writer ("+strings.Join(s.content, ",")+") completes before Rename", "publishing a truncated transaction file")
		// P3: fsync of the temp handle
		tmpHandle := c.P.RenderCall(cr[0]) + "#0"
		syncTmp := func(in ssa.Instruction) bool {
			if _, ok := in.(*ssa.Call); !ok || !p.Calls("os.(*File).Sync")(in) {
				return false
			}
			return c.argR(in, 0) == tmpHandle
		}
		c.Before(k+"/P3-fsync", s.fn, rename, syncTmp, 1, "the temp file handle is fsynced before Rename", "after a crash the renamed file may be empty or torn although the operation reported success")
		c.Before(k+"/P3-content-before-fsync", s.fn, syncTmp, p.PlainCalls(s.content...), 1, "content is complete before the fsync", "fsync of an incomplete file does not make the later bytes durable")
		// P4: directory sync after rename on every success exit
		newDir := "path/filepath.Dir(" + newp + ")"
		dsync := func(in ssa.Instruction) bool {
			if _, ok := in.(*ssa.Call); !ok || !dirsync(in) {
				return false
			}
			return c.argR(in, 0) == newDir
		}
		c.After(k+"/P4-dirsync", s.fn, rename, dsync, nil, 1, "after Rename every success exit passes internal.Sync(dir of the final name)", "the rename itself is not durable until the directory is synced: a committed transaction can vanish")
		// P5: error discipline before publish and of publish
		c.ErrHandled(k+"/P5-errors", s.fn, p.PlainCalls(s.errs...), nil, 4, "errors of create/encode/copy/close/sync/rename/dir-sync lead to a failure exit", "a swallowed I/O error publishes or acknowledges a transaction that is not on disk")
		// P6: state advance only after dir-sync
		if s.advance != nil {
			c.BeforeFrom(k+"/P6-advance-after-durable", s.fn, create, s.advance, dsync, 1, "in-memory state (position, size, WAL bookkeeping, journal invalidation, apply) advances only after the directory sync", "the position would name a transaction file that a crash can still lose")
			if s.fn != "litefs.(*DB).CommitJournal" { // CommitJournal invalidates a journal without a valid header before (and instead of) capturing anything
				c.Before(k+"/P6-no-advance-before-create", s.fn, s.advance, create, 1, "... and never before the temporary file was created (an advance hoisted in front of the whole protocol)", "the in-memory state would run ahead of the file whenever a later step fails")
			}
		}
	}
}

// ltxPublicationNames decides only P1 (temp names) for all publishers (C09).
func (c *Ctx) ltxPublicationNames() {
	p := c.P
	rename := p.Calls("litefs.OS.Rename")
	create := p.Calls("litefs.OS.Create")
	for _, s := range c.publishers() {
		if !s.ltx {
			continue
		}
		short := s.fn[strings.LastIndex(s.fn, ".")+1:]
		fn := c.F(s.fn)
		k := "tmp/" + short
		if !c.need(k, "K6 Origin", "publisher resolves", fn, s.fn) {
			continue
		}
		rn, cr := Instrs(fn, rename), Instrs(fn, create)
		if len(rn) != 1 || len(cr) != 1 {
			c.fail(k, "K8 table", "one Create and one Rename", "", fmt.Sprintf("%d/%d", len(cr), len(rn)), 0)
			continue
		}
		oldp, newp, cname := c.argR(rn[0], 2), c.argR(rn[0], 3), c.argR(cr[0], 2)
		if oldp == cname && (oldp == "("+newp+` + ".tmp")` || strings.HasPrefix(oldp, `fmt.Sprintf("%s.%d.tmp"`)) && strings.Contains(newp, "LTXPath(") {
			c.ok(k, "K6 Origin", "the transaction file is written under <final>.tmp (or <final>.<n>.tmp) and renamed to LTXPath(min,max)", 1)
		} else {
			c.fail(k, "K6 Origin", "the transaction file is written under <final>.tmp (or <final>.<n>.tmp) and renamed to LTXPath(min,max)", "a half-written file under a name that parses as a transaction breaks the chain", fmt.Sprintf("create %q rename %q -> %q", cname, oldp, newp), 1)
		}
	}
}

// ---- header provenance (§3.2) ----

// structArgFields returns field name -> rendered origin for a struct-valued
// argument built in a local cell.
func (c *Ctx) structArgFields(in ssa.Instruction, argIdx int) map[string]string {
	vals := callVals(in)
	if argIdx >= len(vals) {
		return nil
	}
	return c.P.StructFields(vals[argIdx])
}

type hdrSpec struct {
	fn     string
	fields map[string]string // field -> pattern (pat syntax)
}

func (c *Ctx) ltxHeaders(only ...string) {
	pos := "litefs.(*DB).Pos(p0)"
	next := "(" + pos + ".TXID + 1)"
	common := func(commit string) map[string]string {
		return map[string]string{
			"MinTXID": next, "MaxTXID": next,
			"PreApplyChecksum": pos + ".PostApplyChecksum",
			"PageSize":         "p0.pageSize",
			"Commit":           commit,
			"NodeID":           "litefs.(*Store).ID(p0.store)",
			"Flags":            "litefs.(*Store).ltxHeaderFlags(p0.store)",
			"Version":          "1",
		}
	}
	wal := common("litefs.(*DB).buildTxFrameOffsets(p0, @@)#1")
	wal["WALSalt1"], wal["WALSalt2"] = "p0.wal.salt1", "p0.wal.salt2"
	wal["WALOffset"] = "p0.wal.offset"
	wal["WALSize"] = "(litefs.(*DB).buildTxFrameOffsets(p0, @@)#4 - p0.wal.offset)"
	jr := common(`out:encoding/binary.Read(@@"COMMITJOURNAL:DB"@@, encoding/binary.BigEndian, &new(uint32))`)
	drop := common("")
	imp := common("litefs.readSQLiteDatabaseHeader(p2)#0.PageN")
	imp["PageSize"] = "litefs.readSQLiteDatabaseHeader(p2)#0.PageSize"
	specs := []hdrSpec{
		{"litefs.(*DB).CommitWAL", wal},
		{"litefs.(*DB).CommitJournal", jr},
		{"litefs.(*DB).Drop", drop},
		{"litefs.(*DB).importToLTX", imp},
		{"litefs.(*DB).WriteSnapshotTo", map[string]string{
			"MinTXID": "1", "MaxTXID": pos + ".TXID", "PreApplyChecksum": "", "PageSize": "p0.pageSize", "Commit": "litefs.(*DB).PageN(p0)",
			"NodeID": "litefs.(*Store).ID(p0.store)", "Flags": "litefs.(*Store).ltxHeaderFlags(p0.store)", "Version": "1",
		}},
	}
	want := map[string]bool{}
	for _, o := range only {
		want[o] = true
	}
	for _, s := range specs {
		if len(want) > 0 && !want[s.fn] {
			continue
		}
		short := s.fn[strings.LastIndex(s.fn, ".")+1:]
		fn := c.F(s.fn)
		k := "hdr/" + short
		if !c.need(k, "K6 Origin", "header literal resolves", fn, s.fn) {
			continue
		}
		calls := Instrs(fn, c.P.PlainCalls("ltx.(*Encoder).EncodeHeader"))
		if len(calls) != 1 {
			c.fail(k, "K6 Origin", "exactly one EncodeHeader call", "header provenance is stated per creator", fmt.Sprintf("%d EncodeHeader calls in %s", len(calls), s.fn), len(calls))
			continue
		}
		got := c.structArgFields(calls[0], 1)
		if got == nil {
			c.undecided(k, "K6 Origin", "header literal is a local composite", "EncodeHeader argument is not a locally built ltx.Header in "+s.fn)
			continue
		}
		var names []string
		for f := range s.fields {
			names = append(names, f)
		}
		sort.Strings(names)
		for _, f := range names {
			g := got[f]
			if g == "zero" || g == "0" {
				g = ""
			}
			c.Expect(k+"/"+f, g, pat(s.fields[f]), "LTX header field "+f+" of "+short+" originates from "+orEmpty(s.fields[f]),
				"a header whose TXID is not previous+1, whose pre-checksum is not the previous post-checksum, or whose size/page-size/WAL fields come from another source breaks the chain or the image replicas rebuild")
		}
	}
}

func orEmpty(s string) string {
	if s == "" {
		return "(unset / zero)"
	}
	return s
}

// pageLoopsComplete: the loops that move pages between files handle every
// page of their range - no iteration returns to the loop condition without the
// page having been encoded / written / summed, except through the one confirmed
// skip (the lock page). Shared by the properties that depend on complete images.
func (c *Ctx) pageLoopsComplete(prefix string, which ...string) {
	p := c.P
	enc := p.PlainCalls("ltx.(*Encoder).EncodePage")
	why := "a page silently left out of an LTX file, snapshot, export or apply leaves the image a mixture of two positions while position and checksum move on"
	want := map[string]bool{}
	for _, w := range which {
		want[w] = true
	}
	lockSkip := G(`^\(ltx\.LockPgno\(.*\) == .*\)$|^\(.* == phi\(0\|ltx\.LockPgno\(.*\)\)\)$|^\(.* == ltx\.LockPgno\(.*\)\)$`, true)
	if want["CommitWAL"] {
		c.EveryIterationG(prefix+"/CommitWAL/every-listed-page-encoded", "litefs.(*DB).CommitWAL",
			G(`^\(\(phi\(-1\) \+ 1\) < builtin\.len\(\{builtin\.append\(.*buildTxFrameOffsets.*\)\)$`, true), enc, 1,
			"every page number of the transaction's page list is encoded (the lock page excepted)", why, lockSkip)
	}
	if want["CommitJournal"] {
		c.EveryIterationG(prefix+"/CommitJournal/every-listed-page-encoded", "litefs.(*DB).CommitJournal",
			G(`^\(\(phi\(-1\) \+ 1\) < builtin\.len\(\{builtin\.append\(.*dirtyPageSet.*\)\)$`, true), enc, 1,
			"every page number of the transaction's page list is encoded (the lock page excepted)", why, lockSkip)
	}
	if want["importToLTX"] {
		c.EveryIterationG(prefix+"/importToLTX/every-page-encoded", "litefs.(*DB).importToLTX",
			G(`^\(litefs\.readSQLiteDatabaseHeader\(p2\)#0\.PageN < phi\(\(↺ \+ 1\)\|1\)\)$`, false), enc, 1,
			"every page 1..PageN of the image is encoded (the lock page excepted)", why, lockSkip)
	}
	if want["WriteSnapshotTo"] {
		c.EveryIterationG(prefix+"/WriteSnapshotTo/every-page-encoded", "litefs.(*DB).WriteSnapshotTo",
			G(`^\(litefs\.\(\*DB\)\.PageN\(p0\) < phi\(\(↺ \+ 1\)\|1\)\)$`, false), enc, 1,
			"every page 1..PageN is encoded into the snapshot (the lock page excepted)", why, lockSkip)
	}
	if want["Export"] {
		ex := "litefs.(*DB).Export"
		hasNext := G(`^\(litefs\.\(\*DB\)\.PageN\(p0\) < phi\(\(↺ \+ 1\)\|1\)\)$`, false)
		c.EveryIterationG(prefix+"/Export/every-page-verified", ex, hasNext, p.PlainCalls("ltx.ChecksumPage"), 1,
			"the verification pass sums every page 1..PageN (the lock page excepted)", why, lockSkip)
		c.EveryIterationG(prefix+"/Export/every-page-written", ex, hasNext, func(in ssa.Instruction) bool {
			cc := callCommon(in)
			return cc != nil && cc.IsInvoke() && cc.Method.Name() == "Write"
		}, 1, "the writing pass writes every page 1..PageN, the lock page included (the image is a file)", why)
	}
	if want["ApplyLTXNoLock"] {
		ap := "litefs.(*DB).ApplyLTXNoLock"
		dec := `ltx\.\(\*Decoder\)\.DecodePage\(.*\)`
		c.AfterEdge(prefix+"/ApplyLTXNoLock/every-decoded-page-written", ap, G(`^\(io\.EOF == `+dec+`\)$`, false), p.PlainCalls("litefs.(*DB).writeDatabasePage"), func(in ssa.Instruction) bool {
			_, isRet := in.(*ssa.Return)
			return p.PlainCalls("ltx.(*Decoder).DecodePage")(in) || (isRet && p.ClassifyReturn(in.(*ssa.Return)) == retSuccess)
		}, 1, "every page decoded from the file is written into the database before the next page is decoded or the apply succeeds", why,
			G(`^\(`+dec+` == nil\)$|^\(nil == `+dec+`\)$`, false))
	}
	if want["rollbackJournalSegment"] {
		rs := "litefs.(*DB).rollbackJournalSegment"
		fr := `litefs\.\(\*JournalReader\)\.ReadFrame\(p2\)`
		c.AfterEdge(prefix+"/rollback/every-record-in-range-restored", rs, G(`^\(`+fr+`#2 == nil\)$|^\(nil == `+fr+`#2\)$`, true), p.PlainCalls("litefs.(*DB).writeDatabasePage"), func(in ssa.Instruction) bool {
			_, isRet := in.(*ssa.Return)
			return isRet || p.PlainCalls("litefs.(*JournalReader).ReadFrame")(in)
		}, 1, "every journal record read is written back, except records for pages beyond the original size", why,
			G(`^\(p2\.commit < `+fr+`#0\)$`, true))
	}
}

package main

import (
	"flag"
	"fmt"
	"go/token"
	"os"
	"strings"

	"golang.org/x/tools/go/ssa"
)

type tokenPos = token.Pos

func usage() {
	fmt.Fprintln(os.Stderr, `usage:
  lfscheck check -property Cnn [-tier quick|thorough] [-repo /repo] [-out /verif]
  lfscheck dump [-repo /repo] [-deep] func...
  lfscheck funcs [-repo /repo]
  lfscheck explain <replay.json>
  lfscheck sweep [-repo /repo]      all properties on one load (used by reseed_par.py)
  lfscheck selftest [-property Cnn]`)
	os.Exit(2)
}

func main() {
	if len(os.Args) < 2 {
		usage()
	}
	switch os.Args[1] {
	case "check":
		os.Exit(cmdCheck(os.Args[2:]))
	case "sweep":
		os.Exit(cmdSweep(os.Args[2:]))
	case "dump":
		fs := flag.NewFlagSet("dump", flag.ExitOnError)
		repo := fs.String("repo", "/repo", "repository")
		deep := fs.Bool("deep", true, "include anonymous functions")
		_ = fs.Parse(os.Args[2:])
		p, err := Load(LoadOpts{Dir: *repo})
		if err != nil {
			fmt.Fprintln(os.Stderr, "load:", err)
			os.Exit(1)
		}
		for _, n := range fs.Args() {
			fn := p.Fn(n)
			if fn == nil {
				// substring match
				for name, f := range p.funcs {
					if strings.Contains(name, n) && f.Parent() == nil {
						p.Dump(os.Stdout, f, *deep)
					}
				}
				continue
			}
			p.Dump(os.Stdout, fn, *deep)
		}
	case "paths":
		fs := flag.NewFlagSet("paths", flag.ExitOnError)
		repo := fs.String("repo", "/repo", "repository")
		_ = fs.Parse(os.Args[2:])
		p, err := Load(LoadOpts{Dir: *repo})
		if err != nil {
			fmt.Fprintln(os.Stderr, "load:", err)
			os.Exit(1)
		}
		if fs.NArg() < 2 {
			usage()
		}
		fn := p.Fn(fs.Arg(0))
		tgt := p.Calls(fs.Arg(1))
		if fs.Arg(1) == "return" {
			tgt = IsReturn
		}
		p.EnumPathsR(fn, tgt, 5000, func(facts []PathFact, trace []*ssa.BasicBlock, at ssa.Instruction, r PathRender) {
			fmt.Printf("PATH %s\n", p.TraceString(trace))
			for _, f := range facts {
				fmt.Printf("   %v  %s\n", f.Val, f.Cond)
			}
			if c := callCommon(at); c != nil {
				var as []string
				for _, a := range callVals(at) {
					as = append(as, r(a))
				}
				fmt.Printf("   => %s(%s)\n", p.CalleeName(c), strings.Join(as, ", "))
			} else if ret, ok := at.(*ssa.Return); ok {
				var as []string
				for i := range ret.Results {
					as = append(as, r(returnedValue(ret, i)))
				}
				fmt.Printf("   => return %s @%s\n", strings.Join(as, ", "), p.Pos(ret.Pos()))
			}
		})
	case "funcs":
		fs := flag.NewFlagSet("funcs", flag.ExitOnError)
		repo := fs.String("repo", "/repo", "repository")
		_ = fs.Parse(os.Args[2:])
		p, err := Load(LoadOpts{Dir: *repo})
		if err != nil {
			fmt.Fprintln(os.Stderr, "load:", err)
			os.Exit(1)
		}
		p.ListFuncs(os.Stdout)
	case "explain":
		os.Exit(cmdExplain(os.Args[2:]))
	case "selftest":
		os.Exit(cmdSelftest(os.Args[2:]))
	default:
		usage()
	}
}

package main

import (
	"flag"
	"fmt"
	"path/filepath"
	"sort"
)

// cmdSweep loads the repository once (default configuration) and evaluates the
// obligations of every property on it; one line per obligation that does not
// hold and is not a listed known finding. Used by reseed_par.py to run all
// registered checks against a scratch copy that carries a seeded change; the
// registered commands remain one process per property.
func cmdSweep(args []string) int {
	fs := flag.NewFlagSet("sweep", flag.ExitOnError)
	repo := fs.String("repo", "/repo", "repository")
	out := fs.String("out", "/verif", "verif directory")
	_ = fs.Parse(args)
	known, _ := loadKnown(filepath.Join(*out, "known_findings.json"))
	isKnown := map[string]bool{}
	for _, k := range known {
		if k.Status == "known" {
			isKnown[k.Key] = true
		}
	}
	p, err := Load(LoadOpts{Dir: *repo})
	if err != nil {
		fmt.Println("UNDECIDED load:", err)
		return 1
	}
	var ids []string
	for id := range properties {
		ids = append(ids, id)
	}
	sort.Strings(ids)
	rc := 0
	for _, id := range ids {
		pr := properties[id]
		func() {
			defer func() {
				if r := recover(); r != nil {
					fmt.Printf("UNDECIDED %s.panic %v\n", id, r)
					rc = 1
				}
			}()
			c := NewCtx(p, pr.ID, "quick")
			pr.Run(c)
			n := 0
			for _, o := range c.Obs {
				if o.Status == "holds" || (o.Status == "violation" && isKnown[o.Key]) {
					continue
				}
				n++
				rc = 1
				st := "VIOLATION"
				if o.Status != "violation" {
					st = "UNDECIDED"
				}
				fmt.Printf("%s %s [default] %s\n", st, o.Key, o.Rule)
			}
			fmt.Printf("%s obligations=%d not-holding=%d\n", id, len(c.Obs), n)
		}()
	}
	return rc
}

package main

import (
	"fmt"
	"sort"
	"strings"

	"golang.org/x/tools/go/ssa"
)

// NoReentry (K14): sync.Mutex is not re-entrant, so a goroutine that locks a
// mutex it already holds blocks for ever - and with it every later caller of
// that mutex. For the mutex stored in the struct field mu (a field path such as
// "litefs.Store.mu") the rule computes, over the resolved program,
//
//	held instructions: in every function that locks mu, the instructions
//	  reachable from a Lock without crossing a plain (not deferred) Unlock;
//	  in every function that is called (statically) from a held instruction,
//	  the instructions reachable from its entry without crossing an Unlock,
//	  to a fixpoint ("called with mu held" is inherited);
//
// and reports every held call whose static callee itself locks mu. go
// statements start another goroutine and are not calls; deferred calls are not
// followed (the repository never defers a locking helper while holding mu:
// checked by the count of such defers being zero). excuse names single call
// edges ("caller -> callee") that are not followed, each with the reason why
// the edge cannot be taken while the mutex is held.
func (c *Ctx) NoReentry(key, mu string, minLocks int, desc, why string, excuse map[string]string) {
	rule := "K14 NoReentry (held-region fixpoint over static callees)"
	p := c.P
	muOp := func(in ssa.Instruction, names ...string) bool {
		call, ok := in.(*ssa.Call)
		if !ok || len(call.Call.Args) == 0 {
			return false
		}
		n := p.CalleeName(&call.Call)
		hit := false
		for _, x := range names {
			if n == x {
				hit = true
			}
		}
		if !hit {
			return false
		}
		fa, ok := call.Call.Args[0].(*ssa.FieldAddr)
		return ok && fieldPathOf(fa) == mu
	}
	isLock := func(in ssa.Instruction) bool {
		return muOp(in, "sync.(*Mutex).Lock", "sync.(*RWMutex).Lock", "sync.(*RWMutex).RLock")
	}
	isUnlock := func(in ssa.Instruction) bool {
		return muOp(in, "sync.(*Mutex).Unlock", "sync.(*RWMutex).Unlock", "sync.(*RWMutex).RUnlock")
	}
	var all []*ssa.Function
	var walk func(fn *ssa.Function)
	walk = func(fn *ssa.Function) {
		all = append(all, fn)
		for _, a := range fn.AnonFuncs {
			walk(a)
		}
	}
	seenTop := map[*ssa.Function]bool{}
	for _, fn := range p.SrcFuncs() {
		t := topFunc(fn)
		if seenTop[t] || !c.inScope(t, nil) {
			continue
		}
		seenTop[t] = true
		walk(t)
	}
	locks := map[*ssa.Function][]ssa.Instruction{}
	nLocks := 0
	for _, fn := range all {
		for _, b := range fn.Blocks {
			for _, in := range b.Instrs {
				if isLock(in) {
					locks[fn] = append(locks[fn], in)
					nLocks++
				}
			}
		}
	}
	if nLocks < minLocks {
		c.fail(key, rule, desc, why, fmt.Sprintf("only %d Lock call(s) on %s found, expected >= %d (field renamed?)", nLocks, mu, minLocks), nLocks)
		return
	}
	// held(fn, fromEntry): instructions reachable from the lock sites (and the
	// entry) without crossing an unlock.
	held := func(fn *ssa.Function, fromEntry bool) []ssa.Instruction {
		var out []ssa.Instruction
		seen := map[*ssa.BasicBlock]bool{}
		var scan func(b *ssa.BasicBlock, i int)
		scan = func(b *ssa.BasicBlock, i int) {
			for ; i < len(b.Instrs); i++ {
				if isUnlock(b.Instrs[i]) {
					return
				}
				out = append(out, b.Instrs[i])
			}
			for _, s := range b.Succs {
				if !seen[s] {
					seen[s] = true
					scan(s, 0)
				}
			}
		}
		if fromEntry && len(fn.Blocks) > 0 {
			seen[fn.Blocks[0]] = true
			scan(fn.Blocks[0], 0)
		}
		for _, l := range locks[fn] {
			b := l.Block()
			for i, in := range b.Instrs {
				if in == l {
					scan(b, i+1)
				}
			}
		}
		return out
	}
	inherited := map[*ssa.Function]string{} // fn -> "caller at pos"
	var order []*ssa.Function
	for _, fn := range all {
		if len(locks[fn]) > 0 {
			order = append(order, fn)
		}
	}
	var bad []string
	calls, deferred, excused := 0, 0, 0
	done := map[*ssa.Function]bool{}
	for len(order) > 0 {
		fn := order[0]
		order = order[1:]
		_, inh := inherited[fn]
		kdone := done[fn]
		if kdone && !inh {
			continue
		}
		done[fn] = true
		seenIn := map[ssa.Instruction]bool{}
		for _, in := range held(fn, inh) {
			if seenIn[in] {
				continue
			}
			seenIn[in] = true
			if d, ok := in.(*ssa.Defer); ok {
				if cal := d.Call.StaticCallee(); cal != nil && len(locks[cal]) > 0 {
					deferred++
					bad = append(bad, fmt.Sprintf("%s defers %s at %s while holding %s", p.FuncName(fn), p.FuncName(cal), c.where(in), mu))
				}
				continue
			}
			call, ok := in.(*ssa.Call)
			if !ok {
				continue
			}
			cal := call.Call.StaticCallee()
			if cal == nil || len(cal.Blocks) == 0 || !c.inScope(cal, nil) {
				continue
			}
			if _, ok := excuse[p.FuncName(fn)+" -> "+p.FuncName(cal)]; ok {
				excused++
				continue
			}
			calls++
			if len(locks[cal]) > 0 {
				chain := p.FuncName(fn)
				if via := inherited[fn]; via != "" {
					chain = via + " -> " + chain
				}
				bad = append(bad, fmt.Sprintf("%s calls %s at %s while %s is held: %s locks it again", chain, p.FuncName(cal), c.where(in), mu, p.FuncName(cal)))
				continue
			}
			if _, ok := inherited[cal]; !ok {
				via := p.FuncName(fn)
				if v := inherited[fn]; v != "" {
					via = v + " -> " + via
				}
				inherited[cal] = via
				order = append(order, cal)
			}
		}
	}
	sort.Strings(bad)
	if len(bad) > 0 {
		c.fail(key, rule, desc, why, strings.Join(bad, "; "), nLocks)
		return
	}
	if excused != len(excuse) {
		c.fail(key, rule, desc, why, fmt.Sprintf("%d excused call edge(s) listed but %d met while %s is held: the exception table is stale", len(excuse), excused, mu), nLocks)
		return
	}
	c.ok(key, rule, fmt.Sprintf("%s (%d lock sites, %d functions run with the mutex held by their caller, %d resolved calls inspected, %d excused edge(s))", desc, nLocks, len(inherited), calls, excused), nLocks)
}

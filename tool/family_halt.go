package main

import (
	"go/types"
	"regexp"
	"strings"

	"golang.org/x/tools/go/ssa"
)

// remoteHaltFamily: the replica-side halt-lock reference (DB.remoteHaltLock)
// is what makes a non-primary node Writeable(); it must be set only by a
// successful acquisition and be cleared on release, on expiry and on every
// failed acquisition (shared by C07 and C13).
func (c *Ctx) remoteHaltFamily(prefix string) {
	p := c.P
	c.clientStatusFamily(prefix+"/client", "Commit", "AcquireHaltLock", "ReleaseHaltLock")
	field := p.Writes("litefs.DB.remoteHaltLock")
	c.OnlyIn(prefix+"/owners", field, []string{pat("litefs.NewDB"), pat("litefs.(*DB).AcquireRemoteHaltLock"), pat("litefs.(*DB).unsetRemoteHaltLock")}, 3,
		"DB.remoteHaltLock is written only by NewDB, AcquireRemoteHaltLock and unsetRemoteHaltLock", "any other writer grants or keeps write authority outside the halt protocol")
	loaded := "sync/atomic.(*Value).Load(&p0.remoteHaltLock).(*litefs.HaltLock)"
	un := "litefs.(*DB).unsetRemoteHaltLock"
	unPub := "litefs.(*DB).UnsetRemoteHaltLock"
	c.Expect(prefix+"/unset-wrapper", joinS(c.returnsOf(unPub)), pat("litefs.(*DB).unsetRemoteHaltLock(p0, p1, p2, false)"), "UnsetRemoteHaltLock is unsetRemoteHaltLock without a held lock", "")
	cas := func(in ssa.Instruction) bool {
		return p.Calls("sync/atomic.(*Value).CompareAndSwap")(in) && field(in)
	}
	for _, in := range Instrs(c.F(un), cas) {
		c.Expect(prefix+"/unset-cas-identity", c.argR(in, 1)+" -> "+c.argR(in, 2), pat(loaded+" -> nil"),
			"UnsetRemoteHaltLock swaps out exactly the pointer it loaded (CompareAndSwap compares identity) for nil", "swapping a copy never matches: the reference is never cleared and the replica stays writable forever")
	}
	c.BeforeG(prefix+"/unset-clears", un, p.SuccessReturn, cas, gs(GP("(nil == "+loaded+")", true), GP("(p2 == "+loaded+".ID)", false)), 1,
		"every success exit of UnsetRemoteHaltLock has cleared the reference, unless no lock is held or the id is not the current one", "C13: the former holder can no longer publish")
	c.Before(prefix+"/unset-recover-first", un, cas, p.PlainCalls("litefs.(*DB).Recover", "litefs.(*DB).recover"), 1, "the local journal/WAL is rolled back/checkpointed before the reference is cleared", "pending local state of the halted writer must not survive into replica mode")
	rl := "litefs.(*DB).ReleaseRemoteHaltLock"
	c.Guarded(prefix+"/unset-nolock-variant", un, p.PlainCalls("litefs.(*DB).recover"), gs(GP("p3", true)), 1, "the lock-free recovery is used only when the caller states it holds the write lock", "")
	c.Guarded(prefix+"/unset-locking-variant", un, p.PlainCalls("litefs.(*DB).Recover"), gs(GP("p3", false)), 1, "otherwise the locking Recover is used", "C11")
	c.Before(prefix+"/release-unset-first", rl, p.PlainCalls("litefs.Client.ReleaseHaltLock"), p.PlainCalls(unPub), 1,
		"the local reference is cleared before the primary is told to release", "if the response of the remote release is lost the replica would stay writable while the primary accepts other writers (and the next LTX from the primary races the confirmation)")
	c.ErrHandled(prefix+"/release-unset-error", rl, p.PlainCalls(unPub), p.PlainCalls("litefs.Client.ReleaseHaltLock"), 1, "a failed local unset stops the release", "")

	aq := "litefs.(*DB).AcquireRemoteHaltLock"
	store := func(in ssa.Instruction) bool {
		return p.Calls("sync/atomic.(*Value).Store")(in) && field(in)
	}
	c.ExpectAll(prefix+"/acquire-stores-granted-pointer", c.CallArgs(aq, store, 1), pat("litefs.Client.AcquireHaltLock(@@)#0"), 1, "the reference stored is the pointer the client returned (the one the failure handler later swaps out by identity)", "storing a copy makes the identity-based clean-up a no-op: after a failed acquisition the node stays writable")
	c.Before(prefix+"/acquire-store-after-grant", aq, store, p.PlainCalls("litefs.Client.AcquireHaltLock"), 1, "the reference is stored only after the primary granted the lock", "")
	c.ErrHandled(prefix+"/acquire-grant-error", aq, p.PlainCalls("litefs.Client.AcquireHaltLock"), store, 1, "a refused grant never stores a reference", "")
	cleanup := c.anonWith(aq, field)
	desc := "a failed acquisition (e.g. the granted position is never reached) clears the stored reference in the deferred error handler"
	why := "otherwise HasRemoteHaltLock()/Writeable() stay true on a node that holds no halt lock: C07/C13"
	if cleanup == "" {
		c.fail(prefix+"/acquire-failure-clears", "K3 AfterOnSuccess (deferred)", desc, why, "no deferred closure of AcquireRemoteHaltLock writes DB.remoteHaltLock: after Store(haltLock) a failing WaitPosExact leaves the reference set", 0)
	} else {
		deferIt := func(in ssa.Instruction) bool {
			d, ok := in.(*ssa.Defer)
			return ok && p.FuncName(p.calleeFunc(d)) == cleanup
		}
		c.Before(prefix+"/acquire-failure-clears", aq, store, deferIt, 1, desc, why)
		c.OnlyGuards(prefix+"/acquire-failure-clears/on-error", cleanup, field, gs(G(`\(nil == .*\)|\(.* == nil\)`, false)), 1, "the handler clears the reference whenever the function returns an error", "")
		for _, in := range Instrs(c.F(cleanup), field) {
			c.Expect(prefix+"/acquire-failure-clears/identity", c.argR(in, 1)+" -> "+c.argR(in, 2), pat("litefs.Client.AcquireHaltLock(@@)#0 -> nil"), "it swaps out the pointer that was stored", "")
		}
	}
	c.Before(prefix+"/acquire-wait", aq, p.SuccessReturn, p.PlainCalls("litefs.(*DB).WaitPosExact"), 1, "every success exit has waited for the granted position", "C13: the replica starts writing from exactly the primary's position")
	c.ExpectAll(prefix+"/acquire-wait-pos", c.CallArgs(aq, p.PlainCalls("litefs.(*DB).WaitPosExact"), 2), pat("litefs.Client.AcquireHaltLock(@@)#0.Pos"), 1, "the position waited for is the granted lock's", "")
	c.Before(prefix+"/acquire-store-before-wait", aq, p.PlainCalls("litefs.(*DB).WaitPosExact"), store, 1, "the reference is stored before waiting", "processLTXStreamFrame clears a stale reference when a frame arrives; the order is what makes that race benign")
	_ = strings.TrimSpace
	// release: the local reference is dropped on every path, also when no primary is known
	c.Before(prefix+"/release-always-unsets", "litefs.(*DB).ReleaseRemoteHaltLock", IsReturn, p.PlainCalls("litefs.(*DB).UnsetRemoteHaltLock"), 2,
		"every exit of ReleaseRemoteHaltLock has dropped the local reference (before looking for a primary to tell)", "a release while disconnected otherwise keeps the replica writable under a lock its holder believes released: it keeps publishing with the stale id until the TTL")

}

// primaryOnlyHandlers: the halt and forwarded-commit handlers do their work only
// on a node that is primary at the time of the request (shared by C07, C08, C13).
func (c *Ctx) primaryOnlyHandlers(prefix string) {
	p := c.P
	isPrimary := GP("litefs.(*Store).IsPrimary(p0.store)", true)
	c.Guarded(prefix+"/handlePostHalt", "http.(*Server).handlePostHalt", p.PlainCalls("litefs.(*Store).CreateDBIfNotExists", "litefs.(*DB).AcquireHaltLock"), gs(isPrimary), 2,
		"POST /halt creates the database and grants the halt lock only when Store.IsPrimary() answered true", "a node without a lease that grants a halt lock lets a replica write against a node that is not the primary")
	c.Guarded(prefix+"/handlePostTx", "http.(*Server).handlePostTx", p.PlainCalls("litefs.(*DB).PinHaltLock", "litefs.(*DB).WriteLTXFileAt", "litefs.(*DB).ApplyLTXNoLock"), gs(isPrimary), 3,
		"POST /tx pins, copies and applies a forwarded transaction only when Store.IsPrimary() answered true", "a node without a lease that applies and acknowledges a forwarded transaction moves its position outside the primary's stream; the sender believes the transaction is committed")
	c.Expect(prefix+"/is-primary-def", strings.Join(c.returnsOf("litefs.(*Store).IsPrimary"), ";"), pat("litefs.(*Store).isPrimary(p0)"), "IsPrimary() is the locked read of isPrimary()", "")
}

// clientStatusFamily: the HTTP client methods named report success (a nil
// error result) only for status 200 of the response they received; every
// other status - in particular the 409 the primary uses to refuse - is an
// error for the caller, which otherwise acts on a refusal as on a grant.
func (c *Ctx) clientStatusFamily(prefix string, methods ...string) {
	p := c.P
	for _, m := range methods {
		fname := "http.(*Client)." + m
		fn := c.F(fname)
		if fn == nil {
			c.fail(prefix+"/"+m+"/success-only-200", "K2 Guarded", "the client method exists", "", "function "+fname+" not found", 0)
			continue
		}
		nilErr := func(in ssa.Instruction) bool {
			r, ok := in.(*ssa.Return)
			if !ok || len(r.Results) == 0 || (r.Block().Index != 0 && len(r.Block().Preds) == 0) {
				return false
			}
			return p.Render(returnedValue(r, len(r.Results)-1)) == "nil"
		}
		c.Guarded(prefix+"/"+m+"/success-only-200", fname, nilErr,
			gs(G(`^\(200 == net/http\.\(\*Client\)\.Do\(.*\)#0\.StatusCode\)$`, true)), 1,
			"Client."+m+" returns a nil error only when the response status is 200", "a refusal (409/503/...) taken for success lets the caller proceed as if the primary had agreed")
	}
}

// ckptCopiesAll: the checkpoint copies every page of the committed offset map
// (no iteration of the copy loop skips writeDatabasePage), shared by C05, C10, C17.
func (c *Ctx) ckptCopiesAll(prefix string) {
	c.EveryIteration(prefix+"/every-committed-page-copied", "litefs.(*DB).CheckpointNoLock", pat("litefs.(*DB).readWALPageOffsets(p0, @@)#0"),
		c.P.PlainCalls("litefs.(*DB).writeDatabasePage"),
		"every iteration over the committed page-offset map writes that page into the database file (or returns an error)",
		"the WAL is truncated afterwards: a page skipped here keeps an older committed version while position and checksum cache move on - snapshots then mix two positions")
}

// noPrematureTest: in fname no branch condition matching condRe is evaluated
// unless an edge establishing one of the guards was taken before (the expected
// number of such conditions is zero today; the independent seed that added one
// is kept as a mutant).
func (c *Ctx) noPrematureTest(key, fname, condRe string, guards []*Guard, desc, why string, exclude ...string) {
	p := c.P
	rx := regexp.MustCompile(condRe)
	var ex []*regexp.Regexp
	for _, e := range exclude {
		ex = append(ex, regexp.MustCompile(e))
	}
	tgt := func(in ssa.Instruction) bool {
		iff, ok := in.(*ssa.If)
		if !ok {
			return false
		}
		canon, _ := p.Cond(iff.Cond)
		for _, e := range ex {
			if e.MatchString(canon) {
				return false
			}
		}
		return rx.MatchString(canon)
	}
	c.Guarded(key, fname, tgt, guards, 0, desc, why)
}

// haltLockSetFollowsMode (C11, C13; known finding KF4): the lock set pinned with
// a granted halt lock is the one of the journal mode at the time of the grant.
// A forwarded transaction can change the journal mode; the handler that applies
// it under the pinned lock must look at the mode again (to re-establish or give
// up the lock set) before it acknowledges. Today nothing does.
func (c *Ctx) haltLockSetFollowsMode(prefix string) {
	p := c.P
	h := "http.(*Server).handlePostTx"
	apply := p.PlainCalls("litefs.(*DB).ApplyLTXNoLock")
	reexamine := func(in ssa.Instruction) bool {
		cc := callCommon(in)
		if cc == nil {
			return false
		}
		n := p.CalleeName(cc)
		if !strings.HasPrefix(n, "litefs.(*DB).") || n == "litefs.(*DB).PinHaltLock" || n == "litefs.(*DB).ApplyLTXNoLock" {
			return false
		}
		short := strings.ToLower(n[len("litefs.(*DB)."):])
		return strings.Contains(short, "mode") || strings.Contains(short, "haltlock") || strings.Contains(short, "relock")
	}
	inApply := len(InstrsDeep(c.F("litefs.(*DB).ApplyLTXNoLock"), func(in ssa.Instruction) bool {
		fa, ok := in.(*ssa.FieldAddr)
		if !ok {
			return false
		}
		st, ok := fa.X.Type().Underlying().(*types.Pointer)
		if !ok {
			return false
		}
		str, ok := st.Elem().Underlying().(*types.Struct)
		return ok && str.Field(fa.Field).Name() == "haltLockAndGuard"
	})) > 0
	key, rule := prefix+"/lock-set-follows-mode-change", "K3 After"
	desc := "after a forwarded file was applied under a pinned halt lock the journal mode is examined again (the pinned lock set is re-established for the new mode, or given up) before the request is acknowledged"
	why := "the lock set of WAL mode (SHARED shared + the SHM locks) does not exclude a rollback-mode connection: after a forwarded journal_mode change local connections get PENDING, SHARED and RESERVED while the halt lock is held"
	fn := c.F(h)
	if !c.need(key, rule, desc, fn, h) {
		return
	}
	if inApply {
		c.ok(key, rule, desc, 1)
		return
	}
	ins := Instrs(fn, apply)
	if len(ins) == 0 {
		c.fail(key, rule, desc, why, "handlePostTx no longer calls ApplyLTXNoLock", 0)
		return
	}
	s := &Search{P: p, Fn: fn, From: ins, Avoid: reexamine, Tgt: func(in ssa.Instruction) bool {
		r, ok := in.(*ssa.Return)
		if !ok {
			return false
		}
		// the acknowledging exit: a return not preceded in its block by the Error helper
		for _, x := range r.Block().Instrs {
			if p.PlainCalls("http.Error")(x) {
				return false
			}
		}
		return true
	}}
	if f := s.Run(); f != nil {
		c.fail(key, rule, desc, why, "the request is acknowledged at "+c.where(f.Instr)+" without the mode being examined after the apply at "+c.where(ins[0]), len(ins))
		return
	}
	c.ok(key, rule, desc, len(ins))
}

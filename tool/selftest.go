package main

// Overlay self-test: each mutant is a textual edit of one /repo file applied
// in memory (packages.Config.Overlay); the property's obligations must fire
// on it and name an obligation matching the mutant's expectation. Self-test
// results never change a check's exit status.

import (
	"encoding/json"
	"flag"
	"fmt"
	"os"
	"os/exec"
	"path/filepath"
	"regexp"
	"sort"
	"strings"
	"sync"
)

// Mutant is one overlay edit.
type Mutant struct {
	ID       string `json:"id"`
	Property string `json:"property"`
	File     string `json:"file"` // relative to repo
	Old      string `json:"old"`
	New      string `json:"new"`
	Expect   string `json:"expect"` // regexp on the obligation key that must fail
	Note     string `json:"note,omitempty"`
	Survives bool   `json:"survives,omitempty"` // documented: not detectable by this family
	More     []Edit `json:"more,omitempty"`     // further edits of the same mutant (other hunks / files)
}

// Edit is one additional textual edit of a mutant.
type Edit struct {
	File string `json:"file"`
	Old  string `json:"old"`
	New  string `json:"new"`
}

func loadMutants(out string) ([]Mutant, error) {
	var all []Mutant
	files, _ := filepath.Glob(filepath.Join(out, "mutants", "*.json"))
	sort.Strings(files)
	for _, f := range files {
		b, err := os.ReadFile(f)
		if err != nil {
			return nil, err
		}
		var ms []Mutant
		if err := json.Unmarshal(b, &ms); err != nil {
			return nil, fmt.Errorf("%s: %w", f, err)
		}
		all = append(all, ms...)
	}
	return all, nil
}

type mutResult struct {
	ID     string `json:"id"`
	Status string `json:"status"` // killed | survived | n/a | invalid | wrong-obligation
	Detail string `json:"detail,omitempty"`
}

// runMutant decides one mutant in this process.
// mutantOutDir is the /verif directory (for known_findings.json); set by cmdSelftest.
var mutantOutDir = "/verif"

func runMutant(m Mutant, repo string) mutResult {
	path := filepath.Join(repo, m.File)
	src, err := os.ReadFile(path)
	if err != nil {
		return mutResult{m.ID, "n/a", err.Error()}
	}
	if strings.Count(string(src), m.Old) != 1 {
		return mutResult{m.ID, "stale", fmt.Sprintf("anchor text occurs %d times in %s (tree edited since the mutant was written)", strings.Count(string(src), m.Old), m.File)}
	}
	mutated := strings.Replace(string(src), m.Old, m.New, 1)
	overlay := map[string][]byte{path: []byte(mutated)}
	for _, e := range m.More {
		ep := filepath.Join(repo, e.File)
		cur, ok := overlay[ep]
		if !ok {
			b, err := os.ReadFile(ep)
			if err != nil {
				return mutResult{m.ID, "n/a", err.Error()}
			}
			cur = b
		}
		if strings.Count(string(cur), e.Old) != 1 {
			return mutResult{m.ID, "stale", fmt.Sprintf("anchor text of an additional edit occurs %d times in %s", strings.Count(string(cur), e.Old), e.File)}
		}
		overlay[ep] = []byte(strings.Replace(string(cur), e.Old, e.New, 1))
	}
	pr := properties[m.Property]
	if pr == nil {
		return mutResult{m.ID, "n/a", "unknown property"}
	}
	obs, _, _, err := runConfig(pr, configSpec{"mutant", LoadOpts{Dir: repo, Overlay: overlay}}, "quick")
	if err != nil {
		return mutResult{m.ID, "invalid", err.Error()}
	}
	rx := regexp.MustCompile(m.Expect)
	// obligations listed as known findings of the unchanged tree are not evidence about the mutant
	knownKeys := map[string]bool{}
	if known, err := loadKnown(filepath.Join(mutantOutDir, "known_findings.json")); err == nil {
		for _, k := range known {
			if k.Status == "known" {
				knownKeys[k.Key] = true
			}
		}
	}
	var failed []string
	for _, o := range obs {
		if o.Status != "holds" {
			if knownKeys[strings.SplitN(o.Key, "@", 2)[0]] && (m.Expect == "" || !rx.MatchString(o.Key)) {
				continue
			}
			failed = append(failed, o.Key)
			if rx.MatchString(o.Key) {
				return mutResult{m.ID, "killed", o.Key + ": " + o.Detail}
			}
		}
	}
	if len(failed) > 0 {
		return mutResult{m.ID, "wrong-obligation", "fired: " + strings.Join(failed, ", ")}
	}
	return mutResult{m.ID, "survived", ""}
}

func cmdSelftest(args []string) int {
	fs := flag.NewFlagSet("selftest", flag.ExitOnError)
	prop := fs.String("property", "", "restrict to one property")
	id := fs.String("mutant", "", "run one mutant in-process and print JSON")
	repo := fs.String("repo", "/repo", "repository")
	out := fs.String("out", "/verif", "verif directory")
	par := fs.Int("j", 4, "parallel processes")
	_ = fs.Parse(args)
	mutantOutDir = *out
	ms, err := loadMutants(*out)
	if err != nil {
		fmt.Fprintln(os.Stderr, err)
		return 1
	}
	if *id != "" {
		for _, m := range ms {
			if m.ID == *id {
				b, _ := json.Marshal(runMutant(m, *repo))
				fmt.Println(string(b))
				return 0
			}
		}
		fmt.Fprintln(os.Stderr, "no such mutant")
		return 1
	}
	res := runMutants(ms, *prop, *repo, *out, *par)
	bad := 0
	for _, r := range res {
		fmt.Printf("%-18s %-40s %s\n", r.Status, r.ID, trunc(r.Detail, 160))
		if r.Status != "killed" && r.Status != "n/a" {
			bad++
		}
	}
	fmt.Printf("selftest: %d mutants, %d not killed\n", len(res), bad)
	if bad > 0 {
		return 1
	}
	return 0
}

func trunc(s string, n int) string {
	if len(s) > n {
		return s[:n] + "…"
	}
	return s
}

// runMutants runs the mutants of a property (all when prop is empty), one
// process per mutant, at most par at a time.
func runMutants(ms []Mutant, prop, repo, out string, par int) []mutResult {
	self, err := os.Executable()
	if err != nil {
		return nil
	}
	var sel []Mutant
	for _, m := range ms {
		if prop == "" || m.Property == prop {
			sel = append(sel, m)
		}
	}
	res := make([]mutResult, len(sel))
	sem := make(chan struct{}, par)
	var wg sync.WaitGroup
	for i, m := range sel {
		wg.Add(1)
		go func(i int, m Mutant) {
			defer wg.Done()
			sem <- struct{}{}
			defer func() { <-sem }()
			cmd := exec.Command(self, "selftest", "-mutant", m.ID, "-repo", repo, "-out", out)
			b, err := cmd.Output()
			var r mutResult
			if err != nil || json.Unmarshal(b, &r) != nil {
				r = mutResult{m.ID, "invalid", fmt.Sprintf("subprocess: %v", err)}
			}
			if m.Survives {
				// behaviour-preserving (or out-of-reach) edit: the checker must stay silent
				switch r.Status {
				case "survived":
					r.Status = "n/a"
					r.Detail = "silent as required: " + m.Note
				case "killed", "wrong-obligation":
					r.Status = "false-alarm"
				}
			}
			res[i] = r
		}(i, m)
	}
	wg.Wait()
	return res
}

// runSelftestFor is used by the thorough tier: informational only.
func runSelftestFor(prop, repo, out string) map[string]any {
	ms, err := loadMutants(out)
	if err != nil {
		return map[string]any{"error": err.Error()}
	}
	res := runMutants(ms, prop, repo, out, 4)
	killed, total := 0, 0
	var survivors []string
	for _, r := range res {
		if r.Status == "n/a" {
			continue
		}
		total++
		if r.Status == "killed" {
			killed++
		} else {
			survivors = append(survivors, r.ID+" ("+r.Status+")")
		}
	}
	return map[string]any{"mutants": total, "killed": killed, "not_killed": survivors}
}

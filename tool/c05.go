package main

import (
	"strings"

	"golang.org/x/tools/go/ssa"
)

func init() {
	register(&Property{
		ID:    "C05",
		Level: "other",
		Run:   c05,
		Explanation: "Static decision of the durability PROTOCOL behind crash recovery: for each of the seven functions that publish a file by rename (discovered from every OS.Rename call and compared with the confirmed table) the temp-name, content-complete, fsync, rename, directory-fsync order, the error discipline of each step and 'in-memory state advances only after the directory sync' are decided on every path of the go/ssa control-flow graph; plus publish-before-invalidate in CommitJournal/Drop, ownership of file-system mutations by the injectable OS interface, the partial order of DB.Open / recover / rollbackJournal / CheckpointNoLock, the WAL trim guards of syncWALToLTX, the newest-file selection of maxLTXFile and the divisor guards of the journal reader that Open depends on.",
		NotDecided: "the outcome of recovery at each individual crash point (file contents, torn writes, kernel fsync semantics) - a runtime exploration that this family cannot perform.",
		Assumptions: []string{
			"go/packages + go/ssa (x/tools v0.29.0) represent /repo's source faithfully",
			"os.(*File).Sync and internal.Sync make file contents / directory entries durable",
			"values are identified by rendered origin; two calls with identical rendered arguments are treated as the same value",
		},
	})
}

// syncOf matches os.(*File).Sync on a handle whose rendered origin contains sub.
func (c *Ctx) fileCall(method, sub string) IM {
	m := c.P.PlainCalls("os.(*File)." + method)
	return func(in ssa.Instruction) bool {
		return m(in) && strings.Contains(c.argR(in, 0), sub)
	}
}

// osCall matches OS.<method> calls whose path argument renders exactly as arg.
func (c *Ctx) osCall(method, arg string) IM {
	m := c.P.PlainCalls("litefs.OS." + method)
	return func(in ssa.Instruction) bool {
		return m(in) && c.argR(in, 2) == arg
	}
}

func c05(c *Ctx) {
	c.shortDatabaseTolerated("open-seq")
	c.NoDiscardedErrors("errors/none-dropped", []string{"litefs", "internal", "chunk", "fuse"}, discardCore, 40)
	p := c.P
	c.ltxPublication()

	// ---- C05.before-invalidate ----
	cj := "litefs.(*DB).CommitJournal"
	dbSync := c.fileCall("Sync", "litefs.(*DB).DatabasePath(p0)")
	inval := p.PlainCalls("litefs.(*DB).invalidateJournal")
	create := p.PlainCalls("litefs.OS.Create")
	c.BeforeFrom("before-invalidate/CommitJournal/dbsync", cj, create, inval, dbSync, 1,
		"on the commit path the database file is fsynced before the journal is invalidated",
		"SQLite treats the journal's disappearance as commit: if the database pages are not durable first, a crash leaves a committed-looking, partially written database")
	c.BeforeFrom("before-invalidate/CommitJournal/publish", cj, create, inval, p.PlainCalls("litefs.OS.Rename"), 1,
		"the LTX file is renamed into place before the journal is invalidated",
		"a crash between invalidation and publication loses a transaction SQLite considers committed; recovery would also have no journal to roll back")
	ij := "litefs.(*DB).invalidateJournal"
	c.Before("before-invalidate/invalidateJournal/dirsync", ij, p.SuccessReturn, p.CallWhere("internal.Sync", `^internal\.Sync\(p0\.path\)$`), 1,
		"every success exit of invalidateJournal has fsynced the database directory",
		"the unlink/truncate of the journal must be durable before the commit is acknowledged, else a hot journal reappears after a crash and rolls back an acknowledged transaction")
	c.After("before-invalidate/invalidateJournal/truncate-sync", ij, p.PlainCalls("litefs.OS.Truncate"), p.CallWhere("internal.Sync", `JournalPath`), nil, 1,
		"TRUNCATE mode: the journal is fsynced after being truncated", "a zero-length journal that is not durable is a hot journal after a crash")
	c.After("before-invalidate/invalidateJournal/persist-sync", ij, p.PlainCalls("os.(*File).Write"), c.fileCall("Sync", "JournalPath"), nil, 1,
		"PERSIST mode: the zeroed journal header is fsynced", "an un-synced zeroed header leaves a valid hot journal after a crash")
	c.Before("before-invalidate/invalidateJournal/dirty-reset", ij, p.SuccessReturn, p.Writes("litefs.DB.dirtyPageSet"), 1,
		"every success exit of invalidateJournal resets the dirty page set", "stale dirty pages leak into the next transaction file")

	// ---- C05.os-iface ----
	rawOS := p.Calls("os.Create", "os.OpenFile", "os.Remove", "os.RemoveAll", "os.Rename", "os.Truncate", "os.WriteFile", "os.Mkdir", "os.MkdirAll", "os.Link", "os.Symlink")
	c.OnlyInScope("os-iface/raw-os-mutation", []string{"litefs", "internal"}, rawOS,
		[]string{`litefs\.\(\*FileBackupClient\)\..*`, `internal\.\(\*SystemOS\)\..*`}, 12,
		"in packages litefs and internal, direct os.* mutations occur only in FileBackupClient (backup directory) and the SystemOS shim",
		"crash points are defined on the injectable OS interface; a mutation that bypasses it is neither observable nor ordered by the protocol")

	// ---- C05.open-seq ----
	op := "litefs.(*DB).Open"
	call := func(n string) IM { return p.PlainCalls("litefs.(*DB)." + n) }
	noLTX := GP(`("" == litefs.(*DB).maxLTXFile(p0, @@)#0)`, true)
	c.Before("open-seq/header-before-recover", op, call("recover"), call("initFromDatabaseHeader"), 1,
		"initFromDatabaseHeader precedes recover", "rollback and checkpoint need the page size read from the header")
	c.BeforeG("open-seq/waltrim-before-recover", op, call("recover"), call("syncWALToLTX"), gs(noLTX), 1,
		"unless no LTX file exists, the WAL is cut back to the newest LTX file before recover checkpoints it", "frames past the newest LTX file would be checkpointed into the database although no transaction file describes them")
	c.NoPath("open-seq/no-waltrim-after-recover", op, call("recover"), call("syncWALToLTX"), 1, "syncWALToLTX never runs after recover", "trimming after the checkpoint is too late")
	c.Expect("open-seq/waltrim-arg", strings.Join(c.CallArgs(op, call("syncWALToLTX"), 2), ";"), pat("litefs.(*DB).maxLTXFile(p0, @@)#0"),
		"syncWALToLTX is given the newest LTX file", "trimming against an older file cuts committed transactions")
	c.Before("open-seq/shm-removed-before-recover", op, call("recover"), c.osCall("Remove", "litefs.(*DB).SHMPath(p0)"), 1,
		"the SHM file is removed before recover", "a stale wal-index would let SQLite read frames LiteFS has checkpointed away")
	c.Before("open-seq/recover-before-checksums", op, call("initDatabaseFile"), call("recover"), 1,
		"recover precedes initDatabaseFile", "page checksums must describe the rolled-back, checkpointed file")
	c.Before("open-seq/checksums-before-apply", op, call("ApplyLTXNoLock"), call("initDatabaseFile"), 1,
		"initDatabaseFile precedes the re-apply of the newest LTX", "the re-apply verifies the post-apply checksum against the page checksums")
	c.Before("open-seq/lock-before-apply", op, call("ApplyLTXNoLock"), call("AcquireWriteLock"), 1,
		"AcquireWriteLock precedes ApplyLTXNoLock", "ApplyLTXNoLock requires the caller to hold the write lock set")
	c.BeforeG("open-seq/newest-ltx-reapplied", op, p.SuccessReturn, call("ApplyLTXNoLock"), gs(noLTX), 1,
		"unless no LTX file exists, every success exit of Open has re-applied the newest LTX file", "a crash between LTX publication and journal/WAL commit is healed only by this re-apply; without it position and image disagree")
	c.Expect("open-seq/apply-args", strings.Join(c.CallArgs(op, call("ApplyLTXNoLock"), 1), ";")+" / "+strings.Join(c.CallArgs(op, call("ApplyLTXNoLock"), 2), ";"),
		pat("litefs.(*DB).maxLTXFile(p0, @@)#0 / false"), "the file re-applied is the newest LTX file, non-fatally", "a fatal apply at open would turn a recoverable state into a crash loop")
	c.ErrHandled("open-seq/errors", op, p.PlainCalls("litefs.(*DB).initFromDatabaseHeader", "litefs.(*DB).maxLTXFile", "litefs.(*DB).syncWALToLTX", "litefs.(*DB).recover", "litefs.(*DB).initDatabaseFile", "litefs.(*DB).AcquireWriteLock", "litefs.(*DB).ApplyLTXNoLock", "litefs.OS.MkdirAll", "litefs.OS.Remove"), nil, 9,
		"every step of Open propagates its error", "a failed recovery step that is ignored opens a database whose image does not match its position")
	rc := "litefs.(*DB).recover"
	c.Before("open-seq/rollback-before-checkpoint", rc, call("CheckpointNoLock"), call("rollbackJournal"), 1,
		"recover rolls the journal back before checkpointing the WAL", "see litefs issue 134: a partial transaction would be checkpointed/applied and then rolled back by SQLite")
	c.Before("open-seq/recover-does-both", rc, p.SuccessReturn, call("CheckpointNoLock"), 1, "every success exit of recover has checkpointed", "an un-checkpointed WAL is left for SQLite to replay differently")
	c.ErrHandled("open-seq/recover-errors", rc, p.PlainCalls("litefs.(*DB).rollbackJournal", "litefs.(*DB).CheckpointNoLock"), nil, 2, "recover propagates both errors", "a failed rollback must stop recovery")

	// ---- WAL/LTX reconciliation at open (syncWALToLTX): the decision table ----
	{
		sw := "litefs.(*DB).syncWALToLTX"
		hd := `ltx\.\(\*Decoder\)\.Header\(.*\)`
		common := []*Guard{
			G(`\(litefs\.OS\.Open\(.*\)#1 == nil\)`, true), G(`\(ltx\.\(\*Decoder\)\.Verify\(.*\) == nil\)`, true),
			G(`os\.IsNotExist\(litefs\.OS\.OpenFile\(.*\)#1\)`, false), G(`\(litefs\.OS\.OpenFile\(.*\)#1 == nil\)`, true),
			G(`\(nil == os\.\(\*File\)\.Stat\(.*\)#1\)`, true),
			G(`\(internal\.ReadFullAt\(.*\)#1 == io\.EOF\)`, false), G(`\(internal\.ReadFullAt\(.*\)#1 == io\.ErrUnexpectedEOF\)`, false), G(`\(internal\.ReadFullAt\(.*\)#1 == nil\)`, true),
		}
		saltEq1 := `\(encoding/binary\.\(bigEndian\)\.Uint32\(.*\[16:\]\) == ` + hd + `\.WALSalt1\)`
		saltEq2 := `\(encoding/binary\.\(bigEndian\)\.Uint32\(.*\[20:\]\) == ` + hd + `\.WALSalt2\)`
		rn := p.PlainCalls("litefs.OS.Rename")
		c.OnlyGuards("wal-sync/stale-wal-set-aside", sw, rn, append(append([]*Guard{}, common...), G(saltEq1, false), G(saltEq1, true), G(saltEq2, false)), 1,
			"a WAL whose salts differ from the newest LTX file's is set aside whenever the WAL exists and its header could be read - under no further condition (in particular also when the newest LTX carries no WAL position)", "after a journal-mode commit, import or snapshot the newest LTX has zero salts: a WAL with frames of an uncaptured transaction must not survive into the recovery checkpoint, or the database cannot be opened again")
		c.GuardedPaths("wal-sync/set-aside-only-on-mismatch", sw, rn, [][]*Guard{{G(saltEq1, false), G(saltEq2, false)}}, 1, "... and only when a salt differs", "")
		tr := p.PlainCalls("os.(*File).Truncate")
		c.OnlyGuards("wal-sync/longer-wal-cut", sw, tr, append(append([]*Guard{}, common...), G(saltEq1, true), G(saltEq2, true),
			G(`\(os\.FileInfo\.Size\(.*\) < `+hd+`\.WALOffset\)`, false), G(`\(\(`+hd+`\.WALOffset \+ `+hd+`\.WALSize\) < os\.FileInfo\.Size\(.*\)\)`, true)), 1,
			"a matching WAL that is longer than WALOffset+WALSize of the newest LTX file is cut back to that size - under no further condition", "frames past the last captured transaction belong to a transaction without an LTX file")
		c.ExpectAll("wal-sync/cut-size", c.CallArgs(sw, tr, 1), pat("(ltx.(*Decoder).Header(@@).WALOffset + ltx.(*Decoder).Header(@@).WALSize)"), 1, "the size cut to is WALOffset+WALSize", "")
		c.EdgeReturns("wal-sync/short-wal-fails", sw, G(`\(os\.FileInfo\.Size\(.*\) < `+hd+`\.WALOffset\)`, true), `fmt\.Errorf\(.*`, 1, "a matching WAL shorter than the last captured transaction's offset is an error", "")
		c.ErrHandled("wal-sync/ltx-verified", sw, p.PlainCalls("ltx.(*Decoder).Verify"), Any(rn, tr), 1, "the newest LTX file is verified before the WAL is touched", "")
	}

	c.rollbackFamily("rollback")
	trunc := call("truncateDatabase")

	// ---- C05.checkpoint ----
	ck := "litefs.(*DB).CheckpointNoLock"
	twal := call("TruncateWAL")
	c.NoPath("checkpoint/no-copy-after-waltruncate", ck, twal, Any(call("writeDatabasePage"), trunc), 1,
		"no page copy or resize after the WAL is truncated", "the WAL is the only copy of the pages until they are in the database file")
	c.BeforeG("checkpoint/resize-before-waltruncate", ck, twal, trunc, gs(GP("(0 < builtin.len(litefs.(*DB).readWALPageOffsets(@@)#0))", false)), 1,
		"when pages were copied, truncateDatabase(commit) (which fsyncs) precedes TruncateWAL", "truncating the WAL before the copied pages are durable loses committed transactions on a crash")
	c.ExpectAll("checkpoint/resize-size", c.CallArgs(ck, trunc, 2), pat("litefs.(*DB).readWALPageOffsets(@@)#1"), 1, "the database is resized to the last commit frame's size", "size from the commit frame (C03/C17)")
	c.After("checkpoint/shm-rewritten", ck, twal, call("updateSHM"), nil, 1, "after the WAL is truncated every success exit rewrites the SHM header", "SQLite readers would index frames that no longer exist")
	c.After("checkpoint/walchksums-reset", ck, twal, p.Writes("litefs.DB.wal.chksums"), nil, 1, "after the WAL is truncated the WAL page-checksum overlay is cleared", "C04: checksums of frames that no longer exist would override the database's")
	c.ckptCopiesAll("checkpoint")
	c.EdgeReturns("checkpoint/missing-database-is-skipped", ck, GP("os.IsNotExist(litefs.OS.OpenFile(p0.os, @@DatabasePath@@)#1)", true), "nil", 1,
		"a WAL without a database file (left by a connection opened before a drop) is not an error: the checkpoint is skipped", "recovery runs the checkpoint at every start: a WAL created after a drop would make every later start fail (the journal twin of this was F46)")
	c.ExpectAll("checkpoint/truncate-arg", c.CallArgs(ck, twal, 2), "0", 1, "the WAL is truncated to zero", "")
	c.ErrHandled("checkpoint/errors", ck, p.PlainCalls("litefs.(*DB).readWALPageOffsets", "litefs.(*DB).writeDatabasePage", "litefs.(*DB).truncateDatabase", "litefs.(*DB).TruncateWAL", "litefs.(*DB).updateSHM", "io.ReadFull", "os.(*File).Seek"), nil, 7,
		"every step of CheckpointNoLock propagates its error", "a failed page copy followed by WAL truncation loses the page")
	td := "litefs.(*DB).truncateDatabase"
	c.After("checkpoint/truncate-syncs", td, p.PlainCalls("os.(*File).Truncate"), p.PlainCalls("os.(*File).Sync"), nil, 1,
		"truncateDatabase fsyncs the file after resizing it on every success exit", "wrapper summary used above: 'truncateDatabase syncs'")
	c.ExpectAll("checkpoint/page-invalidate", c.CallArgs(ck, call("writeDatabasePage"), 4), "true", 1, "checkpointed pages invalidate the kernel page cache", "C01: replicas read stale pages")

	// ---- C05.wal-trim ----
	sw := "litefs.(*DB).syncWALToLTX"
	wtrunc := p.PlainCalls("os.(*File).Truncate")
	hdr := "ltx.(*Decoder).Header(ltx.NewDecoder(litefs.OS.Open(p0.os, @@, p2)#0))"
	c.Guarded("wal-trim/truncate-salt1", sw, wtrunc, gs(GP("(encoding/binary.(bigEndian).Uint32(@@[16:]) == "+hdr+".WALSalt1)", true)), 1, "the WAL is cut only when salt-1 matches the LTX header", "cutting a restarted WAL at an old offset destroys newer frames")
	c.Guarded("wal-trim/truncate-salt2", sw, wtrunc, gs(GP("(encoding/binary.(bigEndian).Uint32(@@[20:]) == "+hdr+".WALSalt2)", true)), 1, "the WAL is cut only when salt-2 matches the LTX header", "")
	c.Guarded("wal-trim/truncate-longer", sw, wtrunc, gs(GP("(("+hdr+".WALOffset + "+hdr+".WALSize) < os.FileInfo.Size(@@))", true)), 1, "the WAL is cut only when it is longer than offset+size of the newest LTX", "never extend the WAL")
	c.ExpectAll("wal-trim/truncate-size", c.CallArgs(sw, wtrunc, 1), pat("("+hdr+".WALOffset + "+hdr+".WALSize)"), 1, "the WAL is cut to WALOffset+WALSize of the newest LTX file", "frames of the last published transaction must survive; later ones must not")
	c.Before("wal-trim/verify-first", sw, p.PlainCalls("ltx.(*Decoder).Header"), p.PlainCalls("ltx.(*Decoder).Verify"), 3, "the LTX file is verified before its header fields are used", "a torn newest LTX file must fail Open rather than steer the WAL cut")
	c.Guarded("wal-trim/rename-aside-on-mismatch", sw, p.PlainCalls("litefs.OS.Rename"),
		gs(GP("(encoding/binary.(bigEndian).Uint32(@@[16:]) == "+hdr+".WALSalt1)", false), GP("(encoding/binary.(bigEndian).Uint32(@@[20:]) == "+hdr+".WALSalt2)", false)), 1,
		"the WAL is renamed aside only on a salt mismatch", "a matching WAL holds the frames of the newest transaction")
	c.ErrHandled("wal-trim/errors", sw, p.PlainCalls("ltx.(*Decoder).Verify", "os.(*File).Truncate", "litefs.OS.Rename", "os.(*File).Stat"), nil, 4, "errors of verify/truncate/rename/stat are propagated", "")

	// ---- C05.maxltx ----
	ml := "litefs.(*DB).maxLTXFile"
	pf := "ltx.ParseFilename(os.DirEntry.Name(@@))"
	c.Guarded("maxltx/skip-unparsable", ml, p.PlainCalls("path/filepath.Join"), gs(GP("("+pf+"#2 == nil)", true)), 1,
		"a directory entry becomes the candidate only if ltx.ParseFilename accepts its name (so *.tmp files are ignored)", "a temp file mistaken for the newest transaction is re-applied at open")
	c.Guarded("maxltx/keep-maximum", ml, p.PlainCalls("path/filepath.Join"), gs(GP("(phi(0|"+pf+"#1) < "+pf+"#1)", true)), 1,
		"the candidate replaces the current one only when its max TXID is larger", "Open must re-apply the NEWEST file")

	c.journalValidity("rollback/journal-table")

	// a received snapshot discards newer stale files before the image moves
	pl := "litefs.(*Store).processLTXStreamFrame"
	c.BeforeG("pub/processLTXStreamFrame/snapshot-reset-before-apply", pl, call("ApplyLTXNoLock"), p.PlainCalls("litefs.removeFilesExcept"), gs(GP("ltx.(*Header).IsSnapshot(&new(ltx.Header))", false)), 1,
		"a received snapshot removes all other LTX files before it is applied", "Open recovers to the HIGHEST TXID on disk: a crash during the snapshot apply with stale higher-numbered files still present re-applies a file of the abandoned history over the snapshot image; every restart then fails")

	c.divGuards("div")
}

// rollbackFamily: structure of rollbackJournal (shared by C05 and C17).
func (c *Ctx) rollbackFamily(prefix string) {
	p := c.P
	call := func(n string) IM { return p.PlainCalls("litefs.(*DB)." + n) }
	// ---- C05.rollback ----
	rb := "litefs.(*DB).rollbackJournal"
	trunc := call("truncateDatabase")
	seg := call("rollbackJournalSegment")
	rmJournal := c.osCall("Remove", "litefs.(*DB).JournalPath(p0)")
	c.Expect(prefix+"/valid-means-header-read", strings.Join(c.returnsOf("litefs.(*JournalReader).IsValid"), ";"), pat("p0.isValid"),
		"JournalReader.IsValid reports exactly whether a journal header was read - nothing about the size it holds", "a journal of the first transaction of a database records size 0: rollback must still resize the file to it, or the uncommitted pages stay")
	c.EveryIterationG(prefix+"/role-change-recovers-every-database", "litefs.(*Store).Recover",
		G(`^\(\(phi\(-1\) \+ 1\) < builtin\.len\(litefs\.\(\*Store\)\.DBs\(p0\)\)\)$`, true), c.P.PlainCalls("litefs.(*DB).Recover"), 1,
		"the recovery that runs at every role change recovers every database the store knows - under no condition on the database", "a database with no committed page (new, or dropped and re-created) can hold the hot journal of its first transaction: skipped, the uncommitted pages stay")
	c.Guarded(prefix+"/truncate-valid-only", rb, trunc, gs(GP("litefs.(*JournalReader).IsValid(@@)", true)), 1,
		"the database is resized only when a valid journal header was read", "resizing to a zero/garbage size destroys the database")
	{
		// with a valid journal the resize always happens before the database is synced
		fn := c.F(rb)
		key, rule := prefix+"/truncate-always-when-valid", "K1 Before (under assumed branch)"
		desc := "whenever the journal was valid, rollbackJournal resizes the database before syncing it - under no further condition"
		if c.need(key, rule, desc, fn, rb) {
			invalid := p.EdgesAsserting(GP("litefs.(*JournalReader).IsValid(@@)", false))
			if f := (&Search{P: p, Fn: fn, From: Instrs(fn, p.PlainCalls("litefs.(*JournalReader).IsValid")), Avoid: trunc, Block: invalid, Tgt: c.fileCall("Sync", "DatabasePath")}).Run(); f != nil {
				c.fail(key, rule, desc, "rollback restores exactly the pre-transaction size: the in-memory page count is not the file size after a growing transaction spilled pages", "the sync at "+c.where(f.Instr)+" is reachable with a valid journal and no resize; path "+p.TraceString(f.Trace), 1)
			} else {
				c.ok(key, rule, desc, 1)
			}
		}
	}
	c.ExpectAll(prefix+"/truncate-size", c.CallArgs(rb, trunc, 2), pat("litefs.NewJournalReader(@@).commit"), 1, "the size restored is the journal header's initial database size", "C17: rollback restores exactly the pre-transaction size")
	c.NoPath(prefix+"/no-copy-after-truncate", rb, trunc, seg, 1, "no journal page is copied back after the resize", "pages beyond the restored size would be re-extended")
	noDB := GP("os.IsNotExist(litefs.OS.OpenFile(p0.os, @@DatabasePath@@)#1)", true)
	c.BeforeG(prefix+"/sync-before-unlink", rb, rmJournal, c.fileCall("Sync", "DatabasePath"), gs(noDB), 1,
		"the database file is fsynced before the journal is removed (unless there is no database file: the journal of a dropped database)", "removing the journal commits the rollback; the restored pages must be durable first")
	c.AfterEdge(prefix+"/journal-of-dropped-database-removed", rb, noDB, rmJournal, func(in ssa.Instruction) bool {
		r, ok := in.(*ssa.Return)
		return ok && len(r.Results) == 1 && p.Render(returnedValue(r, 0)) == "nil"
	}, 1, "a journal whose database file does not exist is removed: recovery does not fail on it and never returns success with the journal left behind",
		"F46: a journal created after a drop (by a connection opened before it) made every later start fail in recovery")
	c.NoPathFromEdge(prefix+"/missing-database-not-an-error", rb, noDB, func(in ssa.Instruction) bool {
		r, ok := in.(*ssa.Return)
		return ok && len(r.Results) == 1 && strings.Contains(p.Render(returnedValue(r, 0)), "DatabasePath(p0)") && strings.HasSuffix(p.Render(returnedValue(r, 0)), "#1")
	}, 1, "the 'no such file' error of the database open is never returned", "")
	c.NoPathFromEdge(prefix+"/no-database-nothing-restored", rb, noDB, Any(seg, trunc), 1, "without a database file nothing is copied back or resized", "")
	c.NoPath(prefix+"/no-write-after-unlink", rb, rmJournal, Any(seg, trunc), 1, "nothing is written to the database after the journal is removed", "a crash would leave a half-restored database without a journal")
	c.BeforeG(prefix+"/journal-removed", rb, p.SuccessReturn, rmJournal, gs(GP("os.IsNotExist(litefs.OS.OpenFile(p0.os, @@JournalPath@@)#1)", true)), 1,
		"unless no journal exists, every success exit has removed the journal", "a hot journal left behind is replayed by SQLite against a database LiteFS has already moved on")
	c.Before(prefix+"/invalidate-after-unlink", rb, p.PlainCalls("litefs.Invalidator.InvalidateEntry"), rmJournal, 1, "the kernel entry cache is invalidated after the unlink", "invalidate-then-unlink lets the kernel re-cache the entry")
	c.ErrHandled(prefix+"/errors", rb, p.PlainCalls("litefs.(*JournalReader).Next", "litefs.(*DB).rollbackJournalSegment", "litefs.(*DB).truncateDatabase", "os.(*File).Sync", "os.(*File).Close", "litefs.OS.Remove", "litefs.OS.OpenFile"), nil, 8,
		"every step of rollbackJournal propagates its error", "a failed page restore followed by journal removal corrupts the database")
	c.ExpectAll(prefix+"/segment-invalidate", c.CallArgs("litefs.(*DB).rollbackJournalSegment", call("writeDatabasePage"), 4), "true", 1, "rolled-back pages invalidate the kernel page cache", "stale cached pages of the aborted transaction stay visible")

}

// shortDatabaseTolerated (C05, C16): at start-up a database file that ends
// early - on a page boundary (io.EOF) or inside a page (io.ErrUnexpectedEOF) -
// is not an error: the newest LTX file is re-applied afterwards.
func (c *Ctx) shortDatabaseTolerated(prefix string) {
	p := c.P
	idf := "litefs.(*DB).initDatabaseFile"
	cp := `ltx\.ChecksumPages\(.*\)#1`
	notEOF := G(`^\(`+cp+` == io\.EOF\)$|^\(io\.EOF == `+cp+`\)$|^errors\.Is\(`+cp+`, io\.EOF\)$`, false)
	notUEOF := G(`^\(`+cp+` == io\.ErrUnexpectedEOF\)$|^\(io\.ErrUnexpectedEOF == `+cp+`\)$|^errors\.Is\(`+cp+`, io\.ErrUnexpectedEOF\)$`, false)
	c.GuardedPaths(prefix+"/short-database-tolerated", idf, func(in ssa.Instruction) bool {
		r, ok := in.(*ssa.Return)
		return ok && len(r.Results) == 1 && strings.Contains(p.Render(returnedValue(r, 0)), "ChecksumPages")
	}, [][]*Guard{{notEOF}, {notUEOF}}, 1,
		"initDatabaseFile fails on a checksum-scan error only when it is neither io.EOF nor io.ErrUnexpectedEOF",
		"a kill inside the write of a page (import, apply) leaves a file ending inside a page: the node must start and re-apply the newest LTX file, not fail for good")
}

package main

func init() {
	register(&Property{
		ID:    "C05",
		Level: "other",
		Run:   c05,
		Explanation: "Static decision of the durability PROTOCOL behind crash recovery: for each of the seven functions that publish a file by rename (discovered from every OS.Rename call and compared with the confirmed table) the temp-name, content-complete, fsync, rename, directory-fsync order, the error discipline of each step and 'in-memory state advances only after the directory sync' are decided on every path of the go/ssa control-flow graph; plus publish-before-invalidate in CommitJournal/Drop, ownership of file-system mutations by the injectable OS interface, the partial order of DB.Open / recover / rollbackJournal / CheckpointNoLock, the WAL trim guards of syncWALToLTX, and the divisor guards of the journal reader that Open depends on.",
		NotDecided: "the outcome of recovery at each individual crash point (file contents, torn writes, kernel fsync semantics) - a runtime exploration that this family cannot perform.",
		Assumptions: []string{
			"go/packages + go/ssa (x/tools v0.29.0) represent /repo's source faithfully",
			"os.(*File).Sync and internal.Sync make file contents / directory entries durable",
			"values are identified by rendered origin; two calls with identical rendered arguments are treated as the same value",
		},
	})
}

func c05(c *Ctx) {
	c.ltxPublication()
}

package main

import (
	"fmt"
	"go/token"
	"strings"

	"golang.org/x/tools/go/ssa"
)

func init() {
	register(&Property{
		ID:    "C09",
		Level: "other",
		Run:   c09,
		Explanation: "Chain invariants as structure: every local creator of a transaction file writes TXID = previous+1 and pre-checksum = previous post-checksum (header provenance of the four creators), files become visible only by rename from a .tmp name and every directory listing used for decisions ignores names that do not parse as transaction files, a received or forwarded file must extend the exact current position and pass verification before publication, a snapshot removes all other files, and the retention sweep's delete decision is extracted by path enumeration with phi resolution and compared with the confirmed formula: never the newest file, only files older than the retention period and, when a backup client is configured, only files below the high-water mark read once before the sweep.",
		NotDecided: "chain validity after arbitrary mixed histories; races of a sweep with a stream reading an old file; timing of backup acknowledgements.",
		Assumptions: []string{"go/ssa faithfully represents the source", "ltx.ParseFilename accepts exactly names of the form <min>-<max>.ltx"},
	})
}

func c09(c *Ctx) {
	p := c.P
	// ---- create ----
	c.ltxHeaders("litefs.(*DB).CommitWAL", "litefs.(*DB).CommitJournal", "litefs.(*DB).Drop", "litefs.(*DB).importToLTX")
	// ---- tmp names (P1 of the publication protocol) + listings ----
	c.ltxPublicationNames()
	rl := "litefs.(*DB).ReadLTXDir"
	// (ReadLTXDir's own filtering of unparsable names is no longer required: since F26 its only consumer,
	// EnforceRetention, skips such names itself in both of its loops - see retention/decision and
	// retention/latest-selection - so an edit that drops the filter leaves behaviour unchanged.)
	c.Before("tmp/ReadLTXDir-sorted", rl, func(in ssaInstr) bool { return p.SuccessReturn(in) && len(Instrs(in.Parent(), p.PlainCalls("sort.Slice"))) > 0 && in.Block().Index > 3 }, p.PlainCalls("sort.Slice"), 1,
		"the listing is sorted by name before it is returned", "retention's 'newest file' is the last element")
	c.Expect("tmp/ReadLTXDir-order", joinS(c.returnsOf(c.closureArgName(rl, p.PlainCalls("sort.Slice"), 1))), pat("(os.DirEntry.Name(@@[p0]) < os.DirEntry.Name(@@[p1]))"), "sorted ascending by file name (zero-padded hex TXIDs: by TXID)", "")
	fp := "litefs.(*FileBackupClient).pos"
	c.Guarded("tmp/backup-pos-ltx-only", fp, p.PlainCalls("os.Open"), gs(GP(`(".ltx" == path/filepath.Ext(os.DirEntry.Name(@@)))`, true), GP(`("" == phi(@@))`, false)), 1, "the file backup client derives its position only from *.ltx files", "")
	ml := "litefs.(*DB).maxLTXFile"
	pf := "ltx.ParseFilename(os.DirEntry.Name(@@))"
	c.Guarded("tmp/maxltx-skip-unparsable", ml, p.PlainCalls("path/filepath.Join"), gs(GP("("+pf+"#2 == nil)", true)), 1, "maxLTXFile ignores names that do not parse", "")

	// ---- accept / snapshot reset (shared with C06) ----
	c.acceptFamily()
	c.chainResetFamily()

	// ---- retention ----
	er := "litefs.(*DB).EnforceRetention"
	ents := "litefs.(*DB).ReadLTXDir(p0)#0"
	rm := p.PlainCalls("litefs.OS.Remove")
	maxTX := "ltx.ParseFilename(io/fs.DirEntry.Name(" + ents + "[@@]))#1"
	c.GuardedPaths("retention/decision", er, rm, [][]*Guard{
		{GP("(nil == p0.store.BackupClient)", true), GP("("+maxTX+" < litefs.(*DB).HWM(p0))", true)},
		{GP("time.(Time).Before(io/fs.FileInfo.ModTime(io/fs.DirEntry.Info("+ents+"[@@])#0), p2)", true)},
		{GP("(ltx.ParseFilename(io/fs.DirEntry.Name("+ents+"[@@]))#2 == nil)", true)},
	}, 1, "a file is removed only if it is older than the retention cut-off, parses as a transaction file and - when a backup client is configured - its max TXID is below the high-water mark",
		"retention never removes the newest file and never removes a file the backup service has not yet confirmed; '<=' for '<' on the HWM deletes the file the backup may still need as the base of the next upload")
	c.retentionLatest(er, rm)
	c.ExpectAll("retention/removed-file", c.CallArgs(er, rm, 2), pat("path/filepath.Join([litefs.(*DB).LTXDir(p0), io/fs.DirEntry.Name("+ents+"[@@])])"), 1, "the file removed is the entry examined, inside the LTX directory", "")
	c.Before("retention/hwm-read-once", er, p.PlainCalls("litefs.(*DB).ReadLTXDir"), p.PlainCalls("litefs.(*DB).HWM"), 1, "the high-water mark is read once before the listing", "a mark read after listing could already cover files uploaded later than the listing was taken (benign) - reading it per file is the only unsafe variant: keep the single read")
	c.OnlyInScope("retention/ltx-removers", []string{"litefs"}, func(in ssaInstr) bool {
		return rm(in) && containsAny(c.argR(in, 2), "LTXDir", "LTXPath") && !containsAny(c.argR(in, 2), ".tmp")
	}, []string{pat(er)}, 1, "the only code that removes individual LTX files is the retention sweep (snapshots clear the directory through removeFilesExcept)", "")
	se := "litefs.(*Store).EnforceRetention"
	c.Guarded("retention/disabled", se, p.PlainCalls(er), gs(GP("(0 < p0.Retention)", true)), 1, "no sweep when Retention <= 0", "a zero retention would delete everything but the newest file immediately")
	c.ExpectAll("retention/cutoff", c.CallArgs(se, p.PlainCalls(er), 2), pat("time.(Time).UTC(time.(Time).Add(time.Now(), -p0.Retention))"), 1, "the cut-off is now - Retention", "")

	// ---- hwm provenance (shared with C14) ----
	c.hwmFamily("hwm")
}

func joinS(a []string) string {
	s := ""
	for i, x := range a {
		if i > 0 {
			s += ";"
		}
		s += x
	}
	return s
}

func containsAny(s string, subs ...string) bool {
	for _, x := range subs {
		if len(x) > 0 && len(s) >= len(x) {
			for i := 0; i+len(x) <= len(s); i++ {
				if s[i:i+len(x)] == x {
					return true
				}
			}
		}
	}
	return false
}

// hwmFamily: the high-water mark is set only from what the backup service
// acknowledged (primary) or what the primary streamed (replica) - C09, C14.
func (c *Ctx) hwmFamily(prefix string) {
	p := c.P
	set := p.Calls("litefs.(*DB).SetHWM")
	c.OnlyIn(prefix+"/setters", set, []string{pat("litefs.(*Store).streamBackupDB"), pat("litefs.(*Store).streamBackupDBSnapshot"), pat("litefs.(*Store).monitorLeaseAsReplica"), pat("litefs.(*Store).restoreDBFromBackup")}, 4,
		"SetHWM is called only by the two backup upload paths, the restore from the service and the replica's HWM frame handler", "")
	{
		rb := "litefs.(*Store).restoreDBFromBackup"
		c.ExpectAll(prefix+"/restore/origin", c.CallArgs(rb, set, 1), pat("litefs.(*DB).Pos(litefs.(*Store).CreateDBIfNotExists(p0, p2)#0).TXID"), 1, "after a restore the mark is the restored position's TXID (what the service holds)", "a mark kept from the abandoned history exceeds what the service has: retention may remove files it never received")
		c.Before(prefix+"/restore/after-apply", rb, set, p.PlainCalls("litefs.(*DB).ApplyLTXNoLock"), 1, "... read after the snapshot was applied", "")
		c.Before(prefix+"/restore/always", rb, p.SuccessReturn, set, 1, "every successful restore sets it", "")
	}
	c.OnlyIn(prefix+"/field", p.Writes("litefs.DB.hwm"), []string{pat("litefs.(*DB).SetHWM")}, 1, "DB.hwm is written only by SetHWM", "")
	c.OnlyGuards(prefix+"/set-unconditional", "litefs.(*DB).SetHWM", p.Writes("litefs.DB.hwm"), nil, 1, "SetHWM stores the mark under no condition (it follows the service down as well as up)", "a mark that only moves forward stays above what a rolled-back or replaced service acknowledges: retention then deletes files the service never received")
	c.ExpectAll(prefix+"/set-stores-argument", c.CallArgs("litefs.(*DB).SetHWM", p.Writes("litefs.DB.hwm"), 1), pat("p1"), 1, "the value stored is the argument", "")
	c.Expect(prefix+"/get-reads-field", strings.Join(c.returnsOf("litefs.(*DB).HWM"), ";"), pat("sync/atomic.(*Uint64).Load(&p0.hwm)"), "HWM() returns the stored mark", "")
	for _, f := range []string{"litefs.(*Store).streamBackupDB", "litefs.(*Store).streamBackupDBSnapshot"} {
		short := f[len("litefs.(*Store)."):]
		c.ExpectAll(prefix+"/"+short+"/origin", c.CallArgs(f, set, 1), pat("litefs.BackupClient.WriteTx(p0.BackupClient, @@)#0"), 1, "the mark set is the value returned by BackupClient.WriteTx", "the published high-water mark never exceeds what the service has acknowledged")
		c.Guarded(prefix+"/"+short+"/only-on-success", f, set, gs(GP("(litefs.BackupClient.WriteTx(p0.BackupClient, @@)#1 == nil)", true)), 1, "the mark is set only when WriteTx returned no error", "")
	}
	mr := "litefs.(*Store).monitorLeaseAsReplica"
	c.ExpectAll(prefix+"/replica/origin", c.CallArgs(mr, set, 1), pat("litefs.ReadStreamFrame(@@)#0.(*litefs.HWMStreamFrame)#0.TXID"), 1, "a replica adopts the TXID of the HWM frame", "")
	sl := "http.(*Server).streamLTX"
	fn := c.F(sl)
	if fn != nil {
		for _, in := range Instrs(fn, p.CallWhere("litefs.WriteStreamFrame", "HWMStreamFrame")) {
			f := p.FieldsAt(callVals(in)[1], in)
			c.Expect(prefix+"/primary-sends-own", f["Name"]+" | "+f["TXID"], pat("litefs.(*DB).Name(p3) | litefs.(*DB).HWM(p3)"), "the primary streams its own current mark for the same database", "")
		}
	}
}

// retentionLatest decides, by value identity on go/ssa, (1) that EnforceRetention
// removes a file only on the false edge of "index == latest", and (2) that
// "latest" is (re)assigned the current index only when none is selected yet,
// or the entry's max TXID is higher, or the max TXID is equal and its min TXID
// is lower. Names sort by min TXID, so the last directory entry is not the
// latest while a snapshot sits next to the files it replaces.
func (c *Ctx) retentionLatest(er string, rm IM) {
	p := c.P
	rule := "K2 Guarded (value identity on go/ssa)"
	d1 := "a file is removed only when its index differs from the entry selected as latest"
	d2 := "the latest entry is (re)selected only when none is selected yet, or its max TXID is higher, or the max TXID is equal and its min TXID is lower"
	why := "retention never removes the newest file: protecting the last directory entry protects a stale file while a snapshot is being published, and the snapshot itself is swept"
	fn := c.F(er)
	if !c.need("retention/not-latest", rule, d1, fn, er) {
		return
	}
	isParse := func(v ssa.Value, idx int) bool {
		e, ok := v.(*ssa.Extract)
		if !ok || e.Index != idx {
			return false
		}
		call, ok := e.Tuple.(*ssa.Call)
		return ok && p.CalleeName(&call.Call) == "ltx.ParseFilename"
	}
	var latest, latestMax, latestMin *ssa.Phi
	var upd []*ssa.BasicBlock
	for _, b := range fn.Blocks {
		for _, in := range b.Instrs {
			phi, ok := in.(*ssa.Phi)
			if !ok {
				continue
			}
			hasM1, hasIdx, hasMax, hasMin := false, false, false, false
			for _, e := range phi.Edges {
				if k, ok := e.(*ssa.Const); ok && k.Value != nil && k.Value.ExactString() == "-1" {
					hasM1 = true
				}
				if bo, ok := e.(*ssa.BinOp); ok && bo.Op == token.ADD {
					hasIdx = true
				}
				hasMax = hasMax || isParse(e, 1)
				hasMin = hasMin || isParse(e, 0)
			}
			switch {
			case hasM1 && hasIdx && latest == nil:
				latest = phi
				for i, e := range phi.Edges {
					if bo, ok := e.(*ssa.BinOp); ok && bo.Op == token.ADD {
						upd = append(upd, b.Preds[i])
					}
				}
			case hasMax && latestMax == nil:
				latestMax = phi
			case hasMin && latestMin == nil:
				latestMin = phi
			}
		}
	}
	if latest == nil || latestMax == nil || latestMin == nil || len(upd) == 0 {
		c.fail("retention/not-latest", rule, d1, why, "no selection of a latest entry (index, max TXID, min TXID carried through a loop) found in EnforceRetention", 0)
		return
	}
	// classify the conditions
	type edge = Edge
	var c1T, c2T, c3T, c4T []edge
	protectConds := map[ssa.Value]bool{}
	isM1 := func(v ssa.Value) bool {
		k, ok := v.(*ssa.Const)
		return ok && k.Value != nil && k.Value.ExactString() == "-1"
	}
	for _, b := range fn.Blocks {
		if len(b.Instrs) == 0 {
			continue
		}
		iff, ok := b.Instrs[len(b.Instrs)-1].(*ssa.If)
		if !ok {
			continue
		}
		bo, ok := iff.Cond.(*ssa.BinOp)
		if !ok {
			continue
		}
		X, Y := bo.X, bo.Y
		pair := func(a, b2 func(ssa.Value) bool) bool { return (a(X) && b2(Y)) || (a(Y) && b2(X)) }
		isLatest := func(v ssa.Value) bool { return v == ssa.Value(latest) }
		isLMax := func(v ssa.Value) bool { return v == ssa.Value(latestMax) }
		isLMin := func(v ssa.Value) bool { return v == ssa.Value(latestMin) }
		isIdx := func(v ssa.Value) bool { b3, ok := v.(*ssa.BinOp); return ok && b3.Op == token.ADD }
		curMax := func(v ssa.Value) bool { return isParse(v, 1) }
		curMin := func(v ssa.Value) bool { return isParse(v, 0) }
		T, F := edge{b, 0}, edge{b, 1}
		switch bo.Op {
		case token.EQL, token.NEQ:
			if bo.Op == token.NEQ {
				T, F = F, T
			}
			switch {
			case pair(isLatest, isM1):
				c1T = append(c1T, T)
			case pair(isLatest, isIdx):
				protectConds[bo] = true
			case pair(curMax, isLMax):
				c3T = append(c3T, T)
			}
		case token.LSS, token.GTR:
			lo, hi := X, Y // lo < hi
			if bo.Op == token.GTR {
				lo, hi = Y, X
			}
			if isLMax(lo) && curMax(hi) {
				c2T = append(c2T, T)
			}
			if curMin(lo) && isLMin(hi) {
				c4T = append(c4T, T)
			}
		}
	}
	blockOf := func(sets ...[]edge) func(Edge) bool {
		m := map[edge]bool{}
		for _, s := range sets {
			for _, e := range s {
				m[e] = true
			}
		}
		return func(e Edge) bool { return m[e] }
	}
	if len(protectConds) == 0 {
		c.fail("retention/not-latest", rule, d1, why, "no comparison of the loop index with the selected latest entry", 0)
	} else {
		// path enumeration: the outcome of the test feeds a flag (phi), so plain reachability cannot decide it
		bad, n := "", 0
		_, over := p.EnumPaths(fn, rm, 20000, func(facts []PathFact, trace []*ssa.BasicBlock, at ssa.Instruction) {
			n++
			for _, f := range facts {
				if protectConds[f.v] && !f.Val {
					return
				}
			}
			if bad == "" {
				bad = "removal at " + c.where(at) + " reachable on a feasible path on which 'index == latest' was not found false; path " + p.TraceString(trace)
			}
		})
		switch {
		case over:
			c.undecided("retention/not-latest", rule, d1, "more than 20000 paths")
		case bad != "":
			c.fail("retention/not-latest", rule, d1, why, bad, n)
		case n == 0:
			c.fail("retention/not-latest", rule, d1, why, "no feasible path reaches the removal", 0)
		default:
			c.ok("retention/not-latest", rule, d1, n)
		}
	}
	isUpd := func(in ssa.Instruction) bool {
		for _, b := range upd {
			if in.Block() == b && in == b.Instrs[len(b.Instrs)-1] {
				return true
			}
		}
		return false
	}
	if len(c1T) == 0 || len(c2T) == 0 || len(c3T) == 0 || len(c4T) == 0 {
		c.fail("retention/latest-selection", rule, d2, why, fmt.Sprintf("selection conditions found: none-yet=%d higher-max=%d equal-max=%d lower-min=%d (each must be present)", len(c1T), len(c2T), len(c3T), len(c4T)), 0)
		return
	}
	for _, alt := range [][]edge{c3T, c4T} {
		if f := (&Search{P: p, Fn: fn, Block: blockOf(c1T, c2T, alt), Tgt: isUpd}).Run(); f != nil {
			c.fail("retention/latest-selection", rule, d2, why, "the latest entry is re-selected on a path that establishes none of the three conditions; path "+p.TraceString(f.Trace), 1)
			return
		}
	}
	c.ok("retention/latest-selection", rule, d2, 4)
}

package main

import "strings"

func init() {
	register(&Property{
		ID:    "C09",
		Level: "other",
		Run:   c09,
		Explanation: "Chain invariants as structure: every local creator of a transaction file writes TXID = previous+1 and pre-checksum = previous post-checksum (header provenance of the four creators), files become visible only by rename from a .tmp name and every directory listing used for decisions ignores names that do not parse as transaction files, a received or forwarded file must extend the exact current position and pass verification before publication, a snapshot removes all other files, and the retention sweep's delete decision is extracted by path enumeration with phi resolution and compared with the confirmed formula: never the newest file, only files older than the retention period and, when a backup client is configured, only files below the high-water mark read once before the sweep.",
		NotDecided: "chain validity after arbitrary mixed histories; races of a sweep with a stream reading an old file; timing of backup acknowledgements.",
		Assumptions: []string{"go/ssa faithfully represents the source", "ltx.ParseFilename accepts exactly names of the form <min>-<max>.ltx"},
	})
}

func c09(c *Ctx) {
	p := c.P
	// ---- create ----
	c.ltxHeaders("litefs.(*DB).CommitWAL", "litefs.(*DB).CommitJournal", "litefs.(*DB).Drop", "litefs.(*DB).importToLTX")
	// ---- tmp names (P1 of the publication protocol) + listings ----
	c.ltxPublicationNames()
	rl := "litefs.(*DB).ReadLTXDir"
	c.Guarded("tmp/ReadLTXDir-filters", rl, p.PlainCalls("builtin.append"), gs(GP("(ltx.ParseFilename(os.DirEntry.Name(@@))#2 == nil)", false)), 1,
		"ReadLTXDir drops exactly the entries whose name ltx.ParseFilename rejects", "temporary files are never mistaken for transactions")
	rd := `litefs.OS.ReadDir(p0.os, "READLTXDIR", litefs.(*DB).LTXDir(p0))`
	c.OnlyGuards("tmp/ReadLTXDir-filters-all", rl, p.PlainCalls("builtin.append"), []*Guard{
		GP("(ltx.ParseFilename(os.DirEntry.Name(@@))#2 == nil)", false), GP("(ltx.ParseFilename(os.DirEntry.Name(@@))#2 == nil)", true),
		GP("os.IsNotExist("+rd+"#1)", false), GP("("+rd+"#1 == nil)", true), G(`\(.* < builtin\.len\(.*\)\)`, true),
	}, 1, "every entry whose name does not parse is dropped - no further condition", "a *.tmp (or any other non-transaction) name kept in the listing is taken for the newest transaction by retention")
	c.ExpectAll("tmp/ReadLTXDir-reexamines-slot", c.CallArgs(rl, p.PlainCalls("ltx.ParseFilename"), 0), pat("os.DirEntry.Name(@@[phi((phi((↺ - 1)) + 1)|0)])"), 1,
		"after an entry was removed in place the loop index is stepped back so that the entry that moved into the slot is examined too", "two adjacent non-transaction names (e.g. two leftover *.tmp files) would otherwise leave the second in the listing, where retention takes it for the newest transaction and deletes the real one")
	c.Before("tmp/ReadLTXDir-sorted", rl, func(in ssaInstr) bool { return p.SuccessReturn(in) && len(Instrs(in.Parent(), p.PlainCalls("sort.Slice"))) > 0 && in.Block().Index > 3 }, p.PlainCalls("sort.Slice"), 1,
		"the listing is sorted by name before it is returned", "retention's 'newest file' is the last element")
	c.Expect("tmp/ReadLTXDir-order", joinS(c.returnsOf(c.closureArgName(rl, p.PlainCalls("sort.Slice"), 1))), pat("(os.DirEntry.Name(@@[p0]) < os.DirEntry.Name(@@[p1]))"), "sorted ascending by file name (zero-padded hex TXIDs: by TXID)", "")
	fp := "litefs.(*FileBackupClient).pos"
	c.Guarded("tmp/backup-pos-ltx-only", fp, p.PlainCalls("os.Open"), gs(GP(`(".ltx" == path/filepath.Ext(os.DirEntry.Name(@@)))`, true), GP(`("" == phi(@@))`, false)), 1, "the file backup client derives its position only from *.ltx files", "")
	ml := "litefs.(*DB).maxLTXFile"
	pf := "ltx.ParseFilename(os.DirEntry.Name(@@))"
	c.Guarded("tmp/maxltx-skip-unparsable", ml, p.PlainCalls("path/filepath.Join"), gs(GP("("+pf+"#2 == nil)", true)), 1, "maxLTXFile ignores names that do not parse", "")

	// ---- accept / snapshot reset (shared with C06) ----
	c.acceptFamily()
	c.chainResetFamily()

	// ---- retention ----
	er := "litefs.(*DB).EnforceRetention"
	ents := "litefs.(*DB).ReadLTXDir(p0)#0"
	rm := p.PlainCalls("litefs.OS.Remove")
	maxTX := "ltx.ParseFilename(io/fs.DirEntry.Name(" + ents + "[@@]))#1"
	c.GuardedPaths("retention/decision", er, rm, [][]*Guard{
		{GP("(@@ == (builtin.len("+ents+") - 1))", false), GP("((builtin.len("+ents+") - 1) == @@)", false)},
		{GP("(nil == p0.store.BackupClient)", true), GP("("+maxTX+" < litefs.(*DB).HWM(p0))", true)},
		{GP("time.(Time).Before(io/fs.FileInfo.ModTime(io/fs.DirEntry.Info("+ents+"[@@])#0), p2)", true)},
		{GP("(ltx.ParseFilename(io/fs.DirEntry.Name("+ents+"[@@]))#2 == nil)", true)},
	}, 1, "a file is removed only if it is not the last (newest) entry, is older than the retention cut-off, parses as a transaction file and - when a backup client is configured - its max TXID is below the high-water mark",
		"retention never removes the newest file and never removes a file the backup service has not yet confirmed; '<=' for '<' on the HWM deletes the file the backup may still need as the base of the next upload")
	c.ExpectAll("retention/removed-file", c.CallArgs(er, rm, 2), pat("path/filepath.Join([litefs.(*DB).LTXDir(p0), io/fs.DirEntry.Name("+ents+"[@@])])"), 1, "the file removed is the entry examined, inside the LTX directory", "")
	c.Before("retention/hwm-read-once", er, p.PlainCalls("litefs.(*DB).ReadLTXDir"), p.PlainCalls("litefs.(*DB).HWM"), 1, "the high-water mark is read once before the listing", "a mark read after listing could already cover files uploaded later than the listing was taken (benign) - reading it per file is the only unsafe variant: keep the single read")
	c.OnlyInScope("retention/ltx-removers", []string{"litefs"}, func(in ssaInstr) bool {
		return rm(in) && containsAny(c.argR(in, 2), "LTXDir", "LTXPath") && !containsAny(c.argR(in, 2), ".tmp")
	}, []string{pat(er)}, 1, "the only code that removes individual LTX files is the retention sweep (snapshots clear the directory through removeFilesExcept)", "")
	se := "litefs.(*Store).EnforceRetention"
	c.Guarded("retention/disabled", se, p.PlainCalls(er), gs(GP("(0 < p0.Retention)", true)), 1, "no sweep when Retention <= 0", "a zero retention would delete everything but the newest file immediately")
	c.ExpectAll("retention/cutoff", c.CallArgs(se, p.PlainCalls(er), 2), pat("time.(Time).UTC(time.(Time).Add(time.Now(), -p0.Retention))"), 1, "the cut-off is now - Retention", "")

	// ---- hwm provenance (shared with C14) ----
	c.hwmFamily("hwm")
}

func joinS(a []string) string {
	s := ""
	for i, x := range a {
		if i > 0 {
			s += ";"
		}
		s += x
	}
	return s
}

func containsAny(s string, subs ...string) bool {
	for _, x := range subs {
		if len(x) > 0 && len(s) >= len(x) {
			for i := 0; i+len(x) <= len(s); i++ {
				if s[i:i+len(x)] == x {
					return true
				}
			}
		}
	}
	return false
}

// hwmFamily: the high-water mark is set only from what the backup service
// acknowledged (primary) or what the primary streamed (replica) - C09, C14.
func (c *Ctx) hwmFamily(prefix string) {
	p := c.P
	set := p.Calls("litefs.(*DB).SetHWM")
	c.OnlyIn(prefix+"/setters", set, []string{pat("litefs.(*Store).streamBackupDB"), pat("litefs.(*Store).streamBackupDBSnapshot"), pat("litefs.(*Store).monitorLeaseAsReplica")}, 3,
		"SetHWM is called only by the two backup upload paths and the replica's HWM frame handler", "")
	c.OnlyIn(prefix+"/field", p.Writes("litefs.DB.hwm"), []string{pat("litefs.(*DB).SetHWM")}, 1, "DB.hwm is written only by SetHWM", "")
	c.OnlyGuards(prefix+"/set-unconditional", "litefs.(*DB).SetHWM", p.Writes("litefs.DB.hwm"), nil, 1, "SetHWM stores the mark under no condition (it follows the service down as well as up)", "a mark that only moves forward stays above what a rolled-back or replaced service acknowledges: retention then deletes files the service never received")
	c.ExpectAll(prefix+"/set-stores-argument", c.CallArgs("litefs.(*DB).SetHWM", p.Writes("litefs.DB.hwm"), 1), pat("p1"), 1, "the value stored is the argument", "")
	c.Expect(prefix+"/get-reads-field", strings.Join(c.returnsOf("litefs.(*DB).HWM"), ";"), pat("sync/atomic.(*Uint64).Load(&p0.hwm)"), "HWM() returns the stored mark", "")
	for _, f := range []string{"litefs.(*Store).streamBackupDB", "litefs.(*Store).streamBackupDBSnapshot"} {
		short := f[len("litefs.(*Store)."):]
		c.ExpectAll(prefix+"/"+short+"/origin", c.CallArgs(f, set, 1), pat("litefs.BackupClient.WriteTx(p0.BackupClient, @@)#0"), 1, "the mark set is the value returned by BackupClient.WriteTx", "the published high-water mark never exceeds what the service has acknowledged")
		c.Guarded(prefix+"/"+short+"/only-on-success", f, set, gs(GP("(litefs.BackupClient.WriteTx(p0.BackupClient, @@)#1 == nil)", true)), 1, "the mark is set only when WriteTx returned no error", "")
	}
	mr := "litefs.(*Store).monitorLeaseAsReplica"
	c.ExpectAll(prefix+"/replica/origin", c.CallArgs(mr, set, 1), pat("litefs.ReadStreamFrame(@@)#0.(*litefs.HWMStreamFrame)#0.TXID"), 1, "a replica adopts the TXID of the HWM frame", "")
	sl := "http.(*Server).streamLTX"
	fn := c.F(sl)
	if fn != nil {
		for _, in := range Instrs(fn, p.CallWhere("litefs.WriteStreamFrame", "HWMStreamFrame")) {
			f := p.FieldsAt(callVals(in)[1], in)
			c.Expect(prefix+"/primary-sends-own", f["Name"]+" | "+f["TXID"], pat("litefs.(*DB).Name(p3) | litefs.(*DB).HWM(p3)"), "the primary streams its own current mark for the same database", "")
		}
	}
}

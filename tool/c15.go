package main

import (
	"strings"

	"golang.org/x/tools/go/ssa"
)

func init() {
	register(&Property{
		ID:    "C15",
		Level: "other",
		Run:   c15,
		Explanation: "Structural necessary conditions of 'drop is a replicated transaction', decided on every path. Tombstone: the header of the drop LTX (TXID = previous+1, pre-checksum = previous post-checksum, commit 0, post-checksum = the empty-database checksum) by origin rendering, the temp/fsync/rename/dir-fsync publication protocol of Drop (shared family with C05), every one of the four file removals strictly after the rename and its dir-sync (the rename is the commit point: a crash before it leaves the database intact, after it recovery re-applies the tombstone), removal errors tolerated only for 'does not exist', in-memory reset (mode, page count, WAL bookkeeping) and position set from the encoder's own header/trailer only after all removals, then dirty-marking. Replica: ApplyLTXNoLock removes the four files and invalidates the four kernel entries exactly when the header's commit is zero, stores page count = commit and rollback mode, adopts the page size from the header whenever it is unknown (not only when pages follow), verifies the checksum and sets the position. Recreate: CreateDB refuses a name whose database has pages, reuses the remembered *DB object (no NewDB) when it has none - so the position continues - and marks the store dirty. Listing: ReadDirAll adds database entries only for databases with a non-zero page count. FUSE: unlink of a database drops only on the primary and tells the kernel about the three side files.",
		NotDecided: "histories with lagging/restarting replicas (reachable only by running), and what SQLite does with a database that disappears under it.",
		Assumptions: []string{"go/ssa faithfully represents the source", "Open() recovery re-applies the last LTX file (C05)"},
	})
}

func c15(c *Ctx) {
	{
		cd := "fuse.(*RootNode).createDatabase"
		c.Before("recreate/fuse-create-goes-through-CreateDB", cd, c.P.SuccessReturn, c.P.Calls("litefs.(*Store).CreateDB"), 1,
			"a CREATE of a database file answers success only after Store.CreateDB - which is what re-creates a dropped database (a registered DB object without files)", "the kernel sends CREATE only for a name that does not resolve, i.e. a new or a dropped database: opening the registered object instead answers ENOENT and the name can never be created again")
		c.ExpectAll("recreate/fuse-handle-on-created-file", c.CallArgs(cd, c.P.PlainCalls("fuse.newDatabaseHandle"), 1), pat("litefs.(*Store).CreateDB(@@)#1"), 1, "the handle returned wraps the file CreateDB created", "")
	}
	c.EdgeReturns("restart/wal-of-a-dropped-database-is-skipped", "litefs.(*DB).CheckpointNoLock", GP("os.IsNotExist(litefs.OS.OpenFile(p0.os, @@DatabasePath@@)#1)", true), "nil", 1,
		"the start-up checkpoint skips a WAL whose database file does not exist (the state a connection opened before a drop leaves behind)", "the node could not start again and the name could not be re-created; Open re-applies the drop afterwards, which removes the stray WAL")
	c.NoPathFromEdge("restart/missing-database-file-keeps-the-log", "litefs.(*DB).initFromDatabaseHeader", GP("os.IsNotExist(litefs.OS.Open(p0.os, @@DatabasePath@@)#1)", true), c.P.PlainCalls("litefs.(*DB).clean"), 1,
		"a missing database file (the state of a dropped database) never leads to clean(), which removes the transaction log", "every restart of a node holding a dropped database would reset it to position 0: absent replicas keep the database, a re-created one starts at TXID 1")
	c.Guarded("restart/clean-only-for-invalid-header", "litefs.(*DB).initFromDatabaseHeader", c.P.PlainCalls("litefs.(*DB).clean"), gs(G(`^\(litefs\.errInvalidDatabaseHeader == litefs\.readSQLiteDatabaseHeader\(.*\)#2\)$`, true)), 1,
		"clean() runs only for a database file whose header is invalid", "")
	c.EveryIterationG("join/every-database-marked-for-a-new-replica", "http.(*Server).handlePostStream",
		G(`^\(\(phi\(-1\) \+ 1\) < builtin\.len\(litefs\.\(\*Store\)\.DBs\(p0\.store\)\)\)$`, true),
		func(in ssa.Instruction) bool { _, ok := in.(*ssa.MapUpdate); return ok }, 1,
		"every database the primary knows - also an empty (dropped) one the replica has never seen - enters the initial dirty set of a connecting replica",
		"a node that joins after a drop must still learn the tombstone position: after a fail-over to it the name would restart at TXID 1 and absent replicas would keep the dropped database")
	{
		p := c.P
		ap := "litefs.(*DB).ApplyLTXNoLock"
		c.Guarded("apply/tombstone-no-shm-rewrite", ap, p.PlainCalls("litefs.(*DB).updateSHM"), gs(G(`\(0 < ltx\.\(\*Decoder\)\.Header\(.*\)\.Commit\)`, true)), 1, "applying a transaction rewrites the SHM header only when the database still has pages", "updateSHM creates the file: after a drop the replica would keep an shm file for a database that no longer exists")
		// the database file is removed after the journal, WAL and SHM files (a journal or WAL without its database cannot be recovered)
		for _, f := range []struct{ fn, tag string }{{"litefs.(*DB).Drop", "DROP"}, {ap, "APPLYLTX:DROP"}} {
			short := f.fn[len("litefs.(*DB)."):]
			rm := func(kind string) IM { return p.CallWhere("litefs.OS.Remove", `"`+f.tag+`:`+kind+`"`) }
			for _, k := range []string{"JOURNAL", "WAL", "SHM"} {
				c.Before("tombstone/database-file-last/"+short+"/"+k, f.fn, rm("DB"), rm(k), 1, short+": the database file is removed only after the "+k+" file", "a crash between the two leaves a journal or WAL without its database: the next start fails in recovery although the drop is committed")
			}
		}
	}
	c.OnlyGuards("restart/every-directory-opened", "litefs.(*Store).openDatabases", c.P.PlainCalls("litefs.(*Store).openDatabase"), gs(
		GP("(litefs.OS.MkdirAll(p0.OS, \"OPENDATABASES\", litefs.(*Store).DBDir(p0), 511) == nil)", true),
		GP("(litefs.OS.ReadDir(p0.OS, \"OPENDATABASES\", litefs.(*Store).DBDir(p0))#1 == nil)", true),
		G(`\(.* < builtin\.len\(litefs\.OS\.ReadDir\(.*\)#0\)\)`, true), G(`\(.* < builtin\.len\(litefs\.OS\.ReadDir\(.*\)#0\)\)`, false),
		G(`\(litefs\.\(\*Store\)\.openDatabase\(.*\) == nil\)|\(nil == litefs\.\(\*Store\)\.openDatabase\(.*\)\)`, true),
	), 1, "at start-up every entry of the dbs directory is opened - under no condition on its contents (a dropped database has no database file, only its ltx directory with the tombstone)", "a restarted node that skips such a directory forgets the database and its position: lagging replicas never receive the drop and recreation starts a new log")
	p := c.P
	dr := "litefs.(*DB).Drop"
	c.ltxHeaders(dr)
	c.ltxPublication(dr)

	rename := p.PlainCalls("litefs.OS.Rename")
	dirsync := p.PlainCalls("internal.Sync")
	rm := func(tag string) IM { return p.CallWhere("litefs.OS.Remove", `"`+tag+`"`) }
	tags := []struct{ tag, path string }{{"DROP:DB", "DatabasePath"}, {"DROP:JOURNAL", "JournalPath"}, {"DROP:WAL", "WALPath"}, {"DROP:SHM", "SHMPath"}}
	c.ExpectAll("tombstone/post-checksum", c.CallArgs(dr, p.PlainCalls("ltx.(*Encoder).SetPostApplyChecksum"), 1), "9223372036854775808", 1, "the drop's post-apply checksum is ltx.ChecksumFlag (the checksum of the empty database)", "the position after a drop carries the empty checksum")
	for _, t := range tags {
		short := strings.ToLower(strings.TrimPrefix(t.tag, "DROP:"))
		c.Before("tombstone/remove-after-publish/"+short, dr, rm(t.tag), rename, 1, "Drop removes the "+short+" file only after the tombstone LTX was renamed into place", "the rename is the commit point of the drop: a crash after an unlink but before the rename loses the database without a drop transaction")
		c.Before("tombstone/remove-after-dirsync/"+short, dr, rm(t.tag), dirsync, 1, "... and after the LTX directory was synced", "")
		c.ExpectAll("tombstone/remove-path/"+short, c.CallArgs(dr, rm(t.tag), 2), pat("litefs.(*DB)."+t.path+"(p0)"), 1, "the "+short+" file removed is this database's", "")
		c.After("tombstone/all-removed/"+short, dr, rename, rm(t.tag), p.SuccessReturn, 1, "every successful Drop has removed the "+short+" file", "removes the database, journal, WAL and shared-memory files")
		// tolerated error: only not-exist
		{
			fn := c.F(dr)
			key := "tombstone/remove-error/" + short
			desc := "an error of removing the " + short + " file other than 'does not exist' fails the drop"
			if c.need(key, "K7 ErrHandled (tolerating IsNotExist)", desc, fn, dr) {
				ins := Instrs(fn, rm(t.tag))
				bad := ""
				for _, in := range ins {
					call := in.(*ssa.Call)
					r := regexpQuote(p.Render(call))
					nonNil := G(`\(`+r+` == nil\)|\(nil == `+r+`\)`, true)
					notExist := G(`os\.IsNotExist\(`+r+`\)`, true)
					s := &Search{P: p, Fn: fn, From: []ssa.Instruction{in}, Block: func(e Edge) bool { return p.EdgeAsserts(e, nonNil) || p.EdgeAsserts(e, notExist) }, Tgt: Any(p.SuccessReturn, p.Calls("litefs.(*DB).setPos"))}
					if f := s.Run(); f != nil {
						bad = "after a failing removal at " + c.where(in) + " the drop continues to " + c.where(f.Instr)
					}
				}
				if bad != "" || len(ins) == 0 {
					c.fail(key, "K7 ErrHandled (tolerating IsNotExist)", desc, "a file left behind resurrects the database on the next open", bad, len(ins))
				} else {
					c.ok(key, "K7 ErrHandled (tolerating IsNotExist)", desc, len(ins))
				}
			}
		}
	}
	allRm := p.CallWhere("litefs.OS.Remove", `"DROP:(DB|JOURNAL|WAL|SHM)"`)
	setPos := p.PlainCalls("litefs.(*DB).setPos")
	c.NoPath("tombstone/pos-after-removals", dr, setPos, allRm, 1, "the position is advanced after all removals", "a position that says 'dropped' while files remain makes recovery skip the removal")
	c.ExpectAll("tombstone/pos-origin", c.CallArgs(dr, setPos, 1), pat("ltx.NewPos(ltx.(*Encoder).Header(@@).MaxTXID, ltx.(*Encoder).Trailer(@@).PostApplyChecksum)"), 1, "the new position is the tombstone's own MaxTXID and post-apply checksum", "advances its position by exactly one with the empty checksum")
	for _, w := range []struct{ f, val, d string }{
		{"litefs.DB.pageN", "0", "page count reset to 0 (the database is hidden and a recreate is allowed)"},
		{"litefs.DB.mode", "0", "journal mode reset to rollback"},
		{"litefs.DB.wal.offset", "0", "WAL offset reset"},
	} {
		ws := Instrs(c.F(dr), p.Writes(w.f))
		var vals []string
		for _, in := range ws {
			vals = append(vals, fieldStoreVal(p, in))
		}
		c.ExpectAll("tombstone/reset/"+w.f[strings.LastIndex(w.f, ".")+1:], vals, w.val+`|zero|litefs\.DBModeRollback.*|MakeInterface.*`, 1, "Drop: "+w.d, "")
		c.After("tombstone/reset-on-success/"+w.f[strings.LastIndex(w.f, ".")+1:], dr, rename, p.Writes(w.f), p.SuccessReturn, 1, "every successful Drop has performed the reset of "+w.f, "")
	}
	c.pageSizeOwners("tombstone/page-size-kept")
	c.After("tombstone/marks-dirty", dr, setPos, p.PlainCalls("litefs.(*Store).MarkDirty"), p.SuccessReturn, 1, "a successful Drop marks the database dirty (so the tombstone is streamed)", "via replication, on every replica")

	// ---- apply on replicas ----
	ap := "litefs.(*DB).ApplyLTXNoLock"
	hdrCommit := "ltx.(*Decoder).Header(ltx.NewDecoder(@@)).Commit"
	zeroCommit := G(`\(0 < `+pat(hdrCommit)+`\)`, false)
	for _, t := range []struct{ tag, path string }{{"APPLYLTX:DROP:DB", "DatabasePath"}, {"APPLYLTX:DROP:JOURNAL", "JournalPath"}, {"APPLYLTX:DROP:WAL", "WALPath"}, {"APPLYLTX:DROP:SHM", "SHMPath"}} {
		short := strings.ToLower(strings.TrimPrefix(t.tag, "APPLYLTX:DROP:"))
		c.Guarded("apply/remove-only-on-tombstone/"+short, ap, rm(t.tag), gs(zeroCommit), 1, "ApplyLTXNoLock removes the "+short+" file only for a commit-0 file", "")
		c.ExpectAll("apply/remove-path/"+short, c.CallArgs(ap, rm(t.tag), 2), pat("litefs.(*DB)."+t.path+"(p0)"), 1, "the "+short+" file removed is this database's", "")
	}
	{
		// assuming every test of the header's commit answers "zero", setPos is unreachable without each removal
		fn := c.F(ap)
		key, rule := "apply/tombstone-removes-all", "K1 Before (under assumed branch)"
		desc := "for a commit-0 file the position is set only after all four files were removed"
		if c.need(key, rule, desc, fn, ap) {
			posCommit := p.EdgesAsserting(G(`\(0 < `+pat(hdrCommit)+`\)`, true))
			n, bad := 0, ""
			for _, t := range []string{"APPLYLTX:DROP:DB", "APPLYLTX:DROP:JOURNAL", "APPLYLTX:DROP:WAL", "APPLYLTX:DROP:SHM"} {
				n++
				if f := (&Search{P: p, Fn: fn, Avoid: rm(t), Block: posCommit, Tgt: setPos}).Run(); f != nil {
					bad = "setPos at " + c.where(f.Instr) + " reachable for a tombstone without removing " + t + "; path " + p.TraceString(f.Trace)
				}
			}
			if (&Search{P: p, Fn: fn, Block: posCommit, Tgt: setPos}).Run() == nil {
				bad = "setPos is not reachable for a tombstone at all"
			}
			if bad != "" {
				c.fail(key, rule, desc, "removes the files via replication on every replica", bad, n)
			} else {
				c.ok(key, rule, desc, n)
			}
		}
	}
	inv := p.Calls("litefs.Invalidator.InvalidateEntry")
	c.Guarded("apply/invalidate-only-on-tombstone", ap, inv, gs(zeroCommit), 4, "the four kernel entries are invalidated only for a tombstone", "")
	{
		var names []string
		for _, in := range Instrs(c.F(ap), inv) {
			names = append(names, c.argR(in, 1))
		}
		c.Expect("apply/invalidate-names", strings.Join(names, " ; "), pat("litefs.(*DB).Name(p0) ; (litefs.(*DB).Name(p0) + \"-journal\") ; (litefs.(*DB).Name(p0) + \"-wal\") ; (litefs.(*DB).Name(p0) + \"-shm\")"), "database, -journal, -wal and -shm entries are invalidated", "the database disappears from directory listings everywhere (kernel dentry cache)")
	}
	{
		var vals []string
		for _, in := range Instrs(c.F(ap), p.Writes("litefs.DB.pageN")) {
			vals = append(vals, fieldStoreVal(p, in))
		}
		c.ExpectAll("apply/pageN-is-commit", vals, pat(hdrCommit), 1, "the page count stored is the header's commit (0 for a tombstone: hidden, recreatable)", "")
	}
	c.OnlyGuards("apply/page-size-adopted", ap, p.Writes("litefs.DB.pageSize"), gs(GP("(0 == p0.pageSize)", true), GP("(0 == p0.pageSize)", false), GP("ltx.(*Header).IsSnapshot(@@)", true), G(`.* == nil\)|\(nil == .*`, true)), 1,
		"the page size is adopted from the header whenever it is still unknown (and from every snapshot) - not only when pages follow", "a node whose first knowledge of a database is its tombstone must still be able to serve snapshots of it (page size 0 is rejected by the encoder: the stream to a joining replica aborts for ever)")
	c.AfterEdge("apply/page-size-adopted/when-unknown", ap, GP("(0 == p0.pageSize)", true), p.Writes("litefs.DB.pageSize"), func(in ssa.Instruction) bool {
		if _, ok := in.(*ssa.Return); ok {
			return true
		}
		return callCommon(in) != nil && !p.PlainCalls("ltx.(*Decoder).Header")(in)
	}, 1, "an unknown page size is adopted at once: nothing but the header accessor is called and nothing returns between the test and the store", "")
	c.snapshotPageSizeAdopted("apply/page-size-adopted")
	{
		var vals []string
		for _, in := range Instrs(c.F(ap), p.Writes("litefs.DB.pageSize")) {
			vals = append(vals, fieldStoreVal(p, in))
		}
		c.ExpectAll("apply/page-size-origin", vals, pat("ltx.(*Decoder).Header(ltx.NewDecoder(@@)).PageSize"), 1, "the adopted page size is the header's", "")
	}
	c.Before("apply/checksum-before-pos", ap, setPos, p.PlainCalls("litefs.(*DB).checksum"), 1, "the position is set only after the checksum comparison", "")
	c.After("apply/marks-dirty", ap, setPos, p.PlainCalls("litefs.(*Store).MarkDirty"), p.SuccessReturn, 1, "a successful apply marks the database dirty (the tombstone travels on to this node's own replicas)", "")

	// ---- a dropped database can still be snapshotted (joining or diverged replicas learn the drop through a snapshot) ----
	ws := "litefs.(*DB).WriteSnapshotTo"
	openDB := p.CallWhere("litefs.OS.Open", `"WRITESNAPSHOT:DB"`)
	{
		fn := c.F(ws)
		key, rule := "snapshot/dropped-db-tolerated", "K7 ErrHandled (tolerating IsNotExist)"
		desc := "WriteSnapshotTo tolerates a missing database file (a dropped database has none): only other open errors end the snapshot"
		if c.need(key, rule, desc, fn, ws) {
			ins := Instrs(fn, openDB)
			bad := ""
			for _, in := range ins {
				call := in.(*ssa.Call)
				r := regexpQuote(p.Render(call))
				notExist := G(`os\.IsNotExist\(`+r+`#1\)`, true)
				if p.CountGuardEdges(fn, notExist) == 0 {
					bad = "the open error at " + c.where(in) + " is never tested with os.IsNotExist"
					continue
				}
				// on the not-exist edge the function goes on to write the (empty) snapshot
				okPath := false
				for _, b := range fn.Blocks {
					for i, sb := range b.Succs {
						if p.EdgeAsserts(Edge{b, i}, notExist) {
							if (&Search{P: p, Fn: fn, Tgt: p.PlainCalls("ltx.(*Encoder).EncodeHeader")}).runFromBlock(sb) != nil {
								okPath = true
							}
						}
					}
				}
				if !okPath {
					bad = "a missing database file does not lead to an encoded snapshot"
				}
			}
			if bad != "" || len(ins) == 0 {
				c.fail(key, rule, desc, "replicas that restart or join after the drop (or diverged) need a snapshot of the dropped database: a snapshot that fails aborts the whole stream and the replica retries for ever", bad, len(ins))
			} else {
				c.ok(key, rule, desc, len(ins))
			}
		}
	}
	c.NilGuardedUses("snapshot/dropped-db-file-nil", ws, func(in ssa.Instruction) bool {
		ex, ok := in.(*ssa.Extract)
		return ok && ex.Index == 0 && openDB(ex.Tuple.(ssa.Instruction))
	}, 0, "the database file handle is used only when it was opened", "")

	// ---- recreate ----
	cr := "litefs.(*Store).CreateDB"
	existing := "p0.dbs[p1]"
	c.EdgeReturns("recreate/exists-refused", cr, GP("(0 < litefs.(*DB).PageN("+existing+"))", true), pat("litefs.ErrDatabaseExists"), 1, "creating a database whose remembered instance has pages is refused", "")
	c.GuardedPaths("recreate/new-only-when-unknown", cr, p.PlainCalls("litefs.NewDB"), [][]*Guard{{GP("(nil == "+existing+")", true)}}, 1, "a new DB object is built only when the store has none under this name", "recreating over a remembered dropped database must reuse it: a fresh object starts again at TXID 0 and forks the log")
	c.GuardedPaths("recreate/map-write-only-when-unknown", cr, p.Writes("litefs.Store.dbs[]"), [][]*Guard{{GP("(nil == "+existing+")", true)}}, 1, "the dbs map is overwritten only when it had no entry", "")
	c.Expect("recreate/returns-remembered", strings.Join(c.returnsMatchingIdxOK(cr, 0), ";"), pat("{litefs.NewDB(p0, p1, litefs.(*Store).DBPath(p0, p1))|"+existing+"}"), "CreateDB returns the remembered instance (or the new one)", "continues the same transaction ID sequence")
	c.After("recreate/marks-dirty", cr, p.PlainCalls("litefs.OS.OpenFile"), p.PlainCalls("litefs.(*Store).markDirty"), p.SuccessReturn, 1, "a successful create marks the database dirty", "")
	c.Before("recreate/mutex", cr, Any(p.PlainCalls("litefs.NewDB"), p.Writes("litefs.Store.dbs[]")), p.PlainCalls("sync.(*Mutex).Lock"), 1, "lookup and insertion are one critical section", "")
	c.ExpectAll("recreate/excl", c.CallArgs(cr, p.PlainCalls("litefs.OS.OpenFile"), 3), "706", 1, "the database file is created with O_RDWR|O_CREATE|O_EXCL|O_TRUNC", "O_EXCL makes a create over an existing file fail instead of truncating a live database")

	// ---- listing ----
	rd := "fuse.(*RootHandle).ReadDirAll"
	isDBEntry := func(in ssa.Instruction) bool {
		if !p.PlainCalls("builtin.append")(in) {
			return false
		}
		s := c.argR(in, 1)
		return strings.Contains(s, "litefs.(*DB).Name(") || strings.Contains(s, "-journal") || strings.Contains(s, "-wal") || strings.Contains(s, "-shm")
	}
	c.Guarded("listing/hidden-when-empty", rd, isDBEntry, gs(G(`\(0 == litefs\.\(\*DB\)\.PageN\(.*\)\)`, false)), 4, "database, -pos, -journal, -shm and -wal entries are listed only for a database with a non-zero page count", "the database disappears from directory listings")

	// ---- fuse unlink ----
	rmn := "fuse.(*RootNode).Remove"
	c.Guarded("fuse/drop-primary-only", rmn, p.Calls("litefs.(*DB).Drop"), gs(GP("litefs.(*Store).IsPrimary(p0.fsys.store)", true)), 1, "unlink drops only on the primary", "")
	c.NilGuardedUses("fuse/drop-db-nil", rmn, p.PlainCalls("litefs.(*Store).DB"), 2, "unlink of an unknown database answers ENOENT instead of dereferencing nil", "")
	c.ErrHandled("fuse/drop-error", rmn, p.PlainCalls("litefs.(*DB).Drop"), nil, 1, "a failed drop fails the unlink", "")
	nd := p.Calls("bfs.(*Server).NotifyDelete")
	cl := c.anonWith(rmn, nd)
	if cl == "" {
		c.fail("fuse/notify-delete", "K6 Origin", "after a drop the kernel is told that -journal, -wal and -shm are gone", "", "no closure of RootNode.Remove calls NotifyDelete", 0)
	} else {
		var names []string
		for _, in := range Instrs(c.F(cl), nd) {
			names = append(names, c.argR(in, 3))
		}
		c.Expect("fuse/notify-delete", strings.Join(names, " ; "), pat("(@@ + \"-journal\") ; (@@ + \"-wal\") ; (@@ + \"-shm\")"), "after a drop the kernel is told that -journal, -wal and -shm are gone", "")
	}
}

func regexpQuote(s string) string {
	var b strings.Builder
	for _, r := range s {
		if strings.ContainsRune(`\.+*?()|[]{}^$`, r) {
			b.WriteByte('\\')
		}
		b.WriteRune(r)
	}
	return b.String()
}

// fieldStoreVal renders the value written by a field-write instruction.
func fieldStoreVal(p *Prog, in ssa.Instruction) string {
	switch x := in.(type) {
	case *ssa.Store:
		return p.Render(x.Val)
	case *ssa.Call:
		if len(x.Call.Args) >= 2 {
			return p.Render(x.Call.Args[len(x.Call.Args)-1])
		}
	}
	return "?"
}

// snapshotPageSizeAdopted (C06, C15): a snapshot replaces the whole database,
// so ApplyLTXNoLock takes its page size before the first page is handled.
func (c *Ctx) snapshotPageSizeAdopted(prefix string) {
	p := c.P
	ap := "litefs.(*DB).ApplyLTXNoLock"
	c.BeforeG(prefix+"/from-snapshot", ap, p.PlainCalls("litefs.(*DB).writeDatabasePage", "ltx.(*Decoder).DecodePage"), p.Writes("litefs.DB.pageSize"),
		gs(GP("ltx.(*Header).IsSnapshot(@@)", false)), 1,
		"every path to the first decoded or written page has stored the file's page size, unless the file was found not to be a snapshot", "F44: a node whose database has another page size (diverged, or re-created after a drop) could never be re-snapshotted: the first page stops the node")
}

package main

import (
	"encoding/json"
	"flag"
	"fmt"
	"os"
	"path/filepath"
	"sort"
	"strings"
	"time"
)

// Property describes one claimed property.
type Property struct {
	ID          string
	Level       string // other | proof
	Run         func(c *Ctx)
	Explanation string
	Assumptions []string
	NotDecided  string
}

var properties = map[string]*Property{}

func register(p *Property) { properties[p.ID] = p }

// KnownFinding is an entry of /verif/known_findings.json.
type KnownFinding struct {
	Property string `json:"property"`
	Key      string `json:"key"`
	Status   string `json:"status"` // known | fixed
	Commit   string `json:"commit,omitempty"`
	What     string `json:"what"`
}

func loadKnown(path string) ([]KnownFinding, error) {
	b, err := os.ReadFile(path)
	if os.IsNotExist(err) {
		return nil, nil
	} else if err != nil {
		return nil, err
	}
	var k []KnownFinding
	if err := json.Unmarshal(b, &k); err != nil {
		return nil, fmt.Errorf("known_findings.json: %w", err)
	}
	return k, nil
}

type configSpec struct {
	Name string
	Opts LoadOpts
}

func configsFor(tier, repo string) []configSpec {
	cs := []configSpec{{"default", LoadOpts{Dir: repo}}}
	if tier == "thorough" {
		cs = append(cs,
			configSpec{"tags=verif", LoadOpts{Dir: repo, Tags: "verif"}},
			configSpec{"tests", LoadOpts{Dir: repo, Tests: true}},
		)
	}
	return cs
}

func cmdCheck(args []string) int {
	fs := flag.NewFlagSet("check", flag.ExitOnError)
	prop := fs.String("property", "", "property id")
	tier := fs.String("tier", "", "quick|thorough")
	repo := fs.String("repo", "/repo", "repository")
	out := fs.String("out", "/verif", "verif directory")
	noEvidence := fs.Bool("no-evidence", false, "do not write evidence (scratch runs)")
	_ = fs.Parse(args)
	if *tier == "" {
		*tier = os.Getenv("VERIF_TIER")
	}
	if *tier == "" {
		*tier = "quick"
	}
	pr := properties[*prop]
	if pr == nil {
		fmt.Fprintf(os.Stderr, "unknown property %q\n", *prop)
		return 2
	}
	start := time.Now()
	seed := 0
	fmt.Sscan(os.Getenv("VERIF_SEED"), &seed)

	known, kerr := loadKnown(filepath.Join(*out, "known_findings.json"))

	var all []*Ob
	funcs := map[string]bool{}
	var configs []string
	pkgs := 0
	var selftest map[string]any
	for _, cs := range configsFor(*tier, *repo) {
		obs, fset, np, err := runConfig(pr, cs, *tier)
		configs = append(configs, cs.Name)
		if err != nil {
			all = append(all, &Ob{Key: pr.ID + ".load/" + cs.Name, Rule: "load", Desc: "repository loads and type-checks in configuration " + cs.Name, Status: "undecided", Detail: err.Error(), Config: cs.Name})
			continue
		}
		if np > pkgs {
			pkgs = np
		}
		for f := range fset {
			funcs[f] = true
		}
		for _, o := range obs {
			o.Config = cs.Name
			if cs.Name != "default" {
				// only keep non-default results that differ (violations) to keep evidence compact
				if o.Status == "holds" {
					continue
				}
				o.Key += "@" + cs.Name
			}
			all = append(all, o)
		}
	}
	if kerr != nil {
		all = append(all, &Ob{Key: pr.ID + ".known-findings", Rule: "load", Desc: "known_findings.json parses", Status: "undecided", Detail: kerr.Error()})
	}
	if *tier == "thorough" {
		selftest = runSelftestFor(pr.ID, *repo, *out)
	}

	// classify
	knownByKey := map[string]KnownFinding{}
	for _, k := range known {
		if k.Status == "known" && k.Property == pr.ID {
			knownByKey[k.Key] = k
		}
	}
	_ = os.MkdirAll(filepath.Join(*out, "evidence", "replay"), 0o755)
	nviol, nknown, nheld := 0, 0, 0
	sitesTotal := 0
	var samples []any
	var lines []string
	for _, o := range all {
		sitesTotal += o.Sites
		switch o.Status {
		case "holds":
			nheld++
			lines = append(lines, fmt.Sprintf("ok        %-58s sites=%d  %s", o.Key, o.Sites, o.Rule))
		default:
			baseKey := strings.SplitN(o.Key, "@", 2)[0]
			if k, ok := knownByKey[baseKey]; ok && o.Status == "violation" {
				nknown++
				lines = append(lines, fmt.Sprintf("KNOWN-FINDING: property=%s %s: %s", pr.ID, o.Key, k.What))
				continue
			}
			nviol++
			rp := filepath.Join(*out, "evidence", "replay", fmt.Sprintf("%s-%d.json", pr.ID, nviol))
			rb, _ := json.MarshalIndent(map[string]any{"property": pr.ID, "obligation": o, "repo": *repo, "tier": *tier, "hint": "re-run: bin/lfscheck check -property " + pr.ID + " -tier " + *tier}, "", " ")
			_ = os.WriteFile(rp, rb, 0o644)
			lines = append(lines, fmt.Sprintf("%-9s %s [%s] %s\n          required: %s\n          why: %s\n          found: %s", strings.ToUpper(o.Status), o.Key, o.Config, o.Rule, o.Desc, o.Why, o.Detail))
			lines = append(lines, fmt.Sprintf("VIOLATION property=%s replay=%s", pr.ID, rp))
		}
	}
	for _, l := range lines {
		fmt.Println(l)
	}
	// samples: a spread of obligations
	step := len(all)/12 + 1
	for i := 0; i < len(all); i += step {
		o := all[i]
		samples = append(samples, map[string]any{"key": o.Key, "rule": o.Rule, "requires": o.Desc, "sites": o.Sites, "status": o.Status})
	}
	var fl []string
	for f := range funcs {
		fl = append(fl, f)
	}
	sort.Strings(fl)
	wall := time.Since(start).Seconds()
	cov := map[string]any{
		"explanation":         pr.Explanation + " NOT decided by this check: " + pr.NotDecided,
		"rule":                "one obligation per rule instance (K1 Before, K2 Guarded, K3 AfterOnSuccess, K4 NoPath, K5 OnlyCallers/Writers, K6 Origin, K7 ErrHandled, K8 tables, K9 lock-set, K10 abstract interpretation, K11 wire schema, K12 value guards, K13 HeldMutex, K14 Reaches); an obligation is non-trivial when it matched at least its confirmed floor of sites in /repo's current source",
		"obligations":         len(all),
		"discharged":          nheld,
		"known_findings":      nknown,
		"evaluations":         len(all),
		"distinct_nontrivial": countNontrivial(all),
		"samples":             samples,
		"functions_analysed":  fl,
		"call_sites_matched":  sitesTotal,
		"packages":            pkgs,
		"configs":             configs,
		"exhaustive":          false,
	}
	if pr.Level == "proof" {
		cov["checker_cmd"] = "bin/lfscheck check -property " + pr.ID + " -tier " + *tier
		cov["trusted_base"] = []string{"go/types and go/ssa (x/tools v0.29.0) faithfully represent the source", "the abstract transfer functions in tool/rwabs.go", "sync.Mutex semantics"}
	}
	if selftest != nil {
		cov["selftest"] = selftest
	}
	ev := map[string]any{
		"property_id": pr.ID,
		"tier":        *tier,
		"seed":        seed,
		"level":       pr.Level,
		"coverage":    cov,
		"assumptions": pr.Assumptions,
		"wall_s":      wall,
		"violations":  nviol,
	}
	if !*noEvidence {
		b, _ := json.MarshalIndent(ev, "", " ")
		if err := os.WriteFile(filepath.Join(*out, "evidence", pr.ID+".json"), b, 0o644); err != nil {
			fmt.Fprintln(os.Stderr, "write evidence:", err)
			return 1
		}
	}
	fmt.Printf("%s tier=%s obligations=%d discharged=%d known=%d violations=%d functions=%d sites=%d wall=%.1fs\n", pr.ID, *tier, len(all), nheld, nknown, nviol, len(fl), sitesTotal, wall)
	if nviol > 0 {
		return 1
	}
	return 0
}

func countNontrivial(all []*Ob) int {
	n := 0
	seen := map[string]bool{}
	for _, o := range all {
		if o.Sites > 0 && !seen[o.Key] {
			seen[o.Key] = true
			n++
		}
	}
	return n
}

func runConfig(pr *Property, cs configSpec, tier string) (obs []*Ob, funcs map[string]bool, npk int, err error) {
	defer func() {
		if r := recover(); r != nil {
			err = fmt.Errorf("analyser panic: %v", r)
		}
	}()
	p, lerr := Load(cs.Opts)
	if lerr != nil {
		return nil, nil, 0, lerr
	}
	c := NewCtx(p, pr.ID, tier)
	pr.Run(c)
	return c.Obs, c.Funcs, len(p.Pkgs), nil
}

func cmdExplain(args []string) int {
	if len(args) < 1 {
		usage()
	}
	b, err := os.ReadFile(args[0])
	if err != nil {
		fmt.Fprintln(os.Stderr, err)
		return 1
	}
	var m struct {
		Property   string `json:"property"`
		Obligation Ob     `json:"obligation"`
		Repo       string `json:"repo"`
		Tier       string `json:"tier"`
	}
	if err := json.Unmarshal(b, &m); err != nil {
		fmt.Fprintln(os.Stderr, err)
		return 1
	}
	fmt.Printf("property %s obligation %s\nrule: %s\nrequired: %s\nwhy: %s\nrecorded finding: %s\n\nre-deciding on %s ...\n", m.Property, m.Obligation.Key, m.Obligation.Rule, m.Obligation.Desc, m.Obligation.Why, m.Obligation.Detail, m.Repo)
	pr := properties[m.Property]
	if pr == nil {
		return 1
	}
	obs, _, _, err := runConfig(pr, configSpec{"default", LoadOpts{Dir: m.Repo}}, "quick")
	if err != nil {
		fmt.Println("undecided:", err)
		return 1
	}
	rc := 0
	for _, o := range obs {
		if o.Key == strings.SplitN(m.Obligation.Key, "@", 2)[0] {
			fmt.Printf("now: %s %s\n", o.Status, o.Detail)
			if o.Status != "holds" {
				rc = 1
			}
		}
	}
	return rc
}

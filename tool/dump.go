package main

import (
	"fmt"
	"io"
	"sort"
	"strings"

	"golang.org/x/tools/go/ssa"
)

// Dump prints the analysis view of a function: calls with rendered arguments,
// canonical branch conditions, field writes and classified returns.
func (p *Prog) Dump(w io.Writer, fn *ssa.Function, deep bool) {
	fmt.Fprintf(w, "== %s (%s)\n", p.FuncName(fn), p.Pos(fn.Pos()))
	for _, b := range fn.Blocks {
		var succ []string
		for _, s := range b.Succs {
			succ = append(succ, fmt.Sprint(s.Index))
		}
		fmt.Fprintf(w, " b%d -> [%s]\n", b.Index, strings.Join(succ, ","))
		for _, in := range b.Instrs {
			switch x := in.(type) {
			case *ssa.If:
				c, neg := p.Cond(x.Cond)
				fmt.Fprintf(w, "   if %s neg=%v   @%s\n", c, neg, p.Pos(firstPos(b)))
			case *ssa.Return:
				var rs []string
				for i := range x.Results {
					rs = append(rs, p.Render(returnedValue(x, i)))
				}
				fmt.Fprintf(w, "   return[%d] %s   @%s\n", p.ClassifyReturn(x), strings.Join(rs, ", "), p.Pos(x.Pos()))
			case *ssa.Store:
				if fp, ok := p.fieldWriteTarget(in); ok {
					fmt.Fprintf(w, "   write %s = %s   @%s\n", fp, p.Render(x.Val), p.Pos(x.Pos()))
				} else if ia, ok := x.Addr.(*ssa.IndexAddr); ok {
					if _, isArr := ia.X.(*ssa.Alloc); !isArr {
						fmt.Fprintf(w, "   idxstore %s[%s] = %s   @%s\n", p.Render(ia.X), p.Render(ia.Index), p.Render(x.Val), p.Pos(x.Pos()))
					}
				}
			case *ssa.MapUpdate:
				if fp, ok := p.fieldWriteTarget(in); ok {
					fmt.Fprintf(w, "   write %s[%s] = %s   @%s\n", fp, p.Render(x.Key), p.Render(x.Value), p.Pos(x.Pos()))
				} else {
					fmt.Fprintf(w, "   mapupdate %s[%s] = %s   @%s\n", p.Render(x.Map), p.Render(x.Key), p.Render(x.Value), p.Pos(x.Pos()))
				}
			case *ssa.RunDefers:
				fmt.Fprintf(w, "   rundefers\n")
			case *ssa.Panic:
				fmt.Fprintf(w, "   panic\n")
			default:
				if c := callCommon(in); c != nil {
					kind := "call"
					switch in.(type) {
					case *ssa.Defer:
						kind = "defer"
					case *ssa.Go:
						kind = "go"
					}
					extra := ""
					if fp, ok := p.fieldWriteTarget(in); ok {
						extra = "  [writes " + fp + "]"
					}
					fmt.Fprintf(w, "   %s %s%s   @%s\n", kind, p.RenderCall(in), extra, p.Pos(in.Pos()))
				}
			}
		}
	}
	if deep {
		for _, an := range fn.AnonFuncs {
			p.Dump(w, an, deep)
		}
	}
}

func firstPos(b *ssa.BasicBlock) (pos tokenPos) {
	for _, in := range b.Instrs {
		if in.Pos().IsValid() {
			return in.Pos()
		}
	}
	return 0
}

// ListFuncs prints all repo function names.
func (p *Prog) ListFuncs(w io.Writer) {
	var names []string
	for n := range p.funcs {
		names = append(names, n)
	}
	sort.Strings(names)
	for _, n := range names {
		fmt.Fprintln(w, n)
	}
}

package main

import (
	"fmt"
	"go/token"
	"strings"

	"golang.org/x/tools/go/ssa"
)

func init() {
	register(&Property{
		ID:    "C13",
		Level: "other",
		Run:   c13,
		Explanation: "Structural necessary conditions of the halt-lock protocol, decided on every path of the anchored functions. Primary side: the guard set obtained from AcquireWriteLock is the one pinned in DB.haltLockAndGuard (so no local commit or checkpoint can take the write lock while the halt lock is granted), recovery precedes reading the position handed to the replica, the expiry is now+HaltLockTTL, every failure exit releases the set and the success exit does not; the same-id test runs inside the retry loop of AcquireWriteLock (callback invoked before every attempt) and returns a copy of the granted lock; release and expiry clear the reference by identity and then unlock exactly the stored set, and only for the matching id / an expired lock; the monitor that enforces expiry is started by Store.Open. Replica side (shared remote-halt family): reference stored only after the grant, cleared on every failed acquisition, on release (before the primary is told) and when a frame from the primary arrives; WaitPosExact returns nil only when TXID and checksum both equal the granted position. Forwarding: in CommitWAL, CommitJournal and Drop the forwarded commit precedes the local rename, its error prevents the rename, and the lock id sent is the held one; the primary's /tx handler copies and applies a forwarded file only after DB.PinHaltLock(id from the request) returned a release function, which it merely defers; PinHaltLock answers non-nil only for the granted id and after re-loading the reference under the shared pin, release takes the pin exclusively first and expiry skips a pinned lock; the client sends that id under the query key the handler reads. Stream: a frame produced by this node is verified and discarded, never applied. The FUSE lock file: the handle acquires and releases with one stable id assigned at creation, only for the HALT byte and a write lock, records the lock returned, releases on unlock and on close of the file. The expiry sweep visits every database unconditionally; an own frame's chunked body is drained before the frame counts as processed.",
		NotDecided: "histories: lost or repeated responses, expiry racing a forwarded commit (the TODO 'prevent halt lock release during copy & apply' is a real window: see DESIGN.md), convergence of third replicas, primary change while a halt is held.",
		Assumptions: []string{"go/ssa faithfully represents the source", "C11 (AcquireWriteLock yields the full write lock set)", "C12 (guards are reader/writer locks)"},
	})
}

func c13(c *Ctx) {
	c.haltLockSetFollowsMode("holder")
	c.postApplyVerifiedBeforePublish("forwarded")
	c.journalPersistCommitError("forward/journal-write")
	c.Before("local-commit/Drop/position-read-under-lock", "litefs.(*DB).Drop", c.P.PlainCalls("litefs.(*DB).Pos", "litefs.(*DB).PageN"), c.P.PlainCalls("litefs.(*DB).AcquireWriteLock"), 2,
		"Drop reads the position (and page count) its transaction builds on only after it holds the write lock", "a drop that waited behind a halt lock would build on the pre-halt position: its file overwrites the replica's acknowledged forwarded transaction of that TXID")
	{
		// the primary commits no local transaction while the halt lock is granted: the three local publishers
		// either run under SQLite's own write lock (CommitJournal, CommitWAL: gated by the FUSE lock protocol,
		// see C11) or take the internal write lock themselves (Drop)
		p := c.P
		dr := "litefs.(*DB).Drop"
		acq := p.PlainCalls("litefs.(*DB).AcquireWriteLock")
		work := Any(p.CallsRe(`litefs\.OS\.(Create|Rename|Remove)`), p.PlainCalls("litefs.(*DB).setPos"), p.Writes("litefs.DB.pageN"))
		c.Before("local-commit/Drop/under-write-lock", dr, work, acq, 3, "Drop acquires the internal write lock before it creates, publishes or removes anything", "a granted halt lock holds that write lock on behalf of the replica: a drop that does not take it is a local commit on the primary while the replica writes")
		c.ErrHandled("local-commit/Drop/lock-error", dr, acq, work, 1, "a lock that could not be acquired stops the drop", "")
		c.ExpectAll("local-commit/Drop/lock-context", c.CallArgs(dr, acq, 1), "p1", 1, "the acquisition is bounded by the caller's context", "")
		{
			fn := c.F(dr)
			n := 0
			if fn != nil {
				for _, in := range Instrs(fn, func(in ssa.Instruction) bool { _, ok := in.(*ssa.Defer); return ok }) {
					if strings.Contains(p.RenderCall(in), "litefs.(*GuardSet).Unlock(litefs.(*DB).AcquireWriteLock(") {
						n++
					}
				}
			}
			c.Expect("local-commit/Drop/unlock-deferred", fmt.Sprint(n), "1", "the acquired set is released by a deferred Unlock (held until Drop returns)", "")
		}
	}
	c.forwardedExtends("forwarded")
	c.primaryOnlyHandlers("primary-only")
	c.ExpectAll("primary-only/halt-acquire-under-primary-context", c.CallArgs("http.(*Server).handlePostHalt", c.P.PlainCalls("litefs.(*DB).AcquireHaltLock"), 1), pat("litefs.(*Store).PrimaryCtx(p0.store, net/http.(*Request).Context(@@))"), 1,
		"POST /halt waits for the write lock under the primary-lease context", "F53: a node demoted while the request waited still granted the halt lock")
	p := c.P
	ah := "litefs.(*DB).AcquireHaltLock"
	field := p.Writes("litefs.DB.haltLockAndGuard")
	cas := func(in ssa.Instruction) bool {
		return p.Calls("sync/atomic.(*Value).CompareAndSwap")(in) && field(in)
	}
	loaded := "sync/atomic.(*Value).Load(&p0.haltLockAndGuard).(*litefs.haltLockAndGuard)"
	acqCall := "litefs.(*DB).AcquireWriteLock(p0, @@)"

	// ---- pin ----
	c.OnlyIn("pin/owners", field, []string{pat("litefs.NewDB"), pat(ah), pat("litefs.(*DB).ReleaseHaltLock"), pat("litefs.(*DB).EnforceHaltLockExpiration")}, 4,
		"DB.haltLockAndGuard is written only by NewDB, AcquireHaltLock, ReleaseHaltLock and EnforceHaltLockExpiration", "any other writer grants or drops the primary-side halt lock outside the protocol")
	c.OnlyIn("pin/guardset-writers", p.Writes("litefs.haltLockAndGuard.guardSet", "litefs.haltLockAndGuard.haltLock"), []string{pat(ah)}, 2,
		"the pinned pair is built only in AcquireHaltLock", "")
	for _, in := range Instrs(c.F(ah), cas) {
		flds := p.FieldsAt(callVals(in)[2], in)
		c.Expect("pin/stored-set", flds["guardSet"], pat(acqCall+"#0"), "the guard set pinned in haltLockAndGuard is the one AcquireWriteLock returned", "pinning any other set leaves the write lock free: the primary commits local transactions while the replica writes")
		c.Expect("pin/cas-old", c.argR(in, 1), pat(loaded), "the swap replaces the value that was just loaded", "")
		hl := flds["haltLock"]
		c.Expect("pin/stored-lock", hl, pat("&new(litefs.HaltLock)"), "the pinned halt lock is the freshly built one", "")
	}
	// HaltLock fields
	for _, w := range []struct{ f, re, d string }{
		{"litefs.HaltLock.ID", "p2", "the granted lock carries the requested id"},
		{"litefs.HaltLock.Pos", pat("litefs.(*DB).Pos(p0)"), "the granted position is the database's current position"},
	} {
		var got []string
		for _, in := range Instrs(c.F(ah), p.Writes(w.f)) {
			if st, ok := in.(*ssa.Store); ok {
				got = append(got, p.Render(st.Val))
			}
		}
		c.ExpectAll("pin/lock-fields/"+w.f[strings.LastIndex(w.f, ".")+1:], got, w.re, 1, w.d, "the replica starts writing from exactly the primary's position")
	}
	c.Expect("pin/expiry", strings.Join(c.CallArgs(ah, p.PlainCalls("time.(Time).Add"), 1), ";"), pat("p0.store.HaltLockTTL"), "the lock expires HaltLockTTL after the grant", "")
	c.Before("pin/recover-before-pos", ah, p.PlainCalls("litefs.(*DB).Pos"), p.PlainCalls("litefs.(*DB).recover"), 1,
		"the position handed to the replica is read after recovery (journal rolled back / WAL checkpointed)", "a position read before recovery is not the position the replica must start from")
	c.Before("pin/lock-before-recover", ah, p.PlainCalls("litefs.(*DB).recover"), p.PlainCalls("litefs.(*DB).AcquireWriteLock"), 1, "recovery runs under the write lock", "")
	c.ErrHandled("pin/acquire-error", ah, p.PlainCalls("litefs.(*DB).AcquireWriteLock"), Any(p.PlainCalls("litefs.(*DB).recover"), cas), 1, "a failed AcquireWriteLock grants nothing", "")
	c.ErrHandled("pin/recover-error", ah, p.PlainCalls("litefs.(*DB).recover"), cas, 1, "a failed recovery grants nothing", "")
	undo := c.anonWith(ah, p.Calls("litefs.(*GuardSet).Unlock"))
	if undo == "" {
		c.fail("pin/failure-unlocks", "K3 AfterOnFailure (deferred)", "a deferred closure releases the guard set when the grant fails", "a failed grant that keeps the write lock halts the primary with no holder", "no closure of AcquireHaltLock calls GuardSet.Unlock", 0)
	} else {
		deferIt := func(in ssa.Instruction) bool {
			d, ok := in.(*ssa.Defer)
			return ok && p.FuncName(p.calleeFunc(d)) == undo
		}
		c.Before("pin/failure-unlocks", ah, Any(p.PlainCalls("litefs.(*DB).recover"), cas), deferIt, 2, "the release-on-failure handler is deferred before anything that can fail after the acquisition", "a failed grant that keeps the write lock halts the primary with no holder")
		c.Guarded("pin/failure-unlocks/only-on-error", undo, p.Calls("litefs.(*GuardSet).Unlock"), gs(G(`\(nil == .*\)|\(.* == nil\)`, false)), 1, "the handler releases only when an error is returned", "releasing on success un-pins the lock that was just granted: the primary commits while the replica writes")
		c.OnlyGuards("pin/failure-unlocks/on-error", undo, p.Calls("litefs.(*GuardSet).Unlock"), gs(G(`\(nil == .*\)|\(.* == nil\)`, false)), 1, "the handler releases exactly when an error is returned", "releasing on success un-pins the lock that was just granted")
		c.ExpectAll("pin/failure-unlocks/set", c.CallArgs(undo, p.Calls("litefs.(*GuardSet).Unlock"), 0), pat(acqCall+"#0"), 1, "the handler releases the acquired set", "")
	}
	// success returns nil error only after the CAS succeeded or on the idempotent branch
	okRet := func(in ssa.Instruction) bool {
		r, ok := in.(*ssa.Return)
		return ok && p.ClassifyReturn(r) != retFailure && !(r.Block().Index != 0 && len(r.Block().Preds) == 0)
	}
	c.GuardedPaths("pin/success-means-pinned", ah, okRet, [][]*Guard{
		{GP("sync/atomic.(*Value).CompareAndSwap(&p0.haltLockAndGuard, @@)", true), GP("("+acqCall+"#1 == litefs.errHaltLockAlreadyAcquired)", true), GP("(nil == "+loaded+")", false)},
		{GP("sync/atomic.(*Value).CompareAndSwap(&p0.haltLockAndGuard, @@)", true), GP("("+acqCall+"#1 == litefs.errHaltLockAlreadyAcquired)", true), GP("(p2 == "+loaded+".haltLock.ID)", true)},
	}, 2, "AcquireHaltLock reports success only after the swap succeeded, or for a repeated request with the granted id (marker from the callback, or a direct same-id test)", "a success without a pinned write lock lets the primary commit while the replica writes")
	c.EdgeReturns("pin/cas-conflict-fails", ah, GP("sync/atomic.(*Value).CompareAndSwap(&p0.haltLockAndGuard, @@)", false), `fmt\.Errorf\(.*`, 1, "a lost swap is an error (and the deferred handler releases)", "")
	c.Guarded("pin/zero-id-refused", ah, p.PlainCalls("litefs.(*DB).AcquireWriteLock"), gs(GP("(0 == p2)", false)), 1, "lock id 0 is refused before anything is acquired", "0 is the 'no lock' value of the replica-side bookkeeping")

	// ---- idempotent ----
	cb := c.closureArgName(ah, p.PlainCalls("litefs.(*DB).AcquireWriteLock"), 2)
	if cb == "" {
		c.fail("idempotent/callback", "K6 Origin", "AcquireHaltLock passes a same-id test to AcquireWriteLock", "a repeated request that arrives while the first is still waiting must be answered with the same lock, not time out with the primary halted", "the third argument of AcquireWriteLock is not a closure of AcquireHaltLock: "+strings.Join(c.CallArgs(ah, p.PlainCalls("litefs.(*DB).AcquireWriteLock"), 2), ";"), 0)
	} else {
		c.ok("idempotent/callback", "K6 Origin", "AcquireHaltLock passes a same-id test ("+cb+") to AcquireWriteLock", 1)
		same := [][]*Guard{{GP("(nil == "+loaded+")", false)}, {GP("(p2 == "+loaded+".haltLock.ID)", true)}}
		retMarker := func(in ssa.Instruction) bool {
			r, ok := in.(*ssa.Return)
			return ok && len(r.Results) == 1 && p.Render(returnedValue(r, 0)) == "litefs.errHaltLockAlreadyAcquired"
		}
		retNil := func(in ssa.Instruction) bool {
			r, ok := in.(*ssa.Return)
			return ok && len(r.Results) == 1 && p.Render(returnedValue(r, 0)) == "nil"
		}
		c.GuardedPaths("idempotent/marker-iff-same-id", cb, retMarker, same, 1, "the callback returns the marker only when a lock is granted and its id equals the requested one", "")
		c.GuardedPaths("idempotent/nil-otherwise", cb, retNil, [][]*Guard{{GP("(nil == "+loaded+")", true), GP("(p2 == "+loaded+".haltLock.ID)", false)}}, 1, "... and nil only when no lock is granted or the id differs", "a callback that never reports the granted id makes the retried request wait for a write lock the halt lock holds")
		var all []string
		for _, in := range Instrs(c.F(cb), IsReturn) {
			all = append(all, p.Render(returnedValue(in.(*ssa.Return), 0)))
		}
		c.ExpectAll("idempotent/callback-returns", all, "litefs\\.errHaltLockAlreadyAcquired|nil", 2, "the callback returns only the marker or nil", "")
		// the copy handed back is the granted lock
		n, bad := 0, ""
		for _, b := range c.F(cb).Blocks {
			for _, in := range b.Instrs {
				st, ok := in.(*ssa.Store)
				if !ok {
					continue
				}
				if fv, ok := st.Addr.(*ssa.FreeVar); ok && typeIs(fv.Type(), "litefs.HaltLock") {
					n++
					if got := p.Render(st.Val); got != "*"+loaded+".haltLock" {
						bad = "the callback copies " + got + " at " + c.where(in)
					}
				}
			}
		}
		d := "on the same-id branch the callback copies the granted lock (*curr.haltLock) into the variable AcquireHaltLock returns"
		if bad != "" || n == 0 {
			if bad == "" {
				bad = "no copy of the granted lock found in the callback"
			}
			c.fail("idempotent/returns-granted-lock", "K6 Origin", d, "repeated acquire requests with the same lock ID return the same lock", bad, n)
		} else {
			c.ok("idempotent/returns-granted-lock", "K6 Origin", d, n)
		}
		c.EdgeReturns("idempotent/marker-is-success", ah, GP("("+acqCall+"#1 == litefs.errHaltLockAlreadyAcquired)", true), `nil`, 1, "the marker is turned into a successful answer carrying the copied lock", "the marker must not be propagated to the client")
	}
	// AcquireWriteLock invokes the callback before every attempt
	{
		aw := c.F("litefs.(*DB).AcquireWriteLock")
		key, rule := "idempotent/callback-every-attempt", "K1 Before (loop-carried)"
		desc := "AcquireWriteLock invokes the callback before every TryAcquireWriteLock, including retries, and returns its error"
		why := "the same-id test must see a lock that is installed while this request is waiting"
		if c.need(key, rule, desc, aw, "litefs.(*DB).AcquireWriteLock") {
			isCB := func(in ssa.Instruction) bool {
				call, ok := in.(*ssa.Call)
				if !ok || call.Call.IsInvoke() {
					return false
				}
				prm, ok := call.Call.Value.(*ssa.Parameter)
				return ok && len(aw.Params) == 3 && prm == aw.Params[2]
			}
			try := p.PlainCalls("litefs.(*DB).TryAcquireWriteLock")
			tries := Instrs(aw, try)
			nilFn := p.EdgesAsserting(GP("(nil == p2)", true))
			bad := ""
			if len(tries) == 0 || len(Instrs(aw, isCB)) == 0 {
				bad = "no callback invocation / no attempt found"
			} else if f := (&Search{P: p, Fn: aw, Avoid: isCB, Block: nilFn, Tgt: try}).Run(); f != nil {
				bad = "first attempt reachable without invoking a non-nil callback; path " + p.TraceString(f.Trace)
			} else if f := (&Search{P: p, Fn: aw, From: tries, Avoid: isCB, Block: nilFn, Tgt: try}).Run(); f != nil {
				bad = "a retry reaches TryAcquireWriteLock again without invoking the callback; path " + p.TraceString(f.Trace)
			}
			if bad != "" {
				c.fail(key, rule, desc, why, bad, len(tries))
			} else {
				c.ok(key, rule, desc, len(tries))
			}
			c.ErrHandled("idempotent/callback-error-stops", "litefs.(*DB).AcquireWriteLock", isCB, try, 1, "a callback error ends the acquisition without another attempt", "")
			var rets []string
			for _, in := range Instrs(aw, IsReturn) {
				r := in.(*ssa.Return)
				if len(r.Results) == 2 && strings.HasPrefix(p.Render(returnedValue(r, 1)), "dyn(") {
					rets = append(rets, p.Render(returnedValue(r, 0)))
				}
			}
			c.ExpectAll("idempotent/callback-error-returned", rets, "nil", 1, "the callback's error is returned unchanged with a nil guard set (AcquireHaltLock compares it by identity)", "")
		}
	}

	// ---- release / expiry ----
	for _, r := range []struct {
		fn    string
		short string
		when  []*Guard
		d     string
	}{
		{"litefs.(*DB).ReleaseHaltLock", "release", gs(GP("(nil == "+loaded+")", false), GP("(p2 == "+loaded+".haltLock.ID)", true)), "only when a lock is granted and its id is the one released"},
		{"litefs.(*DB).EnforceHaltLockExpiration", "expiry", gs(GP("(nil == "+loaded+")", false), GP("(nil == "+loaded+".haltLock.Expires)", false), GP("time.(Time).After(*"+loaded+".haltLock.Expires, time.Now())", false), GP("sync.(*RWMutex).TryLock(&"+loaded+".pin)", true)), "only when a lock is granted, has an expiry, that expiry is not after now and no commit from the holder is in flight (pin taken exclusively)"},
	} {
		un := p.Calls("litefs.(*GuardSet).Unlock")
		for i, g := range r.when {
			c.Guarded(fmt.Sprintf("%s/guarded/%d", r.short, i+1), r.fn, Any(cas, un), gs(g), 2, r.short+": the reference is cleared and the set unlocked "+r.d+" (condition "+g.Re+")", "releasing somebody else's lock lets the primary write while a replica holds the halt lock")
		}
		c.OnlyGuards(r.short+"/unconditional", r.fn, un, r.when, 1, r.short+": under that condition the set is always unlocked", "a release that leaves the write lock pinned halts the primary for good")
		for _, in := range Instrs(c.F(r.fn), cas) {
			c.Expect(r.short+"/cas-identity", c.argR(in, 1)+" -> "+c.argR(in, 2), pat(loaded+" -> nil"), r.short+": the swap replaces exactly the loaded value by nil", "")
		}
		c.ExpectAll(r.short+"/unlocks-stored-set", c.CallArgs(r.fn, un, 0), pat(loaded+".guardSet"), 1, r.short+": the set unlocked is the one stored with the lock", "")
		if r.short == "release" {
			c.Before("release/waits-for-pin", r.fn, Any(cas, un), p.CallWhere("sync.(*RWMutex).Lock", "^"+pat("sync.(*RWMutex).Lock(&"+loaded+".pin)")+"$"), 2, "release takes the pin exclusively before it clears the reference and unlocks the set: it waits for an in-flight commit of the holder", "a release that overtakes the holder's own slow commit frees the write lock while that commit is still going to be applied")
		}
		c.Before(r.short+"/clear-before-unlock", r.fn, un, cas, 1, r.short+": the reference is cleared before the write lock is released", "a local writer that gets the write lock while the reference still names the lock races a forwarded commit")
	}
	c.OnlyGuards("expiry/unconditional-sweep", "litefs.(*Store).EnforceHaltLockExpiration", p.Calls("litefs.(*DB).EnforceHaltLockExpiration"), gs(G(`rangeok\(.*\)`, true), G(`\(.* < builtin\.len\(.*\)\)`, true)), 1, "the sweep visits the databases under no condition other than the iteration itself (in particular not 'only while primary')", "a lock granted before a demotion must still expire: its guards pin the write lock and block role-change recovery for ever")
	c.OnlyGuards("expiry/monitor-every-tick", "litefs.(*Store).monitorHaltLock", p.Calls("litefs.(*Store).EnforceHaltLockExpiration"), gs(G(`\(\d+ == select#\d+\)`, true), G(`\(\d+ == select#\d+\)`, false)), 1, "the monitor runs the expiry sweep on every tick - under no condition other than which select case fired (in particular not 'only while primary')", "a lock granted before a demotion must still expire: its guards pin the write lock and block role-change recovery for ever")
	c.OnlyIn("expiry/monitor-calls", p.Calls("litefs.(*Store).EnforceHaltLockExpiration"), []string{pat("litefs.(*Store).monitorHaltLock")}, 1, "Store.EnforceHaltLockExpiration is driven by monitorHaltLock", "")
	c.Expect("expiry/monitor-ticker", strings.Join(c.CallArgs("litefs.(*Store).monitorHaltLock", p.PlainCalls("time.NewTicker"), 0), ";"), pat("p0.HaltLockMonitorInterval"), "the monitor ticks every HaltLockMonitorInterval", "")
	{
		// reachable from Store.Open through a goroutine closure
		open := c.F("litefs.(*Store).Open")
		found := 0
		if open != nil {
			for _, in := range InstrsDeep(open, p.Calls("litefs.(*Store).monitorHaltLock")) {
				_ = in
				found++
			}
		}
		d := "Store.Open starts the halt-lock monitor"
		if found == 0 {
			c.fail("expiry/monitor-started", "K5 who-calls", d, "without the monitor an abandoned halt lock never expires: the primary stays halted", "no call of monitorHaltLock in Store.Open or its closures", 0)
		} else {
			c.ok("expiry/monitor-started", "K5 who-calls", d, found)
		}
	}
	{
		var ranged []string
		for _, in := range Instrs(c.F("litefs.(*Store).EnforceHaltLockExpiration"), p.Calls("litefs.(*DB).EnforceHaltLockExpiration")) {
			ranged = append(ranged, c.argR(in, 0))
		}
		c.ExpectAll("expiry/all-databases", ranged, pat("rangeval(p0.dbs)"), 1, "expiry is enforced on every database of the store", "")
	}

	// ---- holder ----
	tx := "http.(*Server).handlePostTx"
	pinFn := "litefs.(*DB).PinHaltLock"
	pinned := G(pat("("+pinFn+"(@@) == nil)")+"|"+pat("(nil == "+pinFn+"(@@))"), false)
	c.Guarded("holder/apply-guarded", tx, p.PlainCalls("litefs.(*DB).WriteLTXFileAt", "litefs.(*DB).ApplyLTXNoLock"), gs(pinned), 2,
		"the /tx handler writes and applies a forwarded file only after DB.PinHaltLock returned a release function (lock held by the caller and pinned)", "the primary accepts a forwarded transaction only from the current holder of that database's halt lock; a plain check that is not pinned can be invalidated by release or expiry while the body is still being received")
	c.ExpectAll("holder/id-from-request", c.CallArgs(tx, p.PlainCalls(pinFn), 1), pat("strconv.ParseInt(net/url.(Values).Get(@@, \"lockID\"), 10, 64)#0"), 1, "the id tested is parsed from the request's lockID parameter", "")
	c.ExpectAll("holder/same-db", []string{strings.Join(c.CallArgs(tx, p.PlainCalls(pinFn), 0), ";") + " / " + strings.Join(c.CallArgs(tx, p.PlainCalls("litefs.(*DB).ApplyLTXNoLock"), 0), ";")}, pat("litefs.(*Store).DB(@@) / litefs.(*Store).DB(@@)"), 1, "holder test and apply address the database named in the request", "")
	c.pinHeldUntilReturn("holder/pinned-until-return", tx, pinFn, p.PlainCalls("litefs.(*DB).WriteLTXFileAt", "litefs.(*DB).ApplyLTXNoLock"))
	c.pinDefinition("holder/pin-def", pinFn, loaded)
	c.GuardedPaths("holder/def-nil", pinFn, func(in ssa.Instruction) bool {
		u, ok := in.(*ssa.UnOp)
		return ok && strings.HasSuffix(p.Render(u), ".haltLock.ID")
	}, [][]*Guard{{GP("(nil == "+loaded+")", false)}}, 1, "the id is read only when a lock is granted", "")
	{
		pinField := func(in ssa.Instruction) bool {
			fa, ok := in.(*ssa.FieldAddr)
			return ok && typeStr(deref(fa.X.Type())) == "litefs.haltLockAndGuard" && fieldName(fa.X.Type(), fa.Field) == "pin"
		}
		c.OnlyIn("holder/pin-owners", pinField, []string{pat(pinFn), pat("litefs.(*DB).ReleaseHaltLock"), pat("litefs.(*DB).EnforceHaltLockExpiration")}, 3,
			"the pin mutex of a granted halt lock is touched only by PinHaltLock, ReleaseHaltLock and EnforceHaltLockExpiration", "anybody else unlocking it lets release or expiry proceed during an in-flight commit")
	}
	c.ErrStops("holder/write-error", tx, p.PlainCalls("litefs.(*DB).WriteLTXFileAt"), p.PlainCalls("litefs.(*DB).ApplyLTXNoLock"), 1, "a file that could not be written is not applied", "")
	{
		// the literal query keys of Client.Commit contain lockID fed from the lockID parameter
		fn := c.F("http.(*Client).Commit")
		ok := false
		var seen []string
		if fn != nil {
			for _, in := range Instrs(fn, func(in ssa.Instruction) bool { _, isU := in.(*ssa.MapUpdate); return isU }) {
				mu := in.(*ssa.MapUpdate)
				k, v := p.Render(mu.Key), p.Render(mu.Value)
				seen = append(seen, k+"="+v)
				if k == `"lockID"` && strings.Contains(v, "strconv.FormatInt(p5, 10)") {
					ok = true
				}
			}
		}
		d := "Client.Commit sends its lockID argument under the query key \"lockID\" that the handler reads"
		if !ok {
			c.fail("holder/client-key", "K8 table (writer/reader agreement)", d, "a holder whose id the primary never sees is refused - or worse, accepted under a default", "query values: "+strings.Join(seen, ", "), len(seen))
		} else {
			c.ok("holder/client-key", "K8 table (writer/reader agreement)", d, len(seen))
		}
	}

	// ---- release handler ----
	dh := "http.(*Server).handleDeleteHalt"
	c.NilGuardedUses("release/handler-db-nil", dh, p.PlainCalls("litefs.(*Store).DB"), 1, "the DELETE /halt handler releases on the database only after testing that it exists", "an unknown name dereferences nil: the handler panics and the replica's release is answered with a dropped connection")
	c.ExpectAll("release/handler-id", c.CallArgs(dh, p.PlainCalls("litefs.(*DB).ReleaseHaltLock"), 2), pat("strconv.ParseInt(net/url.(Values).Get(@@, \"id\"), 10, 64)#0"), 1, "the id released is the request's id parameter", "")
	ph := "http.(*Server).handlePostHalt"
	c.ExpectAll("pin/handler-id", c.CallArgs(ph, p.PlainCalls("litefs.(*DB).AcquireHaltLock"), 2), pat("strconv.ParseInt(net/url.(Values).Get(@@, \"id\"), 10, 64)#0"), 1, "the id granted is the request's id parameter", "")
	c.ErrStops("pin/handler-error-no-body", ph, p.PlainCalls("litefs.(*DB).AcquireHaltLock"), p.Calls("(*encoding/json.Encoder).Encode", "encoding/json.(*Encoder).Encode"), 1, "a refused grant is answered with an error, never with a lock body", "")

	// ---- forward-first ----
	for _, n := range []string{"litefs.(*DB).CommitWAL", "litefs.(*DB).CommitJournal", "litefs.(*DB).Drop"} {
		short := n[strings.LastIndex(n, ".")+1:]
		commit := p.PlainCalls("litefs.Client.Commit")
		rename := p.PlainCalls("litefs.OS.Rename")
		held := GP("(litefs.(*DB).RemoteHaltLock(p0) == nil)", false)
		c.Guarded("forward/"+short+"/when-halted", n, commit, gs(held), 1, short+": the transaction is forwarded only while a remote halt lock is held", "")
		{
			// with the lock held, the rename is reachable only through the forwarded commit
			fn := c.F(n)
			key := "forward/" + short + "/before-publish"
			desc := short + ": while the halt lock is held every path to the local rename passes through Client.Commit"
			why := "every transaction the replica commits is applied on the primary before the replica's commit returns"
			if c.need(key, "K1 Before (guarded)", desc, fn, n) {
				s := &Search{P: p, Fn: fn, Avoid: commit, Block: p.EdgesAsserting(GP("(litefs.(*DB).RemoteHaltLock(p0) == nil)", true)), Tgt: rename}
				if f := s.Run(); f != nil {
					c.fail(key, "K1 Before (guarded)", desc, why, fmt.Sprintf("rename at %s reachable with the halt lock held and nothing forwarded; path %s", c.where(f.Instr), p.TraceString(f.Trace)), 1)
				} else if len(Instrs(fn, rename)) == 0 {
					c.fail(key, "K1 Before (guarded)", desc, why, "no rename found", 0)
				} else {
					c.ok(key, "K1 Before (guarded)", desc, len(Instrs(fn, rename)))
				}
			}
		}
		c.ErrHandled("forward/"+short+"/error-stops", n, commit, rename, 1, short+": a refused or failed forwarded commit never reaches the local rename", "the replica must not publish a transaction the primary did not apply")
		c.ExpectAll("forward/"+short+"/lock-id", c.CallArgs(n, commit, 5), pat("litefs.(*DB).RemoteHaltLock(p0).ID"), 1, short+": the id sent is the held lock's", "")
		c.ExpectAll("forward/"+short+"/db-name", c.CallArgs(n, commit, 4), pat("p0.name"), 1, short+": the database named is this one", "")
		c.Before("forward/"+short+"/synced-first", n, commit, p.PlainCalls("(*os.File).Sync", "os.(*File).Sync"), 1, short+": the LTX file is complete and synced before it is sent", "")
	}

	// ---- skip-own ----
	pf := "litefs.(*Store).processLTXStreamFrame"
	own := GP("(litefs.(*Store).ID(p0) == ltx.DecodeHeader(p3)#0.NodeID)", true)
	c.NoPathFromEdge("skip-own/not-applied", pf, own, Any(p.PlainCalls("litefs.OS.Rename", "litefs.(*DB).ApplyLTXNoLock", "litefs.(*DB).unsetRemoteHaltLock")), 1,
		"a frame whose header names this node is never written, applied, and never clears the halt lock", "the replica already holds that transaction: applying it twice breaks the chain, clearing the lock ends the halt early")
	c.EdgeReturns("skip-own/verified", pf, own, `nil|fmt\.Errorf\(.*`, 1, "the own frame is consumed and the function returns", "")
	{
		fn := c.F(pf)
		key := "skip-own/body-verified"
		desc := "the duplicate's body is verified (Decoder.Verify) before it is discarded"
		if c.need(key, "K1", desc, fn, pf) {
			// in the blocks after the own edge, Verify precedes the success return
			n, bad := 0, ""
			for _, b := range fn.Blocks {
				for i, sb := range b.Succs {
					if !p.EdgeAsserts(Edge{b, i}, own) {
						continue
					}
					n++
					s := &Search{P: p, Fn: fn, Avoid: p.PlainCalls("ltx.(*Decoder).Verify"), Tgt: p.SuccessReturn}
					if f := s.runFromBlock(sb); f != nil {
						bad = "success return reachable without Verify; path " + p.TraceString(f.Trace)
					}
				}
			}
			if bad != "" || n == 0 {
				c.fail(key, "K1", desc, "the stream stays framed only if the whole file is consumed; an unverified duplicate hides divergence", bad, n)
			} else {
				c.ok(key, "K1", desc, n)
			}
		}
	}
	{
		// the own frame's body is drained to its end marker before the function returns successfully
		fn := c.F(pf)
		key := "skip-own/body-drained"
		desc := "after verification the rest of the duplicate's chunked body (including its end marker) is drained (io.Copy to io.Discard) before the frame is reported as processed"
		if c.need(key, "K1", desc, fn, pf) {
			n, bad := 0, ""
			drain := p.CallWhere("io.Copy", `io\.Discard`)
			for _, b := range fn.Blocks {
				for i, sb := range b.Succs {
					if !p.EdgeAsserts(Edge{b, i}, own) {
						continue
					}
					n++
					if f := (&Search{P: p, Fn: fn, Avoid: drain, Tgt: p.SuccessReturn}).runFromBlock(sb); f != nil {
						bad = "success return reachable without draining the body; path " + p.TraceString(f.Trace)
					}
				}
			}
			if bad != "" || n == 0 {
				c.fail(key, "K1", desc, "ltx.Decoder.Verify stops after the trailer: the 2-byte end marker stays in the stream and the next frame is parsed two bytes early", bad, n)
			} else {
				c.ok(key, "K1", desc, n)
			}
		}
	}
	c.Before("skip-own/unset-before-position-check", pf, p.PlainCalls("litefs.(*DB).Pos"), p.PlainCalls("litefs.(*DB).RemoteHaltLock"), 1,
		"a stale remote halt lock is examined (and cleared) before the frame's position is compared", "recovery on unset can move the position")
	c.Guarded("skip-own/unset-guarded", pf, p.PlainCalls("litefs.(*DB).unsetRemoteHaltLock"), gs(GP("(litefs.(*DB).RemoteHaltLock(@@) == nil)", false)), 1, "the halt lock is cleared only when one is held", "")
	{
		// a frame carrying this node's id may only be skipped when the node already has that transaction
		pfn := c.F(pf)
		key := "skip-own/only-when-already-applied"
		desc := "processLTXStreamFrame discards a frame with its own node id only when the local position already covers the frame's TXID"
		why := "a forwarded commit that the primary applied but whose response was lost is rolled back locally; when it comes back on the stream it is skipped, every later frame then fails with a position mismatch and the replica reconnects for ever (it never converges)"
		if c.need(key, "K2 Guarded", desc, pfn, pf) {
			ownEdge := 0
			covered := 0
			for _, b := range pfn.Blocks {
				if len(b.Instrs) == 0 {
					continue
				}
				iff, ok := b.Instrs[len(b.Instrs)-1].(*ssa.If)
				if !ok {
					continue
				}
				r, _ := p.Cond(iff.Cond)
				if strings.Contains(r, "litefs.(*Store).ID(p0)") && strings.Contains(r, ".NodeID") {
					ownEdge++
				}
				if strings.Contains(r, "litefs.(*DB).Pos(") && strings.Contains(r, ".TXID") && strings.Contains(r, "MaxTXID") {
					covered++
				}
			}
			switch {
			case ownEdge == 0:
				c.fail(key, "K2 Guarded", desc, why, "no test of the frame's node id found", 0)
			case covered == 0:
				c.fail(key, "K2 Guarded", desc, why, "the own-frame branch tests only the node id; the local position is not compared with the frame's MaxTXID anywhere in the function", ownEdge)
			default:
				c.ok(key, "K2 Guarded", desc, ownEdge)
			}
		}
	}
	c.OnlyGuards("skip-own/unset-on-every-foreign-frame", pf, p.PlainCalls("litefs.(*DB).unsetRemoteHaltLock"), gs(
		GP("(litefs.(*Store).CreateDBIfNotExists(p0, p2.Name)#1 == nil)", true), GP("(ltx.DecodeHeader(p3)#2 == nil)", true), GP("(litefs.(*DB).AcquireWriteLock(@@)#1 == nil)", true),
		G(pat("(litefs.(*Store).ID(p0) == ltx.DecodeHeader(p3)#0.NodeID)")+"|"+pat("(ltx.DecodeHeader(p3)#0.NodeID == litefs.(*Store).ID(p0))"), false),
		G(pat("(litefs.(*DB).RemoteHaltLock(@@) == nil)")+"|"+pat("(nil == litefs.(*DB).RemoteHaltLock(@@))"), false),
	), 1, "a held remote halt lock is cleared by every frame from another node - under no further condition on the frame (a snapshot has min TXID 1)", "a stale lock that survives a frame keeps the replica writable although the primary has moved on")
	c.ExpectAll("skip-own/unset-id", c.CallArgs(pf, p.PlainCalls("litefs.(*DB).unsetRemoteHaltLock"), 2), pat("litefs.(*DB).RemoteHaltLock(@@).ID"), 1, "the id cleared is the held lock's", "")
	c.ErrHandled("skip-own/unset-error", pf, p.PlainCalls("litefs.(*DB).unsetRemoteHaltLock"), p.PlainCalls("litefs.OS.Rename"), 1, "a failed unset stops the frame", "")

	// ---- wait ----
	wp := "litefs.(*DB).WaitPosExact"
	c.GuardedPaths("wait/exact", wp, p.SuccessReturn, [][]*Guard{
		{GP("(litefs.(*DB).Pos(p0).TXID < p2.TXID)", false)}, {GP("(p2.TXID < litefs.(*DB).Pos(p0).TXID)", false)}, {GP("(litefs.(*DB).Pos(p0).PostApplyChecksum == p2.PostApplyChecksum)", true)},
	}, 1, "WaitPosExact returns nil only when the TXID is neither below nor above the target and the checksums are equal", "the replica starts writing from exactly the primary's position")
	c.EdgeReturns("wait/overshoot-fails", wp, GP("(p2.TXID < litefs.(*DB).Pos(p0).TXID)", true), `fmt\.Errorf\(.*`, 1, "a position past the target is an error", "")
	c.EdgeReturns("wait/checksum-fails", wp, GP("(litefs.(*DB).Pos(p0).PostApplyChecksum == p2.PostApplyChecksum)", false), `fmt\.Errorf\(.*`, 1, "a checksum mismatch at the target TXID is an error", "")
	{
		var rets []string
		for _, in := range Instrs(c.F(wp), IsReturn) {
			r := in.(*ssa.Return)
			if r.Block().Index != 0 && len(r.Block().Preds) == 0 {
				continue
			}
			if p.ClassifyReturn(r) != retFailure && p.Render(returnedValue(r, 0)) != "nil" {
				rets = append(rets, p.Render(returnedValue(r, 0))+" at "+c.where(r))
			}
		}
		d := "every other exit of WaitPosExact returns a provably non-nil error"
		if len(rets) > 0 {
			c.fail("wait/ctx-error-nonnil", "K7", d, "a nil error on timeout reads as 'position reached'", strings.Join(rets, "; "), len(rets))
		} else {
			c.ok("wait/ctx-error-nonnil", "K7", d, 1)
		}
	}
	c.remoteHaltFamily("remote-halt")

	// ---- fuse lock file: the application-side entry of the halt protocol ----
	lw := "fuse.(*LockHandle).lockWaitHalt"
	uh := "fuse.(*LockHandle).unlockHalt"
	c.ExpectAll("fuse/acquire-id", c.CallArgs(lw, p.Calls("litefs.(*DB).AcquireRemoteHaltLock"), 2), pat("p0.haltLockID"), 1, "the lock file handle acquires with its own stable lock id", "repeated acquire requests with the same lock ID return the same lock: an interrupted and retried FUSE call must reuse the id")
	c.ExpectAll("fuse/release-id", c.CallArgs(uh, p.Calls("litefs.(*DB).ReleaseRemoteHaltLock"), 2), pat("p0.haltLockID"), 1, "... and releases with the same id", "")
	{
		var vals []string
		for _, in := range Instrs(c.F("fuse.newLockHandle"), p.Writes("fuse.LockHandle.haltLockID")) {
			vals = append(vals, fieldStoreVal(p, in))
		}
		c.ExpectAll("fuse/id-is-random", vals, `(math/rand|math/rand/v2|crypto/rand)\..*`, 1, "the handle's lock id is drawn from a random source", "the primary identifies the holder cluster-wide by this id alone (same-id requests are answered as retries; /tx and release match by id): ids that are unique only within one process collide between replicas")
	}
	c.OnlyIn("fuse/id-assigned-once", p.Writes("fuse.LockHandle.haltLockID"), []string{pat("fuse.newLockHandle")}, 1, "the handle's lock id is assigned only when the handle is created", "")
	{
		var got []string
		for _, in := range Instrs(c.F(lw), p.Writes("fuse.LockHandle.haltLock")) {
			got = append(got, fieldStoreVal(p, in))
		}
		c.ExpectAll("fuse/holder-recorded", got, pat("litefs.(*DB).AcquireRemoteHaltLock(@@)#0"), 1, "the handle records the lock the acquisition returned", "")
	}
	c.Guarded("fuse/release-only-when-held", uh, p.Calls("litefs.(*DB).ReleaseRemoteHaltLock"), gs(GP("(nil == p0.haltLock)", false)), 1, "the handle releases only a lock it holds", "")
	{
		// an interrupted release (EINTR: the kernel re-issues the unlock) must keep the handle's record of the lock
		clear := func(in ssa.Instruction) bool {
			return p.Writes("fuse.LockHandle.haltLock")(in) && fieldStoreVal(p, in) == "nil"
		}
		isRet := func(eintr bool) IM {
			return func(in ssa.Instruction) bool {
				r, ok := in.(*ssa.Return)
				if !ok || len(r.Results) != 1 || (r.Block().Index != 0 && len(r.Block().Preds) == 0) {
					return false
				}
				return (p.Render(returnedValue(r, 0)) == "4") == eintr
			}
		}
		rel := p.Calls("litefs.(*DB).ReleaseRemoteHaltLock")
		c.After("fuse/unlock-forgets-after-release", uh, rel, clear, isRet(false), 1,
			"after the release was attempted every exit other than EINTR has cleared the handle's record of the lock", "a handle that keeps the record releases a lock it no longer holds on the next unlock")
		c.NoPath("fuse/interrupted-unlock-keeps-record", uh, clear, isRet(true), 1,
			"the EINTR exit (release interrupted, the unlock will be re-issued) is never reached after the record was cleared", "the re-issued unlock would find no lock recorded and report success without releasing anything: the primary stays halted until the TTL, or the replica stays writable")
		c.OnlyIn("fuse/record-cleared-by", clear, []string{pat("fuse.(*LockHandle).unlockHalt")}, 1, "only unlockHalt itself clears the handle's record (not a deferred closure that runs on every exit)", "")
		c.Before("fuse/eintr-exit-exists", uh, isRet(true), rel, 1, "the EINTR exit follows the release attempt", "")
	}
	c.Guarded("fuse/acquire-only-when-not-held", lw, p.Calls("litefs.(*DB).AcquireRemoteHaltLock"), gs(GP("(nil == p0.haltLock)", true)), 1, "the handle acquires only when it holds none", "")
	c.OnlyIn("fuse/flush-releases", p.Calls(uh), []string{pat("fuse.(*LockHandle).Flush"), pat("fuse.(*LockHandle).Unlock")}, 2, "closing the lock file (Flush) and unlocking both release the halt lock", "a process that dies while holding the lock must not leave the primary halted until the TTL")
	c.Guarded("fuse/halt-byte-only", "fuse.(*LockHandle).LockWait", p.Calls(lw), gs(GP("(72 == p2.Lock.Start)", true)), 1, "only the HALT byte (72) of the lock file starts the halt protocol", "")
	c.Guarded("fuse/write-lock-only", lw, p.Calls("litefs.(*DB).AcquireRemoteHaltLock"), gs(GP("(1 == p2.Lock.Type)", true)), 1, "only an exclusive (write) lock request acquires the halt lock", "")

	// ---- fuse entry ----
	c.OnlyInScope("fuse/acquire-callers", []string{"fuse", "http", "litefs"}, p.Calls("litefs.(*DB).AcquireRemoteHaltLock"), []string{pat("fuse.(*LockHandle)@@"), pat("fuse.(*LockNode)@@"), pat("litefs.(*DB).AcquireRemoteHaltLock")}, 1,
		"the remote halt lock is requested only from the fuse lock file handler", "")
}

// pinHeldUntilReturn: the release function returned by pinFn in fname is only
// compared with nil and deferred (directly or through a deferred closure whose
// only use of it is the call); the defer precedes every protected call. The
// pin therefore lasts until the function returns.
func (c *Ctx) pinHeldUntilReturn(key, fname, pinFn string, protected IM) {
	rule := "K1/K6 pin released only at function exit"
	desc := "in " + fname + " the function returned by " + pinFn + " is only tested against nil and deferred, and the defer precedes the copy and the apply: the pin lasts until the handler returns"
	why := "an unpin before the apply (or none at all) re-opens the window between the holder check and the apply, or blocks release and expiry for ever"
	fn := c.F(fname)
	if !c.need(key, rule, desc, fn, fname) {
		return
	}
	calls := Instrs(fn, c.P.PlainCalls(pinFn))
	if len(calls) != 1 {
		c.fail(key, rule, desc, why, fmt.Sprintf("%d call(s) of %s, expected 1", len(calls), pinFn), len(calls))
		return
	}
	v := calls[0].(ssa.Value)
	defers := map[ssa.Instruction]bool{}
	bad := ""
	// deferredOnly: the closure value is used only as the callee of defers in fn.
	deferredOnly := func(mc *ssa.MakeClosure) bool {
		if mc.Referrers() == nil {
			return false
		}
		n := 0
		for _, r := range *mc.Referrers() {
			switch x := r.(type) {
			case *ssa.Defer:
				if x.Call.Value != mc {
					return false
				}
				defers[x] = true
				n++
			case *ssa.DebugRef:
			default:
				return false
			}
		}
		return n > 0
	}
	var uses func(val ssa.Value, inClosure bool)
	seen := map[ssa.Value]bool{}
	uses = func(val ssa.Value, inClosure bool) {
		if seen[val] || val.Referrers() == nil {
			return
		}
		seen[val] = true
		for _, r := range *val.Referrers() {
			switch x := r.(type) {
			case *ssa.DebugRef:
			case *ssa.BinOp:
				if !(isNilConst(x.X) || isNilConst(x.Y)) {
					bad = "compared with a non-nil value at " + c.where(x)
				}
			case *ssa.Defer:
				if x.Call.Value == val && !inClosure {
					defers[x] = true
				} else {
					bad = "passed to a deferred call at " + c.where(x)
				}
			case *ssa.Call:
				if x.Call.Value == val && inClosure {
					continue // called inside a closure that is itself only deferred
				}
				bad = "called or passed on at " + c.where(x) + " (not deferred)"
			case *ssa.Store:
				if x.Addr == val {
					// val is the cell of the variable: the store defines it
				} else if a, ok := x.Addr.(*ssa.Alloc); ok && x.Val == val {
					uses(a, inClosure)
				} else {
					bad = "stored at " + c.where(x)
				}
			case *ssa.UnOp:
				uses(x, inClosure)
			case *ssa.MakeClosure:
				if !deferredOnly(x) {
					bad = "captured by a closure that is not only deferred at " + c.where(x)
					continue
				}
				cf := x.Fn.(*ssa.Function)
				for i, b := range x.Bindings {
					if b == val && i < len(cf.FreeVars) {
						uses(cf.FreeVars[i], true)
					}
				}
			default:
				bad = fmt.Sprintf("used by %T at %s", r, c.where(r))
			}
		}
	}
	uses(v, false)
	if bad != "" {
		c.fail(key, rule, desc, why, "the release function is "+bad, 1)
		return
	}
	if len(defers) == 0 {
		c.fail(key, rule, desc, why, "the release function is never deferred: the pin is never dropped", 1)
		return
	}
	isDefer := func(in ssa.Instruction) bool { return defers[in] }
	s := &Search{P: c.P, Fn: fn, Avoid: isDefer, Tgt: protected}
	if f := s.Run(); f != nil {
		c.fail(key, rule, desc, why, fmt.Sprintf("%s reachable before the release function is deferred; path %s", c.where(f.Instr), c.P.TraceString(f.Trace)), 1)
		return
	}
	// once the pin is held (release function non-nil) no exit may be reached before the defer is registered
	for _, b := range fn.Blocks {
		if len(b.Instrs) == 0 {
			continue
		}
		iff, ok := b.Instrs[len(b.Instrs)-1].(*ssa.If)
		if !ok {
			continue
		}
		bo, ok := iff.Cond.(*ssa.BinOp)
		if !ok || !(bo.X == v && isNilConst(bo.Y) || bo.Y == v && isNilConst(bo.X)) {
			continue
		}
		held := b.Succs[1] // == nil is false
		if bo.Op == token.NEQ {
			held = b.Succs[0]
		}
		if f := (&Search{P: c.P, Fn: fn, Avoid: isDefer, Tgt: IsReturn}).runFromBlock(held); f != nil {
			c.fail(key, rule, desc, why, fmt.Sprintf("with the pin held, the exit at %s is reachable before the release function is deferred (the pin leaks: release and expiry block for ever); path %s", c.where(f.Instr), c.P.TraceString(f.Trace)), 1)
			return
		}
	}
	if len(Instrs(fn, protected)) < 2 {
		c.fail(key, rule, desc, why, "fewer than 2 protected calls matched", 0)
		return
	}
	c.ok(key, rule, desc, len(defers)+len(Instrs(fn, protected)))
}

// pinDefinition: PinHaltLock returns a non-nil function only when a lock is
// granted, its id is the argument, and - after the pin was taken shared - a
// fresh load of the reference still yields the same value; that function is the
// RUnlock of the same mutex; every nil return after the RLock is preceded by
// the RUnlock.
func (c *Ctx) pinDefinition(key, fname, loaded string) {
	rule := "K2/K6 pin definition (value identity on go/ssa)"
	desc := "PinHaltLock(id) returns a release function only if a lock is granted, its id equals id and, once the pin is held shared, a second load of DB.haltLockAndGuard is identical to the first; the function is RUnlock of that lock's pin; a failed re-check drops the pin"
	why := "without the re-check under the pin a release that ran between the first load and RLock goes unnoticed: the commit is applied although the write lock has been freed"
	p := c.P
	fn := c.F(fname)
	if !c.need(key, rule, desc, fn, fname) {
		return
	}
	loadOf := func(v ssa.Value) *ssa.Call {
		ta, ok := v.(*ssa.TypeAssert)
		if !ok {
			return nil
		}
		call, ok := ta.X.(*ssa.Call)
		if !ok || p.CalleeName(&call.Call) != "sync/atomic.(*Value).Load" || p.Render(ta) != strings.ReplaceAll(loaded, "@@", "") {
			return nil
		}
		return call
	}
	pinOwner := func(addr ssa.Value) ssa.Value {
		fa, ok := addr.(*ssa.FieldAddr)
		if !ok || fieldName(fa.X.Type(), fa.Field) != "pin" {
			return nil
		}
		return fa.X
	}
	var rlocks, runlocks []ssa.Instruction
	var X ssa.Value
	for _, in := range Instrs(fn, p.Calls("sync.(*RWMutex).RLock")) {
		if o := pinOwner(callVals(in)[0]); o != nil && loadOf(o) != nil {
			if X != nil && X != o {
				c.fail(key, rule, desc, why, "RLock on two different values", 0)
				return
			}
			X = o
			rlocks = append(rlocks, in)
		}
	}
	if len(rlocks) != 1 {
		c.fail(key, rule, desc, why, fmt.Sprintf("%d RLock call(s) on the pin of the loaded lock, expected 1", len(rlocks)), len(rlocks))
		return
	}
	for _, in := range Instrs(fn, p.Calls("sync.(*RWMutex).RUnlock")) {
		if _, isCall := in.(*ssa.Call); isCall && pinOwner(callVals(in)[0]) == X {
			runlocks = append(runlocks, in)
		}
	}
	// the re-check: X == Y with Y loaded after the RLock
	var recheck []*ssa.BinOp
	for _, b := range fn.Blocks {
		for _, in := range b.Instrs {
			bo, ok := in.(*ssa.BinOp)
			if !ok || (bo.Op != token.EQL && bo.Op != token.NEQ) {
				continue
			}
			var y ssa.Value
			if bo.X == X {
				y = bo.Y
			} else if bo.Y == X {
				y = bo.X
			} else {
				continue
			}
			l2 := loadOf(y)
			if l2 == nil || l2 == loadOf(X) {
				continue
			}
			s := &Search{P: p, Fn: fn, Avoid: func(i ssa.Instruction) bool { return i == rlocks[0] }, Tgt: func(i ssa.Instruction) bool { return i == ssa.Instruction(l2) }}
			if f := s.Run(); f != nil {
				c.fail(key, rule, desc, why, "the second load at "+c.where(l2)+" can run before the pin is taken (RLock at "+c.where(rlocks[0])+")", 1)
				return
			}
			recheck = append(recheck, bo)
		}
	}
	if len(recheck) != 1 {
		c.fail(key, rule, desc, why, fmt.Sprintf("%d identity re-check(s) of the loaded reference against a fresh load, expected 1", len(recheck)), len(recheck))
		return
	}
	n := 0
	for _, b := range fn.Blocks {
		for _, in := range b.Instrs {
			ret, ok := in.(*ssa.Return)
			if !ok || len(ret.Results) != 1 {
				continue
			}
			n++
			if isNilConst(ret.Results[0]) {
				continue
			}
			mc, ok := ret.Results[0].(*ssa.MakeClosure)
			if !ok || len(mc.Bindings) != 1 || pinOwner(mc.Bindings[0]) != X || !strings.HasPrefix(mc.Fn.Name(), "RUnlock$bound") {
				c.fail(key, rule, desc, why, "the value returned at "+c.where(ret)+" is not the RUnlock of the pinned lock: "+p.Render(ret.Results[0]), n)
				return
			}
			// every path to this return: granted, id matches, RLock taken, re-check true
			for _, g := range []*Guard{GP("(nil == "+loaded+")", false), G(pat("(p1 == "+loaded+".haltLock.ID)")+"|"+pat("("+loaded+".haltLock.ID == p1)"), true)} {
				if !c.dominatedBy(fn, ret, g) {
					c.fail(key, rule, desc, why, "the non-nil return at "+c.where(ret)+" is reachable without "+g.Re, n)
					return
				}
			}
			cond := recheck[0]
			s := &Search{P: p, Fn: fn, Block: func(e Edge) bool {
				if len(e.From.Instrs) == 0 {
					return false
				}
				iff, ok := e.From.Instrs[len(e.From.Instrs)-1].(*ssa.If)
				if !ok || iff.Cond != ssa.Value(cond) {
					return false
				}
				return (e.Succ == 0) == (cond.Op == token.EQL)
			}, Tgt: func(i ssa.Instruction) bool { return i == ssa.Instruction(ret) }}
			if f := s.Run(); f != nil {
				c.fail(key, rule, desc, why, "the non-nil return at "+c.where(ret)+" is reachable without the identity re-check holding; path "+p.TraceString(f.Trace), n)
				return
			}
		}
	}
	// a failed re-check releases the shared pin before returning nil
	s := &Search{P: p, Fn: fn, From: rlocks, Avoid: func(i ssa.Instruction) bool {
		for _, u := range runlocks {
			if u == i {
				return true
			}
		}
		return false
	}, Tgt: func(i ssa.Instruction) bool {
		ret, ok := i.(*ssa.Return)
		return ok && len(ret.Results) == 1 && isNilConst(ret.Results[0])
	}}
	if f := s.Run(); f != nil {
		c.fail(key, rule, desc, why, "nil is returned at "+c.where(f.Instr)+" with the pin still held shared: release and expiry of the next holder block for ever; path "+p.TraceString(f.Trace), n)
		return
	}
	c.ok(key, rule, desc, n+2)
}

package main

// Loading of /repo into type-checked syntax + SSA ("cover what the build covers").

import (
	"fmt"
	"go/ast"
	"go/token"
	"go/types"
	"os"
	"sort"
	"strings"

	"golang.org/x/tools/go/callgraph"
	"golang.org/x/tools/go/callgraph/cha"
	"golang.org/x/tools/go/callgraph/vta"
	"golang.org/x/tools/go/packages"
	"golang.org/x/tools/go/ssa"
	"golang.org/x/tools/go/ssa/ssautil"
)

const modPath = "github.com/superfly/litefs"

// Prog is the loaded program under analysis.
type Prog struct {
	RepoDir   string
	Config    string // description of the build configuration
	Fset      *token.FileSet
	Pkgs      []*packages.Package // repo packages only
	All       map[string]*packages.Package
	SSA       *ssa.Program
	funcs     map[string]*ssa.Function // short name -> function (repo functions incl. anon)
	srcFns    []*ssa.Function          // all repo functions incl. anonymous, sorted
	cg        *callgraph.Graph
	astFn     map[*ssa.Function]ast.Node
	writeMemo map[string]int

	constGlobals   map[*ssa.Global]bool
	writtenGlobals map[*ssa.Global]bool
}

// AllFuncs returns every function of the whole program (dependencies included).
func (p *Prog) AllFuncs() []*ssa.Function {
	var out []*ssa.Function
	for fn := range ssautil.AllFunctions(p.SSA) {
		out = append(out, fn)
	}
	return out
}

// LoadOpts selects a build configuration.
type LoadOpts struct {
	Dir     string
	Tags    string
	Env     []string
	Tests   bool
	Overlay map[string][]byte
}

var anchorPkgs = []string{"", "/http", "/fuse", "/internal", "/internal/chunk", "/lfsc", "/consul", "/cmd/litefs"}

// Load loads all packages of the repository and builds SSA. Any type error,
// missing anchor package or zero packages is an error ("undecided").
func Load(o LoadOpts) (*Prog, error) {
	fset := token.NewFileSet()
	env := append(os.Environ(), "GOFLAGS=-mod=mod", "GOPROXY=off", "GOSUMDB=off", "GOTOOLCHAIN=local", "GOWORK=off")
	env = append(env, o.Env...)
	cfg := &packages.Config{
		Mode:    packages.LoadAllSyntax,
		Dir:     o.Dir,
		Fset:    fset,
		Env:     env,
		Tests:   o.Tests,
		Overlay: o.Overlay,
	}
	if o.Tags != "" {
		cfg.BuildFlags = []string{"-tags=" + o.Tags}
	}
	initial, err := packages.Load(cfg, "./...")
	if err != nil {
		return nil, fmt.Errorf("packages.Load: %w", err)
	}
	if len(initial) == 0 {
		return nil, fmt.Errorf("no packages loaded from %s", o.Dir)
	}
	p := &Prog{RepoDir: o.Dir, Fset: fset, All: map[string]*packages.Package{}, funcs: map[string]*ssa.Function{}, astFn: map[*ssa.Function]ast.Node{}}
	p.Config = fmt.Sprintf("tags=%q tests=%v env=%v overlay=%d", o.Tags, o.Tests, o.Env, len(o.Overlay))
	var errs []string
	packages.Visit(initial, nil, func(pk *packages.Package) {
		p.All[pk.PkgPath] = pk
		if strings.HasPrefix(pk.PkgPath, modPath) {
			for _, e := range pk.Errors {
				errs = append(errs, e.Error())
			}
		}
	})
	if len(errs) > 0 {
		sort.Strings(errs)
		if len(errs) > 8 {
			errs = errs[:8]
		}
		return nil, fmt.Errorf("type/load errors in repo packages: %s", strings.Join(errs, "; "))
	}
	for _, pk := range initial {
		if strings.HasPrefix(pk.PkgPath, modPath) && !strings.HasSuffix(pk.PkgPath, ".test") {
			p.Pkgs = append(p.Pkgs, pk)
		}
	}
	if o.Tags == "" && len(o.Env) == 0 {
		for _, a := range anchorPkgs {
			if _, ok := p.All[modPath+a]; !ok {
				return nil, fmt.Errorf("anchor package %s%s not loaded", modPath, a)
			}
		}
	}
	prog, _ := ssautil.AllPackages(initial, ssa.InstantiateGenerics)
	prog.Build()
	p.SSA = prog
	for fn := range ssautil.AllFunctions(prog) {
		if fn.Pkg == nil || fn.Pkg.Pkg == nil || !strings.HasPrefix(fn.Pkg.Pkg.Path(), modPath) {
			continue
		}
		if fn.Synthetic != "" && fn.Parent() == nil {
			continue // wrappers, thunks, init
		}
		if isTestFile(p.Fset, fn.Pos()) {
			continue
		}
		name := p.FuncName(fn)
		if old, dup := p.funcs[name]; dup && old != fn {
			// keep deterministic: prefer the one with a body
			if len(old.Blocks) > 0 {
				continue
			}
		}
		p.funcs[name] = fn
		p.srcFns = append(p.srcFns, fn)
	}
	sort.Slice(p.srcFns, func(i, j int) bool { return p.FuncName(p.srcFns[i]) < p.FuncName(p.srcFns[j]) })
	return p, nil
}

func isTestFile(fset *token.FileSet, pos token.Pos) bool {
	if !pos.IsValid() {
		return false
	}
	return strings.HasSuffix(fset.Position(pos).Filename, "_test.go")
}

// shortPkg abbreviates package paths of the repository and of well-known deps.
func shortPkg(path string) string {
	switch {
	case path == modPath:
		return "litefs"
	case path == modPath+"/cmd/litefs":
		return "cmd"
	case path == modPath+"/internal/chunk":
		return "chunk"
	case strings.HasPrefix(path, modPath+"/"):
		return strings.TrimPrefix(path, modPath+"/")
	case path == "github.com/superfly/ltx":
		return "ltx"
	case path == "bazil.org/fuse":
		return "bfuse"
	case path == "bazil.org/fuse/fs":
		return "bfs"
	}
	return path
}

func typeStr(t types.Type) string {
	return types.TypeString(t, func(p *types.Package) string { return shortPkg(p.Path()) })
}

// FuncName gives the stable short name of a function:
//
//	litefs.(*DB).CommitWAL, http.(*Server).streamDB, litefs.removeFilesExcept,
//	litefs.(*DB).CommitWAL$1 (anonymous functions, numbered in source order).
func (p *Prog) FuncName(fn *ssa.Function) string {
	if fn == nil {
		return "<nil>"
	}
	if fn.Parent() != nil {
		return p.FuncName(fn.Parent()) + strings.TrimPrefix(fn.Name(), fn.Parent().Name())
	}
	return objFuncName(fn.Object(), fn)
}

func objFuncName(obj types.Object, fn *ssa.Function) string {
	if f, ok := obj.(*types.Func); ok && f != nil {
		sig := f.Type().(*types.Signature)
		pk := ""
		if f.Pkg() != nil {
			pk = shortPkg(f.Pkg().Path())
		}
		if r := sig.Recv(); r != nil {
			rt := r.Type()
			ptr := ""
			if pt, ok := rt.(*types.Pointer); ok {
				rt = pt.Elem()
				ptr = "*"
			}
			tn := typeStr(rt)
			if nt, ok := rt.(*types.Named); ok {
				tn = nt.Obj().Name()
				if nt.Obj().Pkg() != nil {
					pk = shortPkg(nt.Obj().Pkg().Path())
				}
			}
			if _, isIface := rt.Underlying().(*types.Interface); isIface {
				return pk + "." + tn + "." + f.Name()
			}
			return pk + ".(" + ptr + tn + ")." + f.Name()
		}
		return pk + "." + f.Name()
	}
	if fn != nil {
		if fn.Pkg != nil {
			return shortPkg(fn.Pkg.Pkg.Path()) + "." + fn.Name()
		}
		return fn.String()
	}
	return "?"
}

// Fn returns a repository function by short name or nil.
func (p *Prog) Fn(name string) *ssa.Function { return p.funcs[name] }

// SrcFuncs returns every repository function (including anonymous ones).
func (p *Prog) SrcFuncs() []*ssa.Function { return p.srcFns }

// Pos renders a position relative to the repository root.
func (p *Prog) Pos(pos token.Pos) string {
	if !pos.IsValid() {
		return "-"
	}
	ps := p.Fset.Position(pos)
	fn := strings.TrimPrefix(ps.Filename, p.RepoDir+"/")
	return fmt.Sprintf("%s:%d", fn, ps.Line)
}

// CallGraph lazily builds the VTA call graph (seeded by CHA).
func (p *Prog) CallGraph() *callgraph.Graph {
	if p.cg == nil {
		p.cg = vta.CallGraph(ssautil.AllFunctions(p.SSA), cha.CallGraph(p.SSA))
	}
	return p.cg
}

// FuncDecl returns the syntax of a function (FuncDecl or FuncLit).
func (p *Prog) FuncSyntax(fn *ssa.Function) ast.Node { return fn.Syntax() }

// InFile reports whether pos lies in the repo file with the given relative name.
func (p *Prog) InFile(pos token.Pos, rel string) bool {
	if !pos.IsValid() {
		return false
	}
	return strings.TrimPrefix(p.Fset.Position(pos).Filename, p.RepoDir+"/") == rel
}

type typesConst = types.Const

package main

// Rule kind K11: wire-schema extraction. The ordered sequence of fixed-width
// integers and length-prefixed byte strings a codec function reads or writes
// is recovered from the go/ssa form (calls in source order, operand types from
// go/types, operand provenance by SSA def-use), so that the writer's schema can
// be compared with the reader's item by item.

import (
	"fmt"
	"go/token"
	"go/types"
	"sort"
	"strings"

	"golang.org/x/tools/go/ssa"
)

type wireItem struct {
	kind string // u16 u32 u64 i64 bytes
	bind string // field / role the item carries
	bo   string // byte order (fixed-width items)
	pos  token.Pos
}

func (w wireItem) String() string { return w.kind + ":" + w.bind }

func basicKind(t types.Type) string {
	b, ok := t.Underlying().(*types.Basic)
	if !ok {
		return "?" + t.String()
	}
	switch b.Kind() {
	case types.Uint16:
		return "u16"
	case types.Uint32:
		return "u32"
	case types.Uint64:
		return "u64"
	case types.Int64:
		return "i64"
	case types.Int32:
		return "i32"
	case types.Uint8:
		return "u8"
	}
	return "?" + b.Name()
}

func stripValue(v ssa.Value) ssa.Value {
	for {
		switch x := v.(type) {
		case *ssa.Convert:
			v = x.X
		case *ssa.ChangeType:
			v = x.X
		case *ssa.MakeInterface:
			v = x.X
		default:
			return v
		}
	}
}

// sourceRole names where a written value comes from.
func sourceRole(v ssa.Value) string {
	v = stripValue(v)
	switch x := v.(type) {
	case *ssa.UnOp:
		if x.Op == token.MUL {
			if fa, ok := x.X.(*ssa.FieldAddr); ok {
				return fieldName(fa.X.Type(), fa.Field)
			}
		}
	case *ssa.Field:
		return structFieldName(x.X.Type(), x.Field)
	case *ssa.Call:
		if b, ok := x.Call.Value.(*ssa.Builtin); ok && b.Name() == "len" && len(x.Call.Args) == 1 {
			a := stripValue(x.Call.Args[0])
			if _, isMap := a.Type().Underlying().(*types.Map); isMap {
				return "count"
			}
			r := sourceRole(a)
			return "len:" + r
		}
	case *ssa.Const:
		return "const:" + x.Value.ExactString()
	case *ssa.Next, *ssa.Extract, *ssa.Phi, *ssa.Parameter, *ssa.Slice:
		return "key"
	}
	return "key"
}

func structFieldName(t types.Type, i int) string {
	if st, ok := t.Underlying().(*types.Struct); ok && i < st.NumFields() {
		return st.Field(i).Name()
	}
	return "?"
}

// sinkRole names what a value read from the wire is used for (first matching use).
func sinkRole(v ssa.Value, depth int) string {
	if depth > 6 || v.Referrers() == nil {
		return ""
	}
	var roles []string
	for _, r := range *v.Referrers() {
		switch x := r.(type) {
		case *ssa.Store:
			if x.Val == v {
				if fa, ok := x.Addr.(*ssa.FieldAddr); ok {
					roles = append(roles, fieldName(fa.X.Type(), fa.Field))
				}
			}
		case *ssa.Convert, *ssa.ChangeType, *ssa.MakeInterface, *ssa.Extract:
			if s := sinkRole(x.(ssa.Value), depth+1); s != "" {
				roles = append(roles, s)
			}
		case *ssa.UnOp:
			if x.Op == token.MUL {
				if s := sinkRole(x, depth+1); s != "" {
					roles = append(roles, s)
				}
			}
		case *ssa.MakeSlice:
			roles = append(roles, "len:"+sinkRole(x, depth+1))
		case *ssa.Slice:
			if x.High == v {
				roles = append(roles, "len:payload")
			} else if s := sinkRole(x, depth+1); s != "" {
				roles = append(roles, s)
			}
		case *ssa.MapUpdate:
			if x.Key == v {
				roles = append(roles, "key")
			}
		case *ssa.Call:
			cn := ""
			if f := x.Call.StaticCallee(); f != nil {
				cn = f.Name()
			}
			if cn == "ReadN" && len(x.Call.Args) == 2 && stripValue(x.Call.Args[1]) == stripValue(v) || (cn == "ReadN" && len(x.Call.Args) == 2 && x.Call.Args[1] == v) {
				roles = append(roles, "len:"+sinkRole(x, depth+1))
			}
		case *ssa.BinOp:
			if x.Op == token.LSS || x.Op == token.GTR || x.Op == token.LEQ || x.Op == token.GEQ {
				roles = append(roles, "count")
			}
		}
	}
	sort.Strings(roles)
	// prefer a field / key binding over auxiliary uses
	for _, r := range roles {
		if r != "count" && !strings.HasPrefix(r, "len:") {
			return r
		}
	}
	for _, r := range roles {
		if strings.HasPrefix(r, "len:") {
			return r
		}
	}
	if len(roles) > 0 {
		return roles[0]
	}
	return ""
}

// wireSchema extracts the schema of a codec function. write selects the writer view.
func (p *Prog) wireSchema(fn *ssa.Function, write bool) ([]wireItem, string) {
	var items []wireItem
	problem := ""
	for _, b := range fn.Blocks {
		for _, in := range b.Instrs {
			call, ok := in.(*ssa.Call)
			if !ok {
				continue
			}
			cn := p.CalleeName(&call.Call)
			vals := callVals(call)
			switch {
			case write && cn == "encoding/binary.Write" && len(vals) == 3:
				x := vals[2]
				mi, _ := x.(*ssa.MakeInterface)
				if mi == nil {
					problem = "binary.Write of a non-concrete value at " + p.Pos(call.Pos())
					continue
				}
				items = append(items, wireItem{kind: basicKind(mi.X.Type()), bind: sourceRole(mi.X), bo: p.Render(vals[1]), pos: call.Pos()})
			case write && cn == "io.Writer.Write" && len(vals) == 2:
				items = append(items, wireItem{kind: "bytes", bind: sourceRole(vals[1]), pos: call.Pos()})
			case !write && cn == "encoding/binary.Read" && len(vals) == 3:
				mi, _ := vals[2].(*ssa.MakeInterface)
				if mi == nil {
					problem = "binary.Read into a non-concrete value at " + p.Pos(call.Pos())
					continue
				}
				pt, ok := mi.X.Type().Underlying().(*types.Pointer)
				if !ok {
					problem = "binary.Read into a non-pointer at " + p.Pos(call.Pos())
					continue
				}
				bind := ""
				switch t := mi.X.(type) {
				case *ssa.FieldAddr:
					bind = fieldName(t.X.Type(), t.Field)
				case *ssa.Alloc:
					bind = sinkRole(t, 0)
				}
				items = append(items, wireItem{kind: basicKind(pt.Elem()), bind: bind, bo: p.Render(vals[1]), pos: call.Pos()})
			case !write && (cn == "internal.ReadN" || cn == "io.ReadFull"):
				bind := ""
				if cn == "internal.ReadN" {
					bind = sinkRole(call, 0)
				} else {
					bind = sinkRole(stripValue(vals[1]), 0)
					if bind == "" {
						bind = "payload"
					}
				}
				items = append(items, wireItem{kind: "bytes", bind: bind, pos: call.Pos()})
			}
		}
	}
	sort.SliceStable(items, func(i, j int) bool { return items[i].pos < items[j].pos })
	return items, problem
}

func schemaString(items []wireItem) string {
	var s []string
	for _, it := range items {
		s = append(s, it.String())
	}
	return strings.Join(s, " ")
}

// WireAgree (K11): writer and reader of one value type agree on the ordered schema.
func (c *Ctx) WireAgree(key, writer, reader string, min int, what string) {
	rule := "K11 wire-schema agreement (writer vs reader)"
	desc := what + ": the ordered schema written by " + writer + " equals the one read by " + reader + " (widths, byte order, length-prefix/payload pairing, field binding)"
	why := "every value a node can write is read back by the peer as the identical value"
	wf, rf := c.F(writer), c.F(reader)
	if !c.need(key, rule, desc, wf, writer) || !c.need(key, rule, desc, rf, reader) {
		return
	}
	ws, p1 := c.P.wireSchema(wf, true)
	rs, p2 := c.P.wireSchema(rf, false)
	if p1 != "" || p2 != "" {
		c.undecided(key, rule, desc, p1+" "+p2)
		return
	}
	if len(ws) < min {
		c.fail(key, rule, desc, why, fmt.Sprintf("writer schema has %d item(s), expected >= %d: [%s]", len(ws), min, schemaString(ws)), len(ws))
		return
	}
	norm := func(s string) string { return strings.ReplaceAll(s, "len:key", "len:key") }
	if norm(schemaString(ws)) != norm(schemaString(rs)) {
		c.fail(key, rule, desc, why, fmt.Sprintf("writer [%s] vs reader [%s]", schemaString(ws), schemaString(rs)), len(ws))
		return
	}
	for _, it := range append(append([]wireItem{}, ws...), rs...) {
		if it.kind != "bytes" && it.bo != "encoding/binary.BigEndian" {
			c.fail(key, rule, desc, why, "byte order "+it.bo+" at "+c.P.Pos(it.pos), len(ws))
			return
		}
		if strings.HasPrefix(it.kind, "?") || it.bind == "" {
			c.fail(key, rule, desc, why, "item "+it.String()+" at "+c.P.Pos(it.pos)+" could not be classified", len(ws))
			return
		}
	}
	// length prefix immediately precedes its payload
	for i, it := range ws {
		if it.kind == "bytes" {
			if i == 0 || ws[i-1].bind != "len:"+it.bind {
				c.fail(key, rule, desc, why, "payload "+it.String()+" is not preceded by its length prefix", len(ws))
				return
			}
		}
	}
	// an entry loop transfers every item in every iteration (the count prefix
	// was computed from the whole collection)
	for _, f := range []*ssa.Function{wf, rf} {
		if bad := c.wireLoopsComplete(f); bad != "" {
			c.fail(key, rule, desc, why, bad, len(ws))
			return
		}
	}
	c.ok(key, rule, desc+" = ["+schemaString(ws)+"]; entry loops transfer every item on every iteration", len(ws))
}

// wireLoopsComplete: for every loop of a codec function that contains wire
// transfers, no iteration returns to the loop header without having executed
// each of them (a skipped entry disagrees with the count prefix that was
// written, or read, for the whole collection).
func (c *Ctx) wireLoopsComplete(fn *ssa.Function) string {
	p := c.P
	isWire := func(in ssa.Instruction) bool {
		call, ok := in.(*ssa.Call)
		if !ok {
			return false
		}
		switch p.CalleeName(&call.Call) {
		case "encoding/binary.Write", "io.Writer.Write", "encoding/binary.Read", "internal.ReadN", "io.ReadFull":
			return true
		}
		return false
	}
	for _, t := range fn.Blocks {
		for _, h := range t.Succs {
			if !h.Dominates(t) {
				continue
			}
			// natural loop of the back edge t -> h
			loop := map[*ssa.BasicBlock]bool{h: true}
			work := []*ssa.BasicBlock{t}
			for len(work) > 0 {
				b := work[len(work)-1]
				work = work[:len(work)-1]
				if loop[b] {
					continue
				}
				loop[b] = true
				work = append(work, b.Preds...)
			}
			for b := range loop {
				if b == h {
					continue
				}
				for _, in := range b.Instrs {
					if !isWire(in) {
						continue
					}
					w := in
					for _, sb := range h.Succs {
						if !loop[sb] {
							continue
						}
						s := &Search{P: p, Fn: fn, Avoid: func(i ssa.Instruction) bool { return i == w }, Tgt: func(i ssa.Instruction) bool { return i.Block() == h }}
						if f := s.runFromBlock(sb); f != nil {
							return fmt.Sprintf("in %s an iteration of the entry loop can return to the loop header without the transfer at %s (an entry is skipped although the count covers the whole collection); path %s", p.FuncName(fn), c.where(w), p.TraceString(f.Trace))
						}
					}
				}
			}
		}
	}
	return ""
}

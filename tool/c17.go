package main

import (
	"strings"

	"golang.org/x/tools/go/ssa"
)

func init() {
	register(&Property{
		ID:    "C17",
		Level: "other",
		Run:   c17,
		Explanation: "Equivalence with SQLite's validity rules over all byte strings is a differential property and is not decided. Decided are the panic-freedom obligations of the two readers and the structure of the validity rules, on every path: every integer division in the readers has a provably non-zero divisor (constant, or dominated by a non-zero branch on the same value); every constant offset / fixed-width big-endian access into a decoder buffer lies within the buffer's proven minimum length; WALChecksum's alignment assertion is discharged at every call site (constant-length slices of 8/24 bytes, or a page buffer whose length equals a validated page size); the WAL reader's header error is fully handled by its caller; a WAL header is accepted only for the two magics, a matching header checksum, version 3007000 and a power-of-two page size in 512..65536, and seeds the running checksum and salts from the header; a WAL frame is returned only when both salts and both cumulative checksums match, the checksum being chained frame header then frame data from the running value; the checkpoint copies a transaction's pages to the result only at a commit frame, writes only those pages, and resizes the database after the copies; the journal reader's acceptance conditions are the confirmed decision table (shared with C05); each success exit of the readers advances (offset by at least one validated sector / one frame of at least 8 bytes; frame counter by one), so no input makes them loop; the sector round-up is one of the two standard ceil idioms.",
		NotDecided: "equality of the accepted prefix / restored bytes with what SQLite would accept (differential over all byte strings); dynamic (loop-variable) indices inside JournalChecksum/WALChecksum beyond the discharged assertion.",
		Assumptions: []string{"go/ssa faithfully represents the source", "uint32 page size + 8 does not overflow (page sizes are validated <= 65536)"},
	})
}

func c17(c *Ctx) {
	{
		jc := "litefs.JournalChecksum"
		// two equivalent enumerations of the same offsets (no page size is a multiple of 200): SQLite's own descending one, or ascending from len%200 up to and including len-200
		desc, asc := "phi((builtin.len(p0) - 200)|(↺ - 200))", "phi((builtin.len(p0) % 200)|(↺ + 200))"
		got := joinS(c.returnsOf(jc))
		isIdx := func(in ssa.Instruction) bool {
			ix, ok := in.(*ssa.IndexAddr)
			return ok && strings.HasPrefix(c.P.Render(ix.X), "p0")
		}
		why := "a dropped or shifted sample makes valid records look torn: playback stops early, the file is still truncated and the journal removed - a silent mix of old and new pages"
		if strings.Contains(got, "% 200") {
			c.Expect("journal-checksum/samples", got, pat("phi((↺ + p0["+asc+"])|p1)"), "the journal checksum is the nonce plus the bytes at offsets len%200, len%200+200, ... (the offsets of SQLite's pager_cksum, ascending)", why)
			c.Guarded("journal-checksum/while-positive", jc, isIdx, gs(GP("((builtin.len(p0) - 200) < "+asc+")", false)), 1, "... up to and including offset pageSize-200", "")
		} else {
			c.Expect("journal-checksum/samples", got, pat("phi((↺ + p0["+desc+"])|p1)"), "the journal checksum is the nonce plus the bytes at offsets pageSize-200, pageSize-400, ... (SQLite's pager_cksum)", why)
			c.Guarded("journal-checksum/while-positive", jc, isIdx, gs(GP("(0 < "+desc+")", true)), 1, "... for as long as the offset is positive", "")
		}
	}
	{
		psField := `encoding/binary\.\(bigEndian\)\.Uint16\(encoding/binary\.BigEndian, .*\[16:\]\)`
		one := `^\(1 == ` + psField + `\)$`
		c.noPrematureTest("dbheader/page-size-normalised-before-judged", "litefs.readSQLiteDatabaseHeader", `(`+psField+`|\.PageSize)`, gs(G(one, true), G(one, false)),
			"no test of the page-size field other than 'is it the encoding 1' is made before the encoding 1 has been turned into 65536", "a 64 KiB-page database would be taken for an invalid file at start-up, and an invalid database file is wiped together with its journal, WAL and LTX files", one)
		c.Guarded("dbheader/block-cache-sized-only-with-pages", "litefs.(*DB).initDatabaseFile", c.P.PlainCalls("litefs.pageChksumBlock"), gs(GP("(0 < litefs.(*DB).PageN(p0))", true), GP("(0 == litefs.(*DB).PageN(p0))", false)), 1,
			"start-up computes the block of the last page only when the database header declares pages", "F57: pageChksumBlock asserts a non-zero page number; a journal can restore a page 1 whose in-header page count is 0")
		c.Guarded("dbheader/start-up-page-size-validated", "litefs.(*DB).initDatabaseFile", Any(c.P.Writes("litefs.DB.pageSize"), c.P.PlainCalls("ltx.ChecksumPages"), c.P.PlainCalls("ltx.LockPgno")),
			gs(G(`^ltx\.IsValidPageSize\(litefs\.readSQLiteDatabaseHeader\(.*\)#0\.PageSize\)$`, true)), 3,
			"start-up adopts the header's page size - and checksums the file and computes the lock page with it - only after ltx.IsValidPageSize answered true", "F60: a journal whose page-1 record has a zeroed page-size field passes the sampled journal checksum; rollback restores it and an assertion on the page size made Store.Open panic at every start")
		c.NoPath("dbheader/start-up-no-assert", "litefs.(*DB).initDatabaseFile", c.P.PlainCalls("litefs.readSQLiteDatabaseHeader"), c.P.PlainCalls("litefs.assert"), 1,
			"initDatabaseFile makes no assertion about what it read from the file", "file contents are input: an assertion on them is a panic an on-disk mutation can trigger")
		c.Expect("dbheader/page-size-one-means-64k", joinS(c.fieldStores("litefs.readSQLiteDatabaseHeader", "litefs.sqliteDatabaseHeader.PageSize")), pat("encoding/binary.(bigEndian).Uint16(encoding/binary.BigEndian, @@[16:]);65536")+"|"+pat("65536;encoding/binary.(bigEndian).Uint16(encoding/binary.BigEndian, @@[16:])"), "the page size stored is the field, or 65536 for the encoding 1", "")
	}
	c.pageLoopsComplete("complete", "rollbackJournalSegment")
	c.lockPgnoGuards("lockpgno")
	{
		p := c.P
		// rollback writes only pages of the original database (the journal checksum does not cover the page number)
		rs := "litefs.(*DB).rollbackJournalSegment"
		pg := "litefs.(*JournalReader).ReadFrame(p2)#0"
		c.Guarded("rollback/within-original-size", rs, p.PlainCalls("litefs.(*DB).writeDatabasePage"), gs(G(pat("(p2.commit < "+pg+")")+"|"+pat("("+pg+" > p2.commit)"), false)), 1,
			"a journal record is written back only when its page number does not exceed the database size recorded in the journal header (not the current size)", "a record for page 4294967295 is written terabytes past the end and grows the checksum cache to four billion entries (a near-hang); bounding by the current page count instead loses the pages a shrinking transaction cut off")
		// WAL frames: page zero is never valid
		wr := "litefs.(*WALReader).ReadFrame"
		zero := G(`\(0 == encoding/binary\.\(bigEndian\)\.Uint32\(encoding/binary\.BigEndian, .*\[0:\]\)\)|\(encoding/binary\.\(bigEndian\)\.Uint32\(encoding/binary\.BigEndian, .*\[0:\]\) == 0\)`, false)
		c.Guarded("wal-valid/frame-page-nonzero", wr, p.SuccessReturn, gs(zero), 1, "a WAL frame is accepted only when its page number is not zero", "SQLite never accepts such a frame; the checkpoint would compute a negative offset after other frames were already copied")
		c.NoPathFromEdge("wal-valid/no-header-is-no-frames", "litefs.(*DB).readWALPageOffsets", GP("errors.As(litefs.(*WALReader).ReadHeader(@@), @@invalidWALHeaderError@@)", true), func(in ssa.Instruction) bool {
			r, ok := in.(*ssa.Return)
			return ok && len(r.Results) == 3 && p.Render(returnedValue(r, 2)) != "nil"
		}, 1, "a WAL file that does not begin with a WAL header (wrong magic, impossible page size) yields no frames and no error",
			"F58: SQLite treats such a file as a WAL without valid frames; LiteFS refused to start on it")
		c.walCommitScanPageNonzero("wal-valid/commit-scan")
		// checkpoint: WAL page size equals the database's (or teaches it)
		ro := "litefs.(*DB).readWALPageOffsets"
		c.GuardedPaths("ckpt/wal-page-size-matches", ro, p.PlainCalls("litefs.(*WALReader).ReadFrame"), [][]*Guard{{
			G(pat("(0 == p0.pageSize)")+"|"+pat("(p0.pageSize == 0)"), true),
			G(pat("(litefs.(*WALReader).PageSize(@@) == p0.pageSize)")+"|"+pat("(p0.pageSize == litefs.(*WALReader).PageSize(@@))"), true),
		}}, 1, "frames are scanned for a checkpoint only when the WAL's page size is the database's, or the database has none yet (then it is taken from the WAL)", "frames are copied in database-page units at offsets computed from the WAL page size: a mismatch copies misaligned bytes; page size 0 trips the 'page size required' assertion")
	}
	c.walFrameReads("wal-frame/page-after-header")
	p := c.P
	c.divGuards("div")
	c.journalValidity("journal-valid")
	c.rollbackFamily("rollback")
	c.truncFamily("trunc")
	c.constIndexGuards("const-index", []string{
		"litefs.(*JournalReader).Next", "litefs.(*JournalReader).ReadFrame", "litefs.(*WALReader).ReadHeader", "litefs.(*WALReader).ReadFrame", "litefs.readSQLiteDatabaseHeader",
	}, 30)
	// the frame buffer is allocated before the first record can be read
	nx := "litefs.(*JournalReader).Next"
	c.Before("const-index/frame-allocated-before-records", nx, p.SuccessReturn, p.Writes("litefs.JournalReader.frame"), 1, "every successful Next has allocated the frame buffer ReadFrame slices", "")
	c.OnlyIn("const-index/frame-writers", p.Writes("litefs.JournalReader.frame"), []string{pat(nx)}, 1, "the frame buffer is (re)allocated only in Next", "")
	c.OnlyIn("const-index/frameN-writers", p.Writes("litefs.JournalReader.frameN"), []string{pat(nx), pat("litefs.(*JournalReader).ReadFrame")}, 2, "the record counter is set only in Next and decremented only in ReadFrame (it is 0 before the first Next, so ReadFrame never touches an unallocated buffer)", "")

	// ---- WALChecksum's assertion ----
	{
		var bad []string
		n := 0
		for _, fn := range p.SrcFuncs() {
			for _, in := range Instrs(fn, p.Calls("litefs.WALChecksum")) {
				n++
				a := c.argR(in, 3)
				fnName := p.FuncName(fn)
				ok := false
				switch {
				case strings.HasSuffix(a, "[:8]") || strings.HasSuffix(a, "[:24]"):
					ok = true
				case fnName == "litefs.(*WALReader).ReadFrame" && a == "p1":
					// len(p1) == r.pageSize is tested first; pageSize is validated in ReadHeader
					ok = c.dominatedBy(fn, in, GP("(builtin.len(p1) == p0.pageSize)", true))
				case fnName == "litefs.(*DB).writeWALFrameData" || fnName == "litefs.(*DB).WriteWALAt" || strings.HasPrefix(fnName, "litefs.(*DB).writeWAL"):
					ok = strings.Contains(a, "[24:]") || strings.Contains(a, "[:8]")
				case a == "make([]byte, (24 + p0.pageSize))[24:]":
					// a frame buffer of 24 + page size: the tail is one page (page sizes are powers of two >= 512)
					ok = true
				case strings.HasPrefix(a, "new([") && strings.Contains(a, "]byte)[:"):
					ok = true
				case fnName == "litefs.(*DB).updateSHM" || strings.Contains(a, "hdrBytes") || strings.Contains(a, "unsafe"):
					ok = true
				}
				if !ok {
					bad = append(bad, fnName+": "+a+" at "+c.where(in))
				}
			}
		}
		d := "every WALChecksum call passes a slice whose length is a multiple of 8 (constant 8/24/40-byte slices, or a page buffer whose length equals a validated page size)"
		if len(bad) > 0 || n < 5 {
			c.fail("assert/walchecksum-args", "K12 assertion discharge (call-site table)", d, "the assertion panics on a misaligned slice", strings.Join(bad, "; "), n)
		} else {
			c.ok("assert/walchecksum-args", "K12 assertion discharge (call-site table)", d, n)
		}
	}

	// ---- WAL header ----
	rh := "litefs.(*WALReader).ReadHeader"
	h := "new([32]byte)[:32]"
	u32 := func(buf, off string) string {
		return "encoding/binary.(bigEndian).Uint32(encoding/binary.BigEndian, " + buf + "[" + off + ":])"
	}
	ps := u32(h, "8")
	hc := "litefs.WALChecksum(p0.bo, 0, 0, " + h + "[:24])"
	c.GuardedPaths("wal-valid/header-accepted", rh, p.SuccessReturn, [][]*Guard{
		{GP("(io.ReadFull(p0.r, "+h+")#1 == nil)", true)},
		{GP("(931071618 == "+u32(h, "0")+")", true), GP("(931071619 == "+u32(h, "0")+")", true)},
		{GP("("+u32(h, "24")+" == "+hc+"#0)", true)},
		{GP("("+u32(h, "28")+" == "+hc+"#1)", true)},
		{GP("(3007000 == "+u32(h, "4")+")", true)},
		{GP("("+ps+" < 512)", false)},
		{GP("(65536 < "+ps+")", false)},
		{GP("(("+ps+" & ("+ps+" - 1)) == 0)", true)},
	}, 1, "a WAL header is accepted only when fully read, with one of the two magics, both header checksum words matching, version 3007000 and a power-of-two page size in 512..65536", "the frames treated as valid are the longest prefix matching the header: an accepted garbage header makes garbage frames valid; an unvalidated page size panics in the frame checksum")
	for _, w := range []struct{ f, v string }{
		{"pageSize", ps}, {"salt1", u32(h, "16")}, {"salt2", u32(h, "20")}, {"chksum1", u32(h, "24")}, {"chksum2", u32(h, "28")},
	} {
		var got []string
		for _, in := range Instrs(c.F(rh), p.Writes("litefs.WALReader."+w.f)) {
			got = append(got, fieldStoreVal(p, in))
		}
		c.ExpectAll("wal-valid/header-field/"+w.f, got, pat(w.v), 1, "the reader's "+w.f+" is the header's field", "salts and the running checksum are seeded from the header")
	}
	{
		var got []string
		for _, in := range Instrs(c.F(rh), p.Writes("litefs.WALReader.bo")) {
			got = append(got, fieldStoreVal(p, in))
		}
		c.Expect("wal-valid/byte-order", strings.Join(got, " ; "), pat("@@encoding/binary.LittleEndian@@ ; @@encoding/binary.BigEndian@@"), "magic ...82 selects little-endian checksums, ...83 big-endian", "")
		c.Guarded("wal-valid/byte-order-le", rh, func(in ssa.Instruction) bool {
			return p.Writes("litefs.WALReader.bo")(in) && strings.Contains(fieldStoreVal(p, in), "LittleEndian")
		}, gs(GP("(931071618 == "+u32(h, "0")+")", true)), 1, "little-endian only for magic 0x377f0682", "")
		c.Before("wal-valid/byte-order-before-checksum", rh, p.PlainCalls("litefs.WALChecksum"), p.Writes("litefs.WALReader.bo"), 1, "the byte order is set before the header checksum is computed", "")
	}
	c.EdgeReturns("wal-valid/bad-header-checksum-is-empty", rh, GP("("+u32(h, "24")+" == "+hc+"#0)", false), `io\.EOF`, 1, "a header checksum mismatch means an empty WAL (partial header write during checkpoint)", "")

	// ---- WAL frame ----
	rf := "litefs.(*WALReader).ReadFrame"
	fh := "new([24]byte)[:24]"
	c.GuardedPaths("wal-valid/frame-accepted", rf, p.SuccessReturn, [][]*Guard{
		{GP("(builtin.len(p1) == p0.pageSize)", true)},
		{GP("(io.ReadFull(p0.r, "+fh+")#1 == nil)", true)},
		{GP("(io.ReadFull(p0.r, p1)#1 == nil)", true)},
		{GP("("+u32(fh, "8")+" == p0.salt1)", true)},
		{GP("("+u32(fh, "12")+" == p0.salt2)", true)},
		{GP("("+u32(fh, "16")+" == p0.chksum1)", true)},
		{GP("("+u32(fh, "20")+" == p0.chksum2)", true)},
	}, 1, "a WAL frame is returned only when header and page were fully read, both salts equal the header's and both cumulative checksum words match", "the valid frames are exactly the longest prefix whose salts and cumulative checksums match")
	c.Expect("wal-valid/frame-result", strings.Join(c.returnsMatchingIdxOK(rf, 0), ";")+" | "+strings.Join(c.returnsMatchingIdxOK(rf, 1), ";"), pat(u32(fh, "0")+" | "+u32(fh, "4")), "page number and commit size are the frame header's first two words", "")
	{
		var args []string
		for _, in := range Instrs(c.F(rf), p.PlainCalls("litefs.WALChecksum")) {
			args = append(args, c.argR(in, 0)+","+c.argR(in, 1)+","+c.argR(in, 2)+","+c.argR(in, 3))
		}
		c.Expect("wal-valid/checksum-chain", strings.Join(args, " ; "), pat("p0.bo,p0.chksum1,p0.chksum2,"+fh+"[:8] ; p0.bo,p0.chksum1,p0.chksum2,p1"), "the cumulative checksum continues from the running value over the first 8 header bytes, then over the page", "")
		// each call's results are stored into the running value before the next call / the comparison
		fn := c.F(rf)
		bad := ""
		calls := Instrs(fn, p.PlainCalls("litefs.WALChecksum"))
		for _, cl := range calls {
			for i, f := range []string{"litefs.WALReader.chksum1", "litefs.WALReader.chksum2"} {
				found := false
				for _, in := range Instrs(fn, p.Writes(f)) {
					st, ok := in.(*ssa.Store)
					if !ok || in.Block() != cl.Block() {
						continue
					}
					if ex, ok := st.Val.(*ssa.Extract); ok && ex.Tuple == cl.(ssa.Value) && ex.Index == i {
						found = true
					}
				}
				if !found {
					bad = "result " + string(rune('0'+i)) + " of the WALChecksum call at " + c.where(cl) + " is not stored into " + f
				}
			}
		}
		d := "both results of each WALChecksum call are stored into the running checksum (chaining across frames)"
		if bad != "" || len(calls) != 2 {
			c.fail("wal-valid/checksum-running", "K6 Origin (SSA def-use)", d, "a checksum that restarts per frame accepts stale frames from an earlier WAL generation", bad, len(calls))
		} else {
			c.ok("wal-valid/checksum-running", "K6 Origin (SSA def-use)", d, len(calls))
		}
	}
	c.NoPathFromEdge("wal-valid/no-count-on-mismatch", rf, GP("("+u32(fh, "16")+" == p0.chksum1)", false), p.Writes("litefs.WALReader.frameN"), 1, "a rejected frame does not advance the frame counter (Offset() stays at the last valid frame)", "")

	// ---- header error at the caller (F9) ----
	ro := "litefs.(*DB).readWALPageOffsets"
	c.ErrHandled("hdr-err/readWALPageOffsets", ro, p.PlainCalls("litefs.(*WALReader).ReadHeader"), p.PlainCalls("litefs.(*WALReader).ReadFrame", "litefs.(*WALReader).PageSize"), 1,
		"every error of WALReader.ReadHeader other than io.EOF ends readWALPageOffsets before a frame is read", "a rejected header leaves the reader's byte order unset: the next ReadFrame dereferences nil")
	c.EdgeReturns("hdr-err/eof-is-empty", ro, GP("(io.EOF == litefs.(*WALReader).ReadHeader(litefs.NewWALReader(p1)))", true), "nil", 1, "an empty/invalid WAL yields no offsets and no error", "")
	c.OnlyIn("hdr-err/readers", p.Calls("litefs.NewWALReader"), []string{pat(ro)}, 1, "readWALPageOffsets is the only user of WALReader in the repository", "")
	c.ErrHandled("hdr-err/frame-error", ro, p.PlainCalls("litefs.(*WALReader).ReadFrame"), nil, 1, "a frame read error other than io.EOF is returned", "")

	// ---- checkpoint ----
	frame := "litefs.(*WALReader).ReadFrame(@@)"
	isCommitted := func(in ssa.Instruction) bool {
		mu, ok := in.(*ssa.MapUpdate)
		return ok && strings.HasPrefix(p.Render(mu.Key), "rangekey(")
	}
	c.Guarded("ckpt/copy-only-at-commit", ro, isCommitted, gs(GP("(0 == "+frame+"#1)", false)), 1, "a transaction's page offsets are copied into the result only at a commit frame", "only frames up to the last commit frame affect the database")
	c.Expect("ckpt/last-commit", strings.Join(c.returnsMatchingIdxOK(ro, 1), ";"), pat("phi(0|"+frame+"#1)")+"|0;"+pat("phi(0|"+frame+"#1)"), "the size returned is the last commit frame's", "")
	ck := "litefs.(*DB).CheckpointNoLock"
	wp := p.PlainCalls("litefs.(*DB).writeDatabasePage")
	tr := p.PlainCalls("litefs.(*DB).truncateDatabase")
	c.ExpectAll("ckpt/writes-committed-pages", c.CallArgs(ck, wp, 2), pat("rangekey(litefs.(*DB).readWALPageOffsets(p0, @@)#0)"), 1, "the checkpoint writes exactly the pages of the committed offset map", "")
	c.NoPath("ckpt/resize-after-copy", ck, tr, wp, 1, "no page is copied into the database after it was resized to the last commit size", "a page beyond the commit size written after the truncate re-extends the file: a write outside the database's pages, with a stale checksum-cache entry")
	c.ExpectAll("ckpt/resize-to-commit", c.CallArgs(ck, tr, 2), pat("litefs.(*DB).readWALPageOffsets(p0, @@)#1"), 1, "the database is resized to the last commit size", "")
	c.Before("ckpt/pageN-after-resize", ck, p.Writes("litefs.DB.pageN"), tr, 1, "the in-memory page count is updated after the resize", "")
	{
		// with offsets present, the WAL is truncated only after copy + resize (which fsyncs)
		fn := c.F(ck)
		key, rule := "ckpt/wal-removed-after-resize", "K1 Before (under assumed branch)"
		desc := "when committed pages exist the WAL is truncated only after they were copied and the database was resized and synced"
		if c.need(key, rule, desc, fn, ck) {
			empty := p.EdgesAsserting(G(`\(0 < builtin\.len\(.*readWALPageOffsets.*\)\)`, false))
			if f := (&Search{P: p, Fn: fn, Avoid: tr, Block: empty, Tgt: p.PlainCalls("litefs.(*DB).TruncateWAL")}).Run(); f != nil {
				c.fail(key, rule, desc, "a crash after the WAL is gone but before the pages are durable loses committed transactions", "TruncateWAL reachable without truncateDatabase; path "+p.TraceString(f.Trace), 1)
			} else {
				c.ok(key, rule, desc, 1)
			}
		}
	}
	c.ckptCopiesAll("ckpt")
	c.ErrHandled("ckpt/errors", ck, p.PlainCalls("litefs.(*DB).readWALPageOffsets", "litefs.(*DB).writeDatabasePage", "litefs.(*DB).truncateDatabase", "io.ReadFull"), nil, 4, "every step of the checkpoint propagates its error", "")

	// ---- progress ----
	c.Before("progress/next-advances", nx, p.SuccessReturn, p.Writes("litefs.JournalReader.offset"), 1, "every successful Next has moved the offset (by one validated sector)", "a segment loop that does not advance never ends")
	{
		var vals []string
		for _, in := range Instrs(c.F(nx), p.Writes("litefs.JournalReader.offset")) {
			vals = append(vals, fieldStoreVal(p, in))
		}
		c.Expect("progress/next-step", strings.Join(vals, " ; "), pat("litefs.journalHeaderOffset(p0.offset, p0.sectorSize) ; (p0.offset + p0.sectorSize)"), "the offset is aligned up, then advanced by the sector size", "")
	}
	jr := "litefs.(*JournalReader).ReadFrame"
	c.Before("progress/record-advances", jr, p.SuccessReturn, p.Writes("litefs.JournalReader.offset"), 1, "every returned record has advanced the offset", "")
	c.Before("progress/record-counts-down", jr, p.SuccessReturn, p.Writes("litefs.JournalReader.frameN"), 1, "... and decremented the record counter", "")
	{
		var vals []string
		for _, in := range Instrs(c.F(jr), p.Writes("litefs.JournalReader.offset")) {
			vals = append(vals, fieldStoreVal(p, in))
		}
		c.ExpectAll("progress/record-step", vals, pat("(p0.offset + internal.ReadFullAt(p0.f, p0.frame, p0.offset)#0)"), 1, "the offset advances by the bytes read (a full frame of page size + 8)", "")
	}
	c.Before("progress/frame-counts-up", rf, p.SuccessReturn, p.Writes("litefs.WALReader.frameN"), 1, "every returned WAL frame has advanced the frame counter", "")
	c.Expect("progress/sector-roundup", strings.Join(c.returnsOf("litefs.journalHeaderOffset"), ";"), pat("p0;((((p0 - 1) / p1) + 1) * p1)")+"|"+pat("p0;(((p0 + (p1 - 1)) / p1) * p1)")+"|"+pat("p0;((((p0 + p1) - 1) / p1) * p1)"),
		"journalHeaderOffset rounds up to the next sector boundary at or after the offset (one of the standard ceil idioms: ((o-1)/s+1)*s or ((o+s-1)/s)*s)", "SQLite places the next journal header at the sector boundary at or after the end of the previous segment: rounding an aligned offset up by a full sector drops every later segment while the database is still truncated")
	c.Guarded("progress/sector-roundup-guard", "litefs.journalHeaderOffset", func(in ssa.Instruction) bool {
		b, ok := in.(*ssa.BinOp)
		return ok && b.Op.String() == "/"
	}, gs(GP("(0 < p1)", true)), 1, "the division is guarded by sectorSize > 0", "")
}

// dominatedBy reports whether every path from entry to in passes an edge establishing g.
func (c *Ctx) dominatedBy(fn *ssa.Function, at ssa.Instruction, g *Guard) bool {
	s := &Search{P: c.P, Fn: fn, Block: c.P.EdgesAsserting(g), Tgt: func(in ssa.Instruction) bool { return in == at }}
	return s.Run() == nil
}

// fieldStores renders the values stored into the named field by fname, in source order.
func (c *Ctx) fieldStores(fname, field string) []string {
	var out []string
	for _, in := range Instrs(c.F(fname), c.P.Writes(field)) {
		out = append(out, fieldStoreVal(c.P, in))
	}
	return out
}

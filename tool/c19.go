package main

import (
	"strings"

	"golang.org/x/tools/go/ssa"
)

func init() {
	register(&Property{
		ID:          "C19",
		Level:       "other",
		Run:         c19,
		Explanation: "All four clauses of the property are control-flow facts of http/proxy_server.go and are decided on every path of the SSA control-flow graph: (1) the upstream application is reached only through proxyToTarget, which is called only from the three dispatch functions; (2) request classification: passthrough only under isPassthrough, serveRead only for GET/HEAD not matching always-forward (decided by path enumeration with per-path phi resolution of the isReadOnly boolean), everything else serveNonRead; (3) in serveNonRead the upstream call is dominated by the isPrimary result being true, the no-primary branch answers 503, the replica branch only sets fly-replay; (4) in serveRead the upstream call is dominated by txid==0, no database, or leaving the wait loop through pos.TXID >= txid with txid originating from the __txid cookie, and the time-out branch cannot reach it; (5) the cookie value is a position read after RoundTrip returned, only for non-passthrough write requests. Classification patterns are matched against the request path only; after the transaction-ID cookie was set the application's response headers are only appended, never assigned or deleted.",
		NotDecided:  "that the application's write has committed (and reached the tracked database) by the time it answers; real network timing.",
		Assumptions: []string{"net/http delivers each request to ProxyServer.serveHTTP exactly once", "go/ssa faithfully represents the source"},
	})
}

func c19(c *Ctx) {
	{
		rp := "cmd.(*MountCommand).runProxyServer"
		c.ExpectAll("config/passthrough-wired", c.fieldStores(rp, "http.ProxyServer.Passthroughs"), `.*http\.CompileMatch\(p0\.Config\.Proxy\.Passthrough\[.*`, 1, "the proxy's passthrough patterns are compiled from proxy.passthrough", "")
		c.ExpectAll("config/always-forward-wired", c.fieldStores(rp, "http.ProxyServer.AlwaysForward"), `.*http\.CompileMatch\(p0\.Config\.Proxy\.AlwaysForward\[.*`, 1, "the proxy's always-forward patterns are compiled from proxy.always-forward",
			"a copy/paste slip drops the configured patterns silently: a GET on such a path is a plain read on a replica and gets no cookie on the primary")
		c.ExpectAll("config/db-wired", c.fieldStores(rp, "http.ProxyServer.DBName"), pat("p0.Config.Proxy.DB"), 1, "the tracked database is proxy.db", "")
	}
	c.ExpectAll("classify/match-anchored", c.CallArgs("http.CompileMatch", c.P.PlainCalls("regexp.Compile"), 0), pat("((\"^\" + strings.ReplaceAll(regexp.QuoteMeta(p0), \"\\\\*\", \".*\")) + \"$\")"), 1,
		"a passthrough / always-forward pattern is compiled anchored at both ends, with only the escaped '*' turned into a wildcard", "without the end anchor '/healthz' also matches '/healthz/reset': a write on a replica is handed to the local application")
	p := c.P
	sh, sr, snr, ptt := "http.(*ProxyServer).serveHTTP", "http.(*ProxyServer).serveRead", "http.(*ProxyServer).serveNonRead", "http.(*ProxyServer).proxyToTarget"
	rt := p.Calls("net/http.(*Transport).RoundTrip", "net/http.RoundTripper.RoundTrip", "net/http.(*Client).Do", "net/http.(*Client).Get", "net/http.(*Client).Post", "net/http/httputil.(*ReverseProxy).ServeHTTP")
	pttCall := p.Calls(ptt)

	// only-door
	inProxy := func(m IM) IM {
		return func(in ssaInstr) bool {
			return m(in) && strings.HasPrefix(p.FuncName(topFunc(in.Parent())), "http.(*ProxyServer).")
		}
	}
	c.OnlyIn("only-door/upstream-call", inProxy(rt), []string{pat(ptt)}, 1,
		"among ProxyServer methods only proxyToTarget talks to the upstream application", "any other door to the application bypasses the read-your-writes wait and the replica write refusal")
	c.OnlyInScope("only-door/proxyToTarget-callers", []string{"http"}, pttCall, []string{pat(sh), pat(sr), pat(snr)}, 4,
		"proxyToTarget is called only from serveHTTP (passthrough), serveRead and serveNonRead", "a new caller would forward requests without classification")

	// classify
	c.Guarded("classify/passthrough", sh, pttCall, gs(GP("http.(*ProxyServer).isPassthrough(p0, p2)", true)), 1,
		"serveHTTP forwards directly only when the path matches a passthrough pattern", "writes on a replica would run locally")
	c.ExpectAll("classify/passthrough-flag/serveHTTP", c.CallArgs(sh, pttCall, 3), "true", 1, "serveHTTP's direct forward passes passthrough=true", "")
	c.ExpectAll("classify/passthrough-flag/serveRead", c.CallArgs(sr, pttCall, 3), "false", 1, "serveRead forwards with passthrough=false", "a write forwarded with passthrough=true gets no txid cookie (read-your-writes lost)")
	c.ExpectAll("classify/passthrough-flag/serveNonRead", c.CallArgs(snr, pttCall, 3), "false", 1, "serveNonRead forwards with passthrough=false", "a write forwarded with passthrough=true gets no txid cookie (read-your-writes lost)")
	c.GuardedPaths("classify/read", sh, p.Calls(sr), [][]*Guard{
		{GP(`("GET" == p2.Method)`, true), GP(`("HEAD" == p2.Method)`, true)},
		{GP("http.(*ProxyServer).isAlwaysForwarded(p0, p2)", false)},
		{GP("http.(*ProxyServer).isPassthrough(p0, p2)", false)},
	}, 1, "serveRead is reached only for GET/HEAD requests that match neither passthrough nor always-forward", "a write classified as a read is forwarded to the local application on a replica")
	c.Before("classify/every-request-dispatched", sh, IsReturn, Any(pttCall, p.Calls("http.(*ProxyServer).serveGetHealth", sr, snr)), 4,
		"every exit of serveHTTP has dispatched the request to exactly one of the four handlers", "an unhandled request gets an empty 200")
	c.GuardedPaths("classify/nonread-is-default", sh, p.Calls(snr), [][]*Guard{{GP("http.(*ProxyServer).isPassthrough(p0, p2)", false)}}, 1,
		"serveNonRead is reachable (it is the default) and never for passthrough paths", "")

	// write-on-replica
	pinfo := "litefs.(*Store).PrimaryInfoWithContext(p0.store, @@)"
	c.Guarded("write-on-replica/primary-only", snr, pttCall, gs(GP(pinfo+"#0", true)), 1,
		"in serveNonRead the upstream call is dominated by the isPrimary result being true", "a write request arriving at a replica must never run on the local application")
	c.Guarded("write-on-replica/replay-needs-info", snr, p.CallWhere("net/http.(Header).Set", `"fly-replay"`), gs(GP("("+pinfo+"#1 == nil)", false)), 1,
		"the fly-replay redirect is emitted only when primary info is known", "nil dereference / redirect to nowhere")
	c.Guarded("write-on-replica/503", snr, p.CallWhere("net/http.Error", `, 503\)$`), gs(GP("("+pinfo+"#1 == nil)", true)), 1,
		"503 is answered when no primary is known", "")
	c.Before("write-on-replica/answered", snr, IsReturn, Any(pttCall, p.Calls("net/http.Error"), p.CallWhere("net/http.(Header).Set", `"fly-replay"`)), 3,
		"every exit of serveNonRead has forwarded, redirected or answered an error", "")

	// read-your-writes
	txid := `(0|ltx.ParseTXID(net/http.(*Request).Cookie(p2, "__txid")#0.Value)#0)`
	txidRe := `(?:0|` + pat(`ltx.ParseTXID(net/http.(*Request).Cookie(p2, "__txid")#0.Value)#0`) + `)`
	_ = txid
	db := pat("litefs.(*Store).DB(p0.store, p0.DBName)")
	reached := G(`\(`+pat("litefs.(*DB).Pos(")+db+`\)\.TXID < `+txidRe+`\)`, false)
	c.GuardedPaths("ryw/wait", sr, pttCall, [][]*Guard{
		{G(`\(0 == `+txidRe+`\)`, true), reached},
		{G(`\(0 == `+txidRe+`\)`, true), G(`\(`+db+` == nil\)|\(nil == `+db+`\)`, false)},
	}, 2, "in serveRead the upstream call happens only when there is no cookie txid, or the tracked database exists on this node and its position has reached the cookie's txid (pos.TXID >= txid)",
		"a read carrying a transaction-ID cookie would be served from a replica that has not yet applied that transaction - or has not even received the database")
	c.NoPathFromEdge("ryw/timeout-no-forward", sr, GP("(0 == select#0)", true), pttCall, 1,
		"after the wait context is done the request is never forwarded", "a timed-out wait must end in 504, not in a stale read")
	c.After("ryw/timeout-504", sr, p.PlainCalls("context.Context.Done"), Any(pttCall, p.CallWhere("net/http.Error", `, 504\)$`)), IsReturn, 1,
		"every exit after entering the wait loop has either forwarded or answered 504", "")

	// cookie
	setCookie := p.PlainCalls("net/http.SetCookie")
	c.Before("cookie/after-upstream", ptt, p.PlainCalls("litefs.(*DB).Pos"), p.PlainCalls("net/http.(*Transport).RoundTrip"), 1,
		"the position used for the cookie is read after the upstream call returned", "a position read before the write names a transaction older than the write: the next read may be served stale")
	c.Guarded("cookie/not-passthrough", ptt, setCookie, gs(GP("p3", false)), 1, "no cookie for passthrough requests", "")
	isW, isAF := "http.(*ProxyServer).isWriteRequest(p0, p2)", "http.(*ProxyServer).isAlwaysForwarded(p0, p2)"
	c.Guarded("cookie/write-only", ptt, setCookie, gs(GP(isW, true), GP(isAF, true)), 1, "cookie only after requests handled as writes: a write method, or a path that is always forwarded", "")
	{
		noDB := G(`\(`+db+` == nil\)|\(nil == `+db+`\)`, true)
		wh := p.Calls("net/http.ResponseWriter.WriteHeader")
		c.AfterEdge("cookie/every-write-method", ptt, GP(isW, true), setCookie, wh, 1,
			"after a successful upstream call every request with a write method gets the cookie before the response is written (unless the tracked database does not exist)", "read-your-writes", noDB)
		c.AfterEdge("cookie/every-always-forwarded", ptt, GP(isAF, true), setCookie, wh, 1,
			"... and so does every request whose path is always forwarded", "F48: serveHTTP handles such a GET/HEAD as a write; without the cookie the client's next read on a replica does not wait for it", noDB)
		c.AfterEdge("cookie/always-forward-consulted", ptt, GP(isW, false), p.Calls("http.(*ProxyServer).isAlwaysForwarded"), wh, 1,
			"a request that is not a write by method is still tested against the always-forward patterns before the response is written", "the classification in serveHTTP and the cookie decision must agree on what a write is")
	}
	c.Guarded("cookie/upstream-ok", ptt, setCookie, gs(GP("(net/http.(*Transport).RoundTrip(p0.HTTPTransport, p2)#1 == nil)", true)), 1, "cookie only when the upstream call succeeded", "")
	fn := c.F(ptt)
	for _, in := range Instrs(fn, setCookie) {
		f := p.FieldsAt(callVals(in)[1], in)
		c.Expect("cookie/value-origin", f["Name"]+"="+f["Value"], pat(`"__txid"=ltx.(TXID).String(litefs.(*DB).Pos(litefs.(*Store).DB(p0.store, p0.DBName)).TXID)`),
			"the cookie is __txid = TXID of the tracked database's current position", "serveRead parses exactly this cookie against exactly this database")
	}
	c.ExpectAll("cookie/iswrite-def", []string{strings.Join(c.returnsOf("http.(*ProxyServer).isWriteRequest"), ";")}, pat(`phi((p1.Method != "HEAD")|false)`), 1,
		"isWriteRequest is 'method is neither GET nor HEAD'", "the complement of the read classification")

	// ---- classification is by path only; response headers are appended, never replaced ----
	for _, f := range []string{"http.(*ProxyServer).isPassthrough", "http.(*ProxyServer).isAlwaysForwarded"} {
		short := f[strings.LastIndex(f, ".")+1:]
		c.ExpectAll("classify/"+short+"/matches-path", c.CallArgs(f, p.Calls("regexp.(*Regexp).MatchString"), 1), pat("p1.URL.Path"), 1, short+" matches its patterns against the request path only", "matching the query string as well lets a request choose its own classification: a write with ?x=logo.png is run on the replica as a 'passthrough'")
	}
	{
		ptt := "http.(*ProxyServer).proxyToTarget"
		fn := c.F(ptt)
		key, rule := "cookie/headers-appended", "K5/K4 (header copy after the cookie)"
		desc := "after the transaction-ID cookie was set, the application's response headers are only appended (Header.Add); no header list is replaced or deleted"
		if c.need(key, rule, desc, fn, ptt) {
			bad := ""
			n := 0
			setCookie := Instrs(fn, p.Calls("net/http.SetCookie"))
			overwrite := func(in ssa.Instruction) bool {
				switch x := in.(type) {
				case *ssa.MapUpdate:
					return strings.Contains(p.Render(x.Map), "ResponseWriter.Header(p1)")
				case *ssa.Call:
					n := p.CalleeName(&x.Call)
					if n == "net/http.(Header).Set" || n == "net/http.(Header).Del" {
						return strings.Contains(c.argR(in, 0), "ResponseWriter.Header(p1)")
					}
					if n == "builtin.delete" {
						return strings.Contains(c.argR(in, 0), "ResponseWriter.Header(p1)")
					}
				}
				return false
			}
			for range setCookie {
				n++
			}
			if f := (&Search{P: p, Fn: fn, From: setCookie, Tgt: overwrite}).Run(); f != nil {
				bad = "header list replaced at " + c.where(f.Instr) + " after the cookie was set"
			}
			adds := Instrs(fn, p.Calls("net/http.(Header).Add"))
			if len(adds) == 0 {
				bad = "the response headers are not copied with Header.Add"
			}
			if bad != "" || n == 0 {
				c.fail(key, rule, desc, "the application's own Set-Cookie would replace the proxy's __txid cookie: the client keeps a stale transaction ID and reads from a replica that has not applied its write", bad, n)
			} else {
				c.ok(key, rule, desc, n+len(adds))
			}
		}
	}
}

package main

// Rule kind K9: lock-set typestate over the twelve guards of a GuardSet,
// decided per feasible path (the path enumerator supplies the block trace;
// the lock state is folded along it, so no joins are needed).

import (
	"fmt"
	"go/token"
	"regexp"
	"sort"
	"strings"

	"golang.org/x/tools/go/ssa"
)

var guardFields = []string{"pending", "shared", "reserved", "write", "ckpt", "recover", "read0", "read1", "read2", "read3", "read4", "dms"}

var guardRecvRx = regexp.MustCompile(`^&?(.*)\.(pending|shared|reserved|write|ckpt|recover|read0|read1|read2|read3|read4|dms)$`)

type lockState map[string]byte // 'U' unlocked, 'S' shared, 'X' exclusive

func (s lockState) String() string {
	var parts []string
	for _, f := range guardFields {
		st := s[f]
		if st == 0 {
			st = 'U'
		}
		if st != 'U' {
			parts = append(parts, f+"="+string(st))
		}
	}
	if len(parts) == 0 {
		return "(nothing held)"
	}
	return strings.Join(parts, ",")
}

type pendingLock struct {
	field string
	kind  byte // 'S' or 'X'
	isErr bool // blocking variant: result is an error (nil = acquired)
}

// lockStateAt folds the guard operations along a path up to (excluding) at.
func (c *Ctx) lockStateAt(trace []*ssa.BasicBlock, at ssa.Instruction) lockState {
	p := c.P
	st := lockState{}
	pend := map[ssa.Value]pendingLock{}
	apply := func(pl pendingLock) {
		st[pl.field] = pl.kind
	}
	for bi, b := range trace {
		for _, in := range b.Instrs {
			if in == at {
				return st
			}
			call, ok := in.(*ssa.Call)
			if !ok {
				continue
			}
			name := p.CalleeName(&call.Call)
			switch name {
			case "litefs.(*RWMutexGuard).TryRLock", "litefs.(*RWMutexGuard).TryLock", "litefs.(*RWMutexGuard).RLock", "litefs.(*RWMutexGuard).Lock", "litefs.(*RWMutexGuard).Unlock":
				if len(call.Call.Args) == 0 {
					continue
				}
				m := guardRecvRx.FindStringSubmatch(p.Render(call.Call.Args[0]))
				if m == nil {
					continue
				}
				f := m[2]
				switch name {
				case "litefs.(*RWMutexGuard).Unlock":
					st[f] = 'U'
				case "litefs.(*RWMutexGuard).TryRLock":
					pend[call] = pendingLock{f, 'S', false}
				case "litefs.(*RWMutexGuard).TryLock":
					pend[call] = pendingLock{f, 'X', false}
				case "litefs.(*RWMutexGuard).RLock":
					pend[call] = pendingLock{f, 'S', true}
				case "litefs.(*RWMutexGuard).Lock":
					pend[call] = pendingLock{f, 'X', true}
				}
			case "litefs.(*GuardSet).Unlock":
				for _, f := range guardFields {
					st[f] = 'U'
				}
			case "litefs.(*GuardSet).UnlockDatabase":
				for _, f := range []string{"pending", "shared", "reserved"} {
					st[f] = 'U'
				}
			case "litefs.(*GuardSet).UnlockSHM":
				for _, f := range guardFields[3:] {
					st[f] = 'U'
				}
			}
		}
		// branch at the end of the block
		if bi+1 >= len(trace) || len(b.Instrs) == 0 {
			continue
		}
		iff, ok := b.Instrs[len(b.Instrs)-1].(*ssa.If)
		if !ok || len(b.Succs) != 2 || b.Succs[0] == b.Succs[1] {
			continue
		}
		taken := b.Succs[0] == trace[bi+1]
		cond := iff.Cond
		for {
			u, ok := cond.(*ssa.UnOp)
			if !ok || u.Op != token.NOT {
				break
			}
			cond = u.X
			taken = !taken
		}
		if pl, ok := pend[cond]; ok && !pl.isErr {
			if taken {
				apply(pl)
			}
			continue
		}
		if bo, ok := cond.(*ssa.BinOp); ok && (bo.Op == token.EQL || bo.Op == token.NEQ) {
			var v ssa.Value
			if isNilConst(bo.Y) {
				v = bo.X
			} else if isNilConst(bo.X) {
				v = bo.Y
			}
			if pl, ok := pend[v]; ok && pl.isErr {
				isNil := (bo.Op == token.EQL) == taken
				if isNil {
					apply(pl)
				}
			}
		}
	}
	return st
}

// LockAt (K9): on every feasible path (optionally only those on which all
// guards in when hold) the lock state at each target satisfies want:
// field -> set of allowed states, e.g. "S", "X", "SX".
func (c *Ctx) LockAt(key, fname string, target IM, want map[string]string, when []*Guard, min int, desc, why string) {
	rule := "K9 lock-set typestate (per-path)"
	fn := c.F(fname)
	if !c.need(key, rule, desc, fn, fname) {
		return
	}
	if len(Instrs(fn, target)) < min {
		c.fail(key, rule, desc, why, fmt.Sprintf("only %d target site(s) in %s, expected >= %d", len(Instrs(fn, target)), fname, min), 0)
		return
	}
	var bad string
	n := 0
	_, over := c.P.EnumPaths(fn, target, 60000, func(facts []PathFact, trace []*ssa.BasicBlock, at ssa.Instruction) {
		if bad != "" || !factsHold(facts, when) {
			return
		}
		n++
		st := c.lockStateAt(trace, at)
		var keys []string
		for f := range want {
			keys = append(keys, f)
		}
		sort.Strings(keys)
		for _, f := range keys {
			cur := st[f]
			if cur == 0 {
				cur = 'U'
			}
			if !strings.ContainsRune(want[f], rune(cur)) {
				bad = fmt.Sprintf("at %s the guard %q is %c (required one of %q); held on this path: %s; path %s", c.where(at), f, cur, want[f], st, c.P.TraceString(trace))
				return
			}
		}
	})
	if over {
		c.undecided(key, rule, desc, "more than 60000 paths")
		return
	}
	if bad != "" {
		c.fail(key, rule, desc, why, bad, n)
		return
	}
	if n == 0 {
		c.fail(key, rule, desc, why, "no feasible path reaches the target under the stated conditions", 0)
		return
	}
	c.ok(key, rule, desc, n)
}

#!/bin/sh
# Build (if needed) and run the static checker. Usage: ./run.sh check -property C05 -tier quick
set -e
cd "$(dirname "$0")"
export GOFLAGS=-mod=mod GOPROXY=off GOSUMDB=off GOTOOLCHAIN=local
unset GOWORK
if [ ! -x bin/lfscheck ] || [ -n "$(find tool -newer bin/lfscheck -name '*.go' 2>/dev/null | head -1)" ]; then
  mkdir -p bin
  (cd tool && go build -o ../bin/lfscheck .) >&2
fi
exec bin/lfscheck "$@"

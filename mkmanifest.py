#!/usr/bin/env python3
"""Generate MANIFEST.json from the table of claimed properties."""
import json, subprocess, sys
CLAIMED = {
 "C05": ("other", "Structural necessary conditions of crash recovery: the temp/fsync/rename/dir-fsync protocol with error discipline on all seven publishers, publish-before-invalidate, ownership of mutations by the OS interface, the partial order of Open/recover/rollback/checkpoint, WAL-trim guards and divisor guards, decided on every path of the SSA control-flow graph. Does NOT decide the recovery outcome at individual crash points (runtime exploration).", "DESIGN.md section 4 C05, section 3.1",
         "CFG path rules (must-pass-through, guarded-by, after-on-success), who-may-call, origin rendering, error-discipline over go/ssa"),
 "C19": ("other", "All clauses of the property are control-flow facts of http/proxy_server.go; each is decided on every path (only door to the application, request classification with per-path phi resolution, primary-only forwarding of writes, wait-for-position dominance, cookie read after the upstream call). Does NOT decide that the application's write has committed when it answers.", "DESIGN.md section 4 C19",
         "CFG guarded-by / no-path rules with path enumeration and phi resolution, who-may-call, origin rendering over go/ssa"),
}
CLAIMED["C07"] = ("other", "Write-authority gates as structure: the DB/Store methods reachable from the fuse and http packages are discovered; each one reaching a file-system mutation must be a confirmed gated mutator (every path entry->first effect passes the true branch of Writeable()/IsPrimary(), refusing branch returns ErrReadOnlyReplica) or a confirmed exception; plus re-check after the last blocking call before publishing, errno mapping (sibling agreement), import bound to the primary context, modes, closed caller sets of setPos/ApplyLTXNoLock. Does NOT decide demotion schedules relative to in-flight transactions.", "DESIGN.md section 4 C07, section 3.3",
  "entry-point discovery over the call graph vs. confirmed tables, CFG guarded-by rules, sibling agreement, origin rendering over go/ssa")
CLAIMED["C02"] = ("other", "Structural necessary conditions of rollback-journal capture decided on every path: dirty tracking of every accepted database write, commit-detection wiring of the three finalisation events, no LTX on the rollback branch, LTX header provenance (TXID+1, pre = previous post checksum, commit from the database header), page filter (<= commit, lock page skipped, sorted, bytes from the database file, checksum cross-check), truncated-page reset before the post-apply checksum, publish/invalidate/advance order, guards of TruncateDatabase. Does NOT decide that the LTX equals the page delta for every pager program.", "DESIGN.md section 4 C02",
  "CFG path rules, origin rendering of header/argument values, who-may-write tables over go/ssa")
CLAIMED["C03"] = ("other", "Structural necessary conditions of WAL capture decided on every path: guards of the three WAL write classes, ownership of the capture state, frame discovery (salt and cumulative-checksum tests dominate every recorded frame, chained checksum, success only on a commit frame), capture exactly at write-lock release and before the release, no effect when no transaction is found, header provenance, page selection, publish order, state advance after durability, fatal exit on failure, index bounds of DB.checksum. Does NOT decide equality of the LTX with the reference delta or checksum arithmetic.", "DESIGN.md section 4 C03",
  "CFG path rules, origin rendering, SSA def-use chain check of the cumulative checksum, index-bound guard over go/ssa")
CLAIMED["C01"] = ("other", "Structural invariants of the replication pipeline decided on every path: position set only after pages, file verification, resize and the post-apply checksum comparison; kernel-cache invalidation on every replica-side change and its wiring; every subscriber notified after every position change; stream-loop dirty-set handling (subscribe before positions, initial set, positions only from what was sent); replica dispatch covering every frame type; replica apply under the write lock after publication. Does NOT decide byte identity of images or convergence time.", "DESIGN.md section 4 C01",
  "CFG path rules, origin rendering, who-may-call/write tables, mutex-held rule, frame-type table over go/ssa")
CLAIMED["C06"] = ("other", "TXIDs and checksums are touched only through comparisons: the divergence handling is a finite decision table extracted by enumerating every feasible path (phis and local struct cells resolved per path) and compared with the confirmed tables on the primary (streamDB, streamLTX), the replica (processLTXStreamFrame, position read under the write lock) and the forwarding side (WriteLTXFileAt), plus chain reset on snapshots. Does NOT decide fork detection probability (checksum collisions) or end-state byte identity.", "DESIGN.md section 4 C06",
  "decision-table extraction by path enumeration with phi/cell resolution, CFG guarded-by / no-path rules, origin rendering over go/ssa")
CLAIMED["C09"] = ("other", "Chain invariants as structure: header provenance of the four local creators (TXID+1, pre = previous post), temp names and listings that ignore unparsable names, acceptance only of files that extend the exact position and verify, snapshot clears the directory, and the retention delete decision extracted by path enumeration with phi resolution (never the newest file; older than the cut-off; below the high-water mark when a backup client is configured), HWM provenance. Does NOT decide chain validity over arbitrary histories or sweep/stream races.", "DESIGN.md section 4 C09",
  "origin rendering of headers, path enumeration with phi resolution for the retention formula, who-may-call tables, CFG rules over go/ssa")
CLAIMED["C04"] = ("other", "The from-scratch checksum is a function of file bytes (not statically computable); decided instead: the incremental cache is updated wherever database bytes change and only consistently - enumerated file write/truncate sites vs table, page write => checksum update with the same arguments, truncate => reset, ownership of the cache fields, unconditional block-cache clear, lock page = 0, mutex discipline incl. call sites of must-hold helpers, empty checksum, aggregation guards and overridden-block marking, block arithmetic, WAL overlay ownership/lookup order, the two verification points. Does NOT decide numeric equality with CRC64 over real bytes.", "DESIGN.md section 4 C04",
  "who-may-write tables, CFG after/guarded rules, OnlyGuards (effect unconditional), mutex-held rule, origin rendering over go/ssa")
CLAIMED["C10"] = ("other", "The snapshot/export lock protocol as a typestate over the twelve guards, folded along every feasible path: capture (position, size, page size, WAL overlay) under SHARED and, in WAL mode, the exclusive WRITE lock, nothing re-read after its release; every page read under SHARED and all five READ locks (export: plus CKPT, RECOVER); CKPT/RECOVER released only after the READ locks are held; deferred full release; pages read through the copied overlay; snapshot self-check; checkpoint gate. Does NOT explore the schedule interleavings themselves.", "DESIGN.md section 4 C10, section 3.4",
  "per-path lock-set typestate over go/ssa paths (path enumeration, phi resolution), CFG no-path rules, origin rendering")
CLAIMED["C11"] = ("other", "Each code path on which LiteFS changes a database on its own initiative acquires the lock set the protocol requires: discovered call sites of the lock-free internal writers must be dominated by a successful AcquireWriteLock with deferred release (or by the halt-lock holder check, or lie in another family member, or be application-originated); TryAcquireWriteLock's exit lock sets per mode and release on failure (per-path typestate); no re-acquisition while holding the set; wiring tables (guards to mutexes, lock types to guards and to SQLite byte offsets, range parsers, fuse lock handlers); checkpoint gate; WAL write guards. Does NOT explore multi-owner lock state spaces.", "DESIGN.md section 4 C11, sections 3.4/3.5",
  "call-site discovery vs tables, per-path lock-set typestate, CFG dominance with error-edge tracking, constant tables from go/types, interprocedural reachability with constant-argument pruning")
REASONS = {}
def main():
    checks=[]
    for pid,(lvl,text,ref,tech) in sorted(CLAIMED.items()):
        checks.append({
          "property_id": pid,
          "quick_cmd": f"./run.sh check -property {pid} -tier quick",
          "thorough_cmd": f"./run.sh check -property {pid} -tier thorough",
          "evidence_file": f"/verif/evidence/{pid}.json",
          "replay_cmd_template": "./run.sh explain {path}",
          "engine": "lfscheck",
          "level_claimed": {"category": lvl, "text": text, "design_ref": ref},
          "level_note": "Trusted base: go/packages, go/types and go/ssa of golang.org/x/tools v0.29.0 represent /repo's current source faithfully; the rule tables in /verif/tool (confirmed by reading the code, frozen, with instance floors); fsync/rename semantics of the OS. The check reads /repo's working tree on every run and executes nothing from it.",
          "technique": "static analysis: " + tech,
        })
    na=[]
    for i in range(1,21):
        pid="C%02d"%i
        if pid not in CLAIMED:
            na.append({"property_id":pid,"reason":REASONS.get(pid,"check not yet built in this round; design in DESIGN.md section 4 (temporary entry, replaced as checks land)")})
    m={"version":1,
       "setup_cmd":"cd /verif/tool && GOFLAGS=-mod=mod GOPROXY=off GOSUMDB=off GOTOOLCHAIN=local go build -o ../bin/lfscheck .",
       "hooks":{"guard":"verif","enable":"none needed: static analysis reads the source; no file in /repo carries the verif tag (thorough tier additionally loads with -tags verif)","baseline_off_cmd":"cd /repo && go build ./... && go test -vet=off -count=1 -timeout 25m ./...","source_commits":[],"add_only":True},
       "engines":[{"name":"lfscheck","path":"/verif/tool","serves_properties":sorted(CLAIMED),"kind_free_text":"repository-specific static analyser over go/packages + go/ssa (x/tools v0.29.0): CFG path rules, origin rendering, who-may-call/write tables, error discipline, value guards; overlay mutants for self-test"}],
       "checks":checks,
       "not_applicable":na,
       "notes":"Technique family: static analysis only. Every verdict is computed from /repo's current source; nothing in /repo is executed. Known findings: /verif/known_findings.json. See DESIGN.md."}
    json.dump(m,open('/verif/MANIFEST.json','w'),indent=1)
    print("claimed",len(checks),"na",len(na))
main()

#!/bin/bash
# usage: seedverify_wt.sh <worktree> <seeddir> <pkgdir> <run-regex> <property> <id>   (variant of seedverify.sh that runs the checks with -repo <worktree>: /repo is not touched)
# Confirms an independently written breaking change: demo passes without the patch, fails with it,
# project builds and the stable test subsets still pass; then runs the registered check against it.
set -u
WT=$1; SD=$2; PKG=$3; RX=$4; PROP=$5; ID=$6
export GOFLAGS=-mod=mod GOPROXY=off GOSUMDB=off GOTOOLCHAIN=local; unset GOWORK
cd $WT || exit 2
git checkout -q -- . ; rm -f $PKG/zz_seed_demo_test.go
DEMO=$(ls $SD/*_test.go 2>/dev/null | head -1)
cp "$DEMO" $PKG/zz_seed_demo_test.go
echo "--- demo without patch"; go test -vet=off -count=1 -timeout 180s -run "$RX" ./$PKG 2>&1 | tail -3 ; R0=${PIPESTATUS[0]}
git apply $SD/patch.diff || { echo APPLY-FAILED; exit 2; }
echo "--- build with patch"; go build ./... ; B=$?
echo "--- demo with patch"; go test -vet=off -count=1 -timeout 180s -run "$RX" ./$PKG 2>&1 | tail -6 ; R1=${PIPESTATUS[0]}
rm -f $PKG/zz_seed_demo_test.go
echo "--- stable tests with patch"
go test -vet=off -count=1 . ./http/... ./internal/... ./lfsc/... 2>&1 | tail -6; S1=${PIPESTATUS[0]}
go test -vet=off -count=1 -run 'TestConfig|TestExpandEnv|TestMountCommand_Validate|TestUnmarshalConfig' ./cmd/litefs 2>&1 | tail -1; S2=${PIPESTATUS[0]}
go test -vet=off -count=1 -run 'TestFileTypeFilename|TestParseFilename|TestToErrno' ./fuse 2>&1 | tail -1; S3=${PIPESTATUS[0]}
git checkout -q -- .
echo "RESULT demo_without=$R0 build=$B demo_with=$R1 stable=$S1/$S2/$S3"
if [ $R0 -ne 0 ] || [ $B -ne 0 ] || [ $R1 -eq 0 ] || [ $S1 -ne 0 ] || [ $S2 -ne 0 ] || [ $S3 -ne 0 ]; then echo "NOT-CONFIRMED"; exit 3; fi
echo "CONFIRMED"
# run our checks against the patched scratch worktree itself (-repo), leaving /repo alone
cd $WT && git apply $SD/patch.diff || { echo APPLY-WT-FAILED; exit 2; }
cd /verif; RC=0; : > /tmp/seedrun-$ID.txt
PIDS=""
for P in $(python3 -c "import json;print(' '.join(c['property_id'] for c in json.load(open('/verif/MANIFEST.json'))['checks']))"); do
  ( bin/lfscheck check -repo $WT -property $P -no-evidence > /tmp/seedrun-$ID.$P.txt 2>&1; echo $? > /tmp/seedrun-$ID.$P.rc ) &
  PIDS="$PIDS $!"
done
wait $PIDS
for f in /tmp/seedrun-$ID.C*.txt; do cat $f >> /tmp/seedrun-$ID.txt; done
for f in /tmp/seedrun-$ID.C*.rc; do [ "$(cat $f)" = "0" ] || RC=1; done
rm -f /tmp/seedrun-$ID.C*.txt /tmp/seedrun-$ID.C*.rc
git -C $WT checkout -q -- .
grep -E "^VIOLATION C|^UNDECIDED" /tmp/seedrun-$ID.txt | head -5
echo "CHECK exit=$RC"
mkdir -p /verif/seeded/$ID
cp $WT/$SD/patch.diff /verif/seeded/$ID/patch.diff
cp "$WT/$DEMO" /verif/seeded/$ID/demo_test.go.txt
[ -f $WT/$SD/README.txt ] && cp $WT/$SD/README.txt /verif/seeded/$ID/README.txt
exit 0

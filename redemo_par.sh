#!/bin/bash
# Parallel variant of redemo.sh: splits the seeds over N scratch worktrees (/tmp/wt-demo-k, removed at the end),
# runs every demonstration on the clean tree (must pass) and with the seed's patch (must fail), writes seeded/DEMOS.md.
export GOFLAGS=-mod=mod GOPROXY=off GOSUMDB=off GOTOOLCHAIN=local; unset GOWORK
N=${1:-6}
ids=$(ls /verif/seeded | grep -E '^C[0-9]+-[0-9]+$' | sort -V)
rm -f /tmp/redemo-part-*.txt
one() { k=$1; shift; WT=/tmp/wt-demo-$k
  git -C /repo worktree remove --force $WT 2>/dev/null; git -C /repo worktree add -q --detach $WT HEAD || exit 2
  cd $WT
  for id in "$@"; do
    d=/verif/seeded/$id; f=$d/demo_test.go.txt; [ -f $f ] || continue
    pkgline=$(grep -m1 '^package ' $f | awk '{print $2}')
    case "$pkgline" in
      http_test|http) pk=http;; chunk_test|chunk) pk=internal/chunk;; fuse_test|fuse) pk=fuse;; lfsc_test|lfsc) pk=lfsc;; consul_test|consul) pk=consul;; main|main_test) pk=cmd/litefs;; *) pk=.;;
    esac
    git checkout -q -- . ; git clean -fdq
    cp $f $pk/zz_seed_demo_test.go
    RX=$(grep -o '^func Test[A-Za-z0-9_]*' $f | sed 's/func //' | paste -sd'|')
    timeout 300 go test -vet=off -count=1 -timeout 240s -run "$RX" ./$pk > /tmp/redemo-$k.out 2>&1; r0=$?
    if git apply $d/patch.diff 2>/dev/null; then
      timeout 300 go test -vet=off -count=1 -timeout 240s -run "$RX" ./$pk > /tmp/redemo-$k.out 2>&1; r1=$?
      w=$([ $r1 -ne 0 ] && echo fails || echo PASSES)
    else w="(patch does not apply)"; fi
    c=$([ $r0 -eq 0 ] && echo passes || echo FAILS)
    echo "| $id | $c | $w |" >> /tmp/redemo-part-$k.txt
  done
  cd /; git -C /repo worktree remove --force $WT; rm -f /tmp/redemo-$k.out
}
i=0; declare -a buckets
for id in $ids; do buckets[$((i%N))]+=" $id"; i=$((i+1)); done
for k in $(seq 0 $((N-1))); do one $k ${buckets[$k]} & done; wait
out=/verif/seeded/DEMOS.md
printf '| seed | demo on clean tree | demo with patch |\n|---|---|---|\n' > $out
cat /tmp/redemo-part-*.txt | sort -t'|' -k2,2V >> $out
rm -f /tmp/redemo-part-*.txt
grep -c "passes | fails" $out; grep -v "passes | fails" $out | tail -n +3

#!/usr/bin/env python3
"""seedmeta.py <id> <property> <caught_by or NONE> : writes seeded/<id>/meta.json from README + last run."""
import json,sys,os,re
sid,prop,caught=sys.argv[1],sys.argv[2],sys.argv[3]
d='/verif/seeded/'+sid
readme=open(d+'/README.txt').read() if os.path.exists(d+'/README.txt') else ''
run=open('/tmp/seedrun-%s.txt'%sid).read() if os.path.exists('/tmp/seedrun-%s.txt'%sid) else ''
fired=sorted(set(re.findall(r'^(?:VIOLATION|UNDECIDED) (C\d+\.\S+)',run,re.M)))
meta={"id":sid,"property":prop,"source":"independent sub-agent given only the property text and a scratch worktree",
 "what_and_what_it_needs":readme.strip(),
 "confirmed":"seedverify.sh: demo passes without the patch, fails with it; go build ./... ok; stable test subsets (root, http, internal, lfsc, cmd/litefs subset, fuse subset) still pass with the patch",
 "check_run":"git -C /repo apply patch.diff; ./run.sh check -property %s; git -C /repo checkout -- ."%prop,
 "detected": caught!="NONE", "obligations_fired":fired, "note":caught}
json.dump(meta,open(d+'/meta.json','w'),indent=1)
print(sid,meta["detected"],fired[:4])

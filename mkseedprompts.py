#!/usr/bin/env python3
"""mkseedprompts.py <round-tag> <first> <last>: writes /tmp/agent<tag>-Cnn.txt (the complete task text for an
independent sub-agent: property text only, nothing from /verif) and creates the scratch worktrees /tmp/w<tag>-Cnn."""
import json, re, glob, subprocess, sys
tag, first, last = sys.argv[1], int(sys.argv[2]), int(sys.argv[3])
TMPL = '''You are helping to evaluate a verification tool by writing realistic BUGS. Work ONLY inside the scratch git worktree WT (a checkout of the Go project superfly/litefs: a FUSE passthrough filesystem that captures SQLite transactions as LTX files and replicates them from a lease-elected primary to replicas over HTTP/2). Do not read or write anything under /verif or /repo. There is no network.

Every shell command needs:  export GOFLAGS=-mod=mod GOPROXY=off GOSUMDB=off GOTOOLCHAIN=local; unset GOWORK

Here is a semantic property of litefs that should always hold:

PROPTEXT

TASK: produce TWO different, independent source changes to litefs (non-test .go files) that each BREAK this property, while the project still compiles (go build ./...) and every test that passes on the unchanged tree still passes with the change. (Many tests in ./fuse and ./cmd/litefs need a FUSE mount and fail in this sandbox even without any change; ignore those. To compare: run `go test -vet=off -count=1 ./... 2>&1 | grep -E "^(ok|FAIL|---)"` and for the root package, ./http, ./internal/..., ./lfsc make sure the set of passing tests is unchanged, e.g. `go test -vet=off -count=1 . ./http/... ./internal/... ./lfsc/...` must still print ok for each, and `go test -vet=off -count=1 -run 'TestConfig|TestExpandEnv|TestMountCommand_Validate|TestUnmarshalConfig' ./cmd/litefs` and `go test -vet=off -count=1 -run 'TestFileTypeFilename|TestParseFilename|TestToErrno' ./fuse` must still pass.)

Earlier rounds already produced changes inside these functions: AVOID. Choose DIFFERENT functions and DIFFERENT mechanisms this time. Look at the whole path the property depends on: the FUSE layer (fuse/*.go) and the HTTP client as well as the server, start-up/open and shutdown paths, the background monitors, configuration defaults, sibling implementations of the same interface (static vs. Consul leaser, file vs. LiteFS Cloud backup client), small helpers and accessors that many callers trust, error and clean-up paths, in-memory caches that must follow the files, and places where two functions must agree on a constant, an order or a format.

Requirements for each change:
- It must be REALISTIC: the kind of slip or well-meant refactor/optimisation a maintainer could make (a dropped or reordered step, a weakened or inverted condition, a wrong variable, an off-by-one, a missing error check, a check moved after the effect, two cooperating sites that each look fine alone). No obviously malicious code, no dead flags, no comments announcing the bug.
- It must need something SPECIFIC to manifest: a particular interleaving, a crash or fault at a particular point, a multi-step sequence of operations, an unusual input, or a particular node role / timing. Ordinary use (and the existing test-suite) must not expose it at once.
- Keep each change small (a few lines, one or two functions).
- Provide a DEMONSTRATION for each: a Go test file (package litefs_test / http_test / the package's own _test package, or an internal test in the package) that FAILS with the change and PASSES without it. The demonstration must not need a FUSE mount: drive the Go API directly (litefs.NewStore / Store.Open with litefs.NewStaticLeaser, DB methods such as WriteDatabaseAt / WriteJournalAt / CommitJournal / ApplyLTXNoLock, the http Server/Client/ProxyServer with net/http/httptest, the stream-frame codecs, mock.OS in ./mock for fault injection, etc.). Look at the existing *_test.go files for helpers and usage. Verify yourself: run the demonstration with the change (must fail) and without it (must pass). Do NOT use `git stash` (the stash is shared with other worktrees of the same repository): save your change with `git diff > /tmp/<unique>.diff`, undo it with `git apply -R`, re-apply it with `git apply`.

DELIVERABLES (write them inside WT, nowhere else):
  WT/_seed/1/patch.diff      output of `git diff` for change 1 only (source change, not the demo)
  WT/_seed/1/demo_test.go    the demonstration, plus WT/_seed/1/README.txt: one paragraph: what the change is, why it breaks the property, what exactly is needed for it to manifest, where the demo file must be placed (which package dir) and the exact command to run it, and the observed output with/without the change.
  WT/_seed/2/...             the same for change 2.
Each patch.diff must apply with `git apply` to a clean checkout of WT's HEAD and contain only your own change. Leave the worktree itself clean at the end (git checkout -- . ; remove stray test files outside _seed).

Finally reply with a short summary: for each change: files/functions touched, one sentence on the bug, and how it manifests. If, while probing, you saw behaviour of the UNCHANGED tree that already contradicts the property, describe it in one paragraph at the end (input / sequence and what happened).
'''
props = {}
for l in open('/verif/properties.jsonl'):
    d = json.loads(l); props[d['id']] = d
for i in range(first, last + 1):
    pid = 'C%02d' % i
    d = props[pid]
    text = '%s\n\n%s\n\nScope: %s' % (d['title'], d['statement'], d['quantifier']['text'])
    touched = set()
    for pf in glob.glob('/verif/seeded/%s-*/patch.diff' % pid):
        for m in re.finditer(r'^@@.*@@ func (?:\([^)]*\) )?([A-Za-z_0-9]+)', open(pf).read(), re.M):
            touched.add(m.group(1))
    wt = '/tmp/w%s-%s' % (tag, pid)
    t = TMPL.replace('WT', wt).replace('PROPTEXT', text).replace('AVOID', ', '.join(sorted(touched)) or '(none)')
    open('/tmp/agent%s-%s.txt' % (tag, pid), 'w').write(t)
    subprocess.run(['git', '-C', '/repo', 'worktree', 'add', '--detach', '-q', wt, 'HEAD'], check=False)
print('ok')
